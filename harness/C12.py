"""C12 — tree-changing commands never silently discard uncommitted work."""
import hashlib
import os
import shutil

from vf import env, tlc, core, table
from harness import table_common

META = dict(
    property_id="C12", level="model_checking", design_ref="DESIGN.md §4 C12",
    technique="TLA+ model of per-file classes (unchanged / user-edited / merge-written / added / unknown / conflicted / "
              "missing / unversioned-but-kept / renamed-and-edited) x revert, remove, merge, pull, update, switch, uncommit with their options, "
              "with the safety rule 'every user content still exists somewhere in the tree directory' as the law, "
              "model-checked by TLC on the specification's own command semantics; the TLC case table is built on real "
              "on-disk bzr (2a) and git trees, the real command is run (library API, and builtins command objects for a "
              "sample), and the directory contents before / after are judged by TLC",
    level_text="TLC enumerates every assignment of the 9 file classes to 2 (quick: seeded, class-stratified sample of the state groups) / 3 "
               "(thorough, bzr; 2 for git) files x revert(all | one file | directory, backups yes/no) x remove(file | "
               "directory, keep | force | default) x {merge, pull, update, switch}(incoming edit of the same / other "
               "region, delete, rename, rename + edit, colliding add) x uncommit, proves the rule on the model, and every replayed "
               "case is a real command on a real tree whose complete directory content (path -> content) before and "
               "after is judged by the same TLA+ rule; exact locations are compared with the model as conformance. The "
               "commands decide per file on class and options only, so small-scope exhaustion is the right level.",
    level_note="Two-region text model (local edits touch region A). Merge-written / conflicted states are produced by a "
               "real earlier merge and are only combined with revert / remove / uncommit (merge-like commands start "
               "without a pending merge). update = bound checkout, switch = lightweight checkout; git trees: revert, "
               "remove, uncommit, merge, pull. Symlinks, directories-only changes and content filters are outside. "
               "Trusted: TLC, the JSON bridge, the directory walker in this harness.",
)

SEP = "".join("s%d\n" % i for i in range(1, 9))
FMT = {"bzr": "2a", "git": "git"}
CTL = {"bzr": ".bzr", "git": ".git"}
INBASIS = ("unch", "edit", "mergew", "confl", "missing", "rmkept", "renedit")
SHAPE = {"update": "bound", "switch": "light"}
MERGEOPS = ("merge", "pull", "update", "switch")
WITNESSES = ("WitnessBackup", "WitnessMoved", "WitnessDirBackup", "WitnessCleanMerge", "WitnessConflict",
             "WitnessDiscardOk", "WitnessRenamedEdit", "WitnessRenamedBothSides", "WitnessRenamedIncoming",
             "WitnessHelperAtRisk")
CLASSES = ("unch", "edit", "mergew", "added", "unknown", "confl", "missing", "rmkept", "renedit")


def text(f, ra, rb):
    return ("top %s\nA-%s\n%sB-%s\nend %s\n" % (f, ra, SEP, rb, f)).encode()


def tags_for(files):
    out = {b"keep\n": "k"}
    for f in files:
        for ra in "0LIS":
            for rb in "0PIS":
                out[text(f, ra, rb)] = "%s:%s/%s" % (f, ra, rb)
    return out


def wr(root, rel, data):
    p = os.path.join(root, rel)
    os.makedirs(os.path.dirname(p), exist_ok=True)
    with open(p, "wb") as fh:
        fh.write(data)


def observe(root, fl, tags):
    """{relative path: content tag} over the whole tree directory except the control directory"""
    out = {}
    for d, dirs, files in os.walk(root):
        dirs[:] = [x for x in dirs if not (d == root and x == CTL[fl])]
        for n in files:
            p = os.path.join(d, n)
            rel = os.path.relpath(p, root)
            if os.path.islink(p):
                out[rel] = "link:" + os.readlink(p)
                continue
            with open(p, "rb") as fh:
                b = fh.read()
            t = tags.get(b)
            if t is None:
                t = "M" if b"<<<<<<<" in b and b">>>>>>>" in b else "X:" + hashlib.sha1(b).hexdigest()[:8]
            out[rel] = t
    return out


class Fix:
    """One state group: a template (trunk at r1 <- r0, the tree under test `w` with the class assignment applied, a
    side branch if something was merged earlier) built once at <top>/cur and kept as <top>/tmpl; every case works on a
    fresh copy at <top>/cur, so absolute locations stored inside (bound / reference branches) stay valid."""

    def __init__(self, top, fl, shape, cls):
        self.top, self.fl, self.shape, self.cls = top, fl, shape, dict(cls)
        self.files = sorted(cls)
        self.tags = tags_for(self.files)
        self.cur = os.path.join(top, "cur")
        self.tmpl = os.path.join(top, "tmpl")

    def build_template(self):
        from breezy import controldir
        cur = self.cur
        shutil.rmtree(cur, ignore_errors=True)
        shutil.rmtree(self.tmpl, ignore_errors=True)
        os.makedirs(cur)
        fmt = controldir.format_registry.make_controldir(FMT[self.fl])
        trunk = controldir.ControlDir.create_standalone_workingtree(os.path.join(cur, "trunk"), format=fmt)
        tp = trunk.basedir
        inb = [f for f in self.files if self.cls[f] in INBASIS]
        wr(tp, "d/k", b"keep\n")
        for f in inb:
            wr(tp, f, text(f, "0", "P"))
        trunk.add(["d", "d/k"] + inb)
        trunk.commit("r0")
        for f in inb:
            wr(tp, f, text(f, "0", "0"))
        trunk.commit("r1", allow_pointless=True)
        wp = os.path.join(cur, "w")
        if self.shape == "standalone":
            w = trunk.controldir.sprout(wp).open_workingtree()
        elif self.shape == "bound":
            w = trunk.branch.create_checkout(wp, lightweight=False)
        else:
            old = trunk.controldir.sprout(os.path.join(cur, "old")).open_branch()
            w = old.create_checkout(wp, lightweight=True)
        mer = [f for f in self.files if self.cls[f] in ("mergew", "confl")]
        if mer:
            side = trunk.controldir.sprout(os.path.join(cur, "side")).open_workingtree()
            for f in mer:
                wr(side.basedir, f, text(f, "S", "0"))
            side.commit("rS")
            for f in mer:
                if self.cls[f] == "confl":
                    wr(wp, f, text(f, "L", "0"))
            w.merge_from_branch(side.branch, force=True)
        for f in self.files:
            c = self.cls[f]
            if c == "edit":
                wr(wp, f, text(f, "L", "0"))
            elif c == "added":
                wr(wp, f, text(f, "L", "0"))
                w.add([f])
            elif c == "unknown":
                wr(wp, f, text(f, "L", "0"))
            elif c == "missing":
                os.unlink(os.path.join(wp, f))
            elif c == "rmkept":
                w.remove([f], keep_files=True)
                wr(wp, f, text(f, "L", "0"))
            elif c == "renedit":                       # renamed AND edited, both uncommitted
                w.rename_one(f, f + "r")
                wr(wp, f + "r", text(f, "L", "0"))
        os.rename(cur, self.tmpl)

    def fresh(self):
        shutil.rmtree(self.cur, ignore_errors=True)
        shutil.copytree(self.tmpl, self.cur, symlinks=True)
        return os.path.join(self.cur, "w")

    def incoming(self, inc, collide):
        """commit the incoming revision r2 on trunk"""
        from breezy.workingtree import WorkingTree
        trunk = WorkingTree.open(os.path.join(self.cur, "trunk"))
        tp = trunk.basedir
        for f in self.files:
            if self.cls[f] in INBASIS:
                if inc in ("same", "rensame"):
                    wr(tp, f, text(f, "I", "0"))
                elif inc in ("other", "renother"):
                    wr(tp, f, text(f, "0", "I"))
                elif inc == "delete":
                    trunk.remove([f], keep_files=False, force=True)
                if inc in ("rename", "rensame", "renother"):
                    trunk.rename_one(f, f + "2")
            elif collide:
                wr(tp, f, text(f, "I", "0"))
                trunk.add([f])
        trunk.commit("r2", allow_pointless=True)
        return trunk.basedir

    def where(self, x):
        """the path at which the tree under test has file x now (commands are given current paths)"""
        return x + "r" if self.cls.get(x) == "renedit" else x

    def run(self, c, via):
        from breezy.workingtree import WorkingTree
        wp = self.fresh()
        op = c["op"]
        c = dict(c, sel=self.where(c["sel"]), target=self.where(c["target"]))
        tp = self.incoming(c["inc"], c["collide"]) if op in MERGEOPS else None
        before = observe(wp, self.fl, self.tags)
        out = "ok"
        try:
            if via == "cmd":
                _run_cmd(wp, tp, c)
            else:
                _run_api(WorkingTree.open(wp), tp, c)
        except Exception as e:
            out = "%s: %s" % (type(e).__name__, str(e)[:100])
        after = observe(wp, self.fl, self.tags)
        return before, after, out


def _run_api(w, tp, c):
    from breezy import switch as _switch
    from breezy.branch import Branch
    from breezy.uncommit import uncommit
    op = c["op"]
    if op == "revert":
        w.revert(None if c["sel"] == "all" else [c["sel"]], backups=c["backups"])
    elif op == "remove":
        w.remove([c["target"]], keep_files=c["mode"] == "keep", force=c["mode"] == "force")
    elif op == "merge":
        w.merge_from_branch(Branch.open(tp), force=True)
    elif op == "pull":
        w.pull(Branch.open(tp))
    elif op == "update":
        w.update()
    elif op == "switch":
        _switch.switch(w.controldir, Branch.open(tp))
    elif op == "uncommit":
        uncommit(w.branch, tree=w)


def _run_cmd(wp, tp, c):
    """the same command through the in-process command objects of breezy.builtins (cmd_revert, cmd_remove, cmd_merge,
    cmd_pull, cmd_update, cmd_switch, cmd_uncommit: option parsing + run())"""
    from breezy import builtins
    op = c["op"]
    if op == "revert":
        argv = ["revert"] + ([] if c["backups"] else ["--no-backup"]) + ([] if c["sel"] == "all" else [c["sel"]])
    elif op == "remove":
        argv = ["remove", c["target"]] + {"keep": ["--keep"], "force": ["--no-backup"], "default": []}[c["mode"]]
    elif op == "merge":
        argv = ["merge", "--force", tp]
    elif op == "pull":
        argv = ["pull", tp]
    elif op == "update":
        argv = ["update"]
    elif op == "switch":
        argv = ["switch", tp]
    else:
        argv = ["uncommit", "--force"]
    cwd = os.getcwd()
    os.chdir(wp)
    try:
        getattr(builtins, "cmd_" + argv[0])().run_argv_aliases(argv[1:])
    finally:
        os.chdir(cwd)


def _silence():
    """command objects reset breezy's logging level while parsing options: drop the handlers instead"""
    import logging
    lg = logging.getLogger("brz")
    lg.handlers[:] = [logging.NullHandler()]
    lg.propagate = False
    from breezy import ui

    class Quiet(ui.SilentUIFactory):             # cmd.outf ("Now on revision 3.") goes nowhere, but has an encoding
        def _make_output_stream_explicit(self, encoding, encoding_type):
            return ui.NullOutputStream(encoding or "utf-8")

    ui.ui_factory = Quiet()


def _replay(sub, groups):
    _silence()
    top = os.path.join(sub.workdir, "c12")
    os.makedirs(top)
    rows = sub.cov.setdefault("_collect", [])
    for (fl, shape, cls), cases in groups:
        fx = Fix(top, fl, shape, dict(cls))
        fx.build_template()
        for k, via in cases:
            c = k["c"]
            before, after, out = fx.run(c, via)
            rows.append({"c": c, "via": via, "out": out,
                         "impl": {"before": [{"p": p, "t": t} for p, t in sorted(before.items())],
                                  "after": [{"p": p, "t": t} for p, t in sorted(after.items())]},
                         "spec": sorted((e["p"], e["t"]) for e in k["spec"])})
            sub.count(1)
            if before != after:
                sub.nontrivial(_key(c))
    shutil.rmtree(top, ignore_errors=True)


def _key(c):
    return (c["fl"], tuple(sorted(c["cls"].items())), c["op"], c["sel"], c["backups"], c["target"], c["mode"], c["inc"], c["collide"])


def opdesc(c, cl):
    op = c["op"]
    if op == "revert":
        return "revert[%s]" % ("backups" if c["backups"] else "no-backup")
    if op == "remove":
        return "remove[%s,%s]" % (c["mode"], "dir" if c["target"] == "d" else "file")
    if op in MERGEOPS:
        return "merge-like[%s]" % ("collide" if cl in ("added", "unknown") and c["collide"] else
                                   "incoming-" + {"same": "modifies", "other": "modifies", "rensame": "renames+modifies",
                                                  "renother": "renames+modifies"}.get(c["inc"], c["inc"] + "s"))
    return op


def _judge(ctx, rows, chunk=10000):
    import json
    bad = []
    for off in range(0, len(rows), chunk):
        part = [{"c": r["c"], "impl": r["impl"]} for r in rows[off:off + chunk]]
        fin = os.path.join(ctx.workdir, "rows_%d.json" % off)
        with open(fin, "w") as f:
            json.dump(part, f)
        data, _ = tlc.json_cases(ctx, "NoSilentDiscardTrace", cfg_text=table.cfg(), env={"VF_IN": fin},
                                 label="NoSilentDiscardTrace", workers=4)
        os.unlink(fin)
        if data["n"] != len(part):
            ctx.machinery("trace module consumed %s of %d rows" % (data["n"], len(part)))
        bad.extend((rows[off + b["row"] - 1], b) for b in data["bad"])
        ctx.count(0, traces=len(part))
    return bad


def run(ctx):
    env.init()
    _silence()      # "Text conflict in ...", "Conflict adding file ...", "deleted a"
    table_common.narrow_jvm()
    plans = [('{"a", "d/c"}', '{"bzr", "git"}')] if ctx.quick else [('{"a", "b", "d/c"}', '{"bzr"}'), ('{"a", "d/c"}', '{"git"}')]
    cases = []
    for files, fls in plans:
        wit = tuple(w for w in WITNESSES if "bzr" in fls or w != "WitnessHelperAtRisk")
        got, _ = table_common.generate(ctx, "NoSilentDiscardGen", {"Files": files, "Flavours": fls}, witnesses=wit,
                                       workers=8, timeout=2400, label="NoSilentDiscardGen %s %s" % (files, fls))
        cases += got
    total = len(cases)
    groups = {}
    for k in cases:
        c = k["c"]
        groups.setdefault((c["fl"], SHAPE.get(c["op"], "standalone"), tuple(sorted(c["cls"].items()))), []).append(k)
    keys = sorted(groups)
    for g in keys:
        groups[g].sort(key=lambda k: _key(k["c"]))
    if ctx.quick:
        # seeded sample of the state groups, stratified: for every (flavour, tree shape) each file class occurs in at
        # least one replayed group (so every class meets every command of that shape), then random groups up to ~600
        ctx.rng.shuffle(keys)
        picked, n = [], 0
        for fl, shape in sorted({g[:2] for g in keys}):
            for cl in CLASSES:
                have = [g for g in picked if g[:2] == (fl, shape) and cl in dict(g[2]).values()]
                cand = [g for g in keys if g[:2] == (fl, shape) and cl in dict(g[2]).values()]
                if not have and cand:
                    # prefer a group that brings other classes this stratum still lacks
                    lacking = {x for x in CLASSES if not any(x in dict(p[2]).values() for p in picked if p[:2] == (fl, shape))}
                    cand.sort(key=lambda g: -len(lacking & set(dict(g[2]).values())))
                    picked.append(cand[0])
                    n += len(groups[cand[0]])
        for g in keys:
            if n >= 600:
                break
            if g not in picked:
                picked.append(g)
                n += len(groups[g])
        keys = picked
    items = []
    ncmd = 0
    for g in keys:
        lst = []
        for k in groups[g]:
            lst.append((k, "api"))
            if ctx.rng.random() < (0.15 if ctx.quick else 0.10):
                lst.append((k, "cmd"))
                ncmd += 1
        items.append((g, lst))
    nrun = sum(len(l) for _, l in items)
    core.fork_map(ctx, _replay, items, chunks_per_proc=8)
    rows = ctx.collected
    ctx.collected = []
    if len(rows) != nrun:
        ctx.machinery("replayed %d of %d runs" % (len(rows), nrun))
    interesting = [r for r in rows if r["c"]["op"] == "revert" and any(e["p"].endswith(".~1~") for e in r["impl"]["after"])]
    if interesting:
        ctx.sample({k: v for k, v in interesting[0].items() if k != "spec"})
    m = next((r for r in rows if r["c"]["op"] in MERGEOPS and any(e["t"].endswith("L/I") for e in r["impl"]["after"])), None)
    if m:
        ctx.sample({k: v for k, v in m.items() if k != "spec"})
    nprebad = 0
    for row, v in _judge(ctx, rows):
        c = row["c"]
        what = "%s %s on a %s tree with %s (via %s, outcome %s)" % (
            c["op"], {k: c[k] for k in ("sel", "backups", "target", "mode", "inc", "collide") if c[k] not in ("-",)},
            c["fl"], c["cls"], row["via"], row["out"])
        rep = {k: w for k, w in row.items() if k != "spec"}
        if v.get("prebad"):
            # the class assignment is produced with real commands (an earlier merge, rm --keep ...): when they do not
            # leave the specified state the case cannot be judged; reported, and fatal when it is not an exception
            nprebad += 1
            ctx.drift("fixture of %s is not the specified before-state: %s" % (what, row["impl"]["before"]), rep)
            continue
        failed = sorted(v.get("failed", []))
        if failed:
            lost = sorted(v.get("lost", []))
            after = {e["p"]: e["t"] for e in row["impl"]["after"]}
            if lost:
                for f in lost:
                    ctx.violation("%s:%s:%s:%s" % (failed[0], c["fl"], opdesc(c, c["cls"][f]), c["cls"][f]),
                                  "%s: the uncommitted content %s:L/0 of the %s file is nowhere in the tree directory "
                                  "afterwards: %s" % (what, f, c["cls"][f], after), rep)
            else:
                ctx.violation("%s:%s:%s" % (failed[0], c["fl"], c["op"]), "%s: working files changed: before %s after %s" % (
                    what, {e["p"]: e["t"] for e in row["impl"]["before"]}, after), rep)
        elif v.get("drift"):
            ctx.drift("%s: directory afterwards %s, the model puts things at %s" % (
                what, {e["p"]: e["t"] for e in row["impl"]["after"]}, dict(row["spec"])), rep)
    if nprebad * 4 > len(rows):
        ctx.machinery("%d of %d fixtures are not the specified before-state" % (nprebad, len(rows)))
    ctx.rule("cases = tree flavour x class assignment {unch, edit, mergew, added, unknown, confl, missing, rmkept, renedit}^Files x "
             "{revert(all | file | d, backups?), remove(file | d, keep | force | default), uncommit, and for trees without "
             "pending merge merge / pull / update / switch (incoming same-region, other-region, delete, rename, rename+same, rename+other; "
             "colliding add)} enumerated by TLC: %d cases; %s; %d additional runs of sampled cases through breezy.builtins command "
             "objects. Non-trivial = the command changed the tree directory" % (
                 total, "a seeded sample of %d state groups = %d cases replayed" % (len(keys), nrun - ncmd) if ctx.quick
                 else "all replayed", ncmd))
    ctx.cov["exhaustive"] = not ctx.quick
    ctx.cov["cases_enumerated"] = total
    ctx.assume("two-region text model; one representative path per class; merge-like commands start without pending merge")


def replay(ctx, rep):
    """./check C12 --replay <file>: run the recorded case again on the current tree and show what happened."""
    env.init()
    _silence()
    row = rep["replay"]
    c = row["c"]
    fx = Fix(ctx.tmp("replay"), c["fl"], SHAPE.get(c["op"], "standalone"), c["cls"])
    fx.build_template()
    before, after, out = fx.run(c, row.get("via", "api"))
    print("case    %s" % c)
    print("outcome %s" % out)
    print("before  %s" % dict(sorted(before.items())))
    print("after   %s" % dict(sorted(after.items())))
    print("recorded signature: %s" % rep["signature"])
