"""Shared by C03 (fetch / push / pull / sprout) and C08 (stacked repositories): materialise a history of specs/Fetch.tla
(graph P, revision trees T) as a real branch, and project real repositories to the abstract content of that spec.

Abstract -> real:  revision k = b"r<k>" (a parent number outside 1..n is a ghost: the absent revision b"r9"); file f in {"a", "b"} has file id b"id-<f>", is called <f>
(entry.alt false) or <f>x (alt true) and holds b"<f>@<content>\\n"; file "l" is a symbolic link to "t<content>"; the root
directory has id b"root-id".
"""
import hashlib
import json

GHOST = 9      # GhostId of Fetch.tla: a ghost only in a history of fewer than 9 revisions (a parent outside 1..n is a ghost)
ROOT_ID = b"root-id"


def rid(k):
    return b"r%d" % k


def num(revid):
    """Revision id -> number of the abstract history (0 = not a revision of the universe)."""
    if revid[:1] == b"r" and revid[1:].isdigit():
        return int(revid[1:])
    return 0


def fname(fid):
    if fid == ROOT_ID:
        return "root"
    return fid.decode()[3:] if fid.startswith(b"id-") else fid.decode()


def path_of(f, ent):
    return f + ("x" if ent["alt"] else "")


def content_of(f, ent):
    return ("%s@%d\n" % (f, ent["content"])).encode()


def tree_of(t):
    """JSON tree as exported by TLC ([] for the empty function)."""
    return dict(t) if isinstance(t, dict) else {}


SYMLINKS = ("l",)      # file ids that are symbolic links; entry.content k = target "t<k>"


def is_link(f):
    return f in SYMLINKS


def target_of(f, ent):
    return "t%d" % ent["content"]


def apply_tree(tree, base, want, add_root):
    """Edit the (write-locked) MemoryTree, which holds the abstract tree `base`, so that it holds `want`:
    renames, then removals, then additions, then new contents / link targets."""
    if add_root:
        tree.add([""], ["directory"], ids=[ROOT_ID])
    # MemoryTree cannot move a symlink: a renamed link is unversioned and added again under the same file id, which the
    # commit records as the rename it is
    relink = {f for f in want if is_link(f) and f in base and base[f]["alt"] != want[f]["alt"]}
    for f in sorted(want):
        if f in base and base[f]["alt"] != want[f]["alt"] and f not in relink:
            tree.rename_one(path_of(f, base[f]), path_of(f, want[f]))
    gone = [path_of(f, base[f]) for f in sorted(base) if f not in want or f in relink]
    if gone:
        tree.unversion(gone)
    for f in sorted(want):
        path = path_of(f, want[f])
        if f not in base or f in relink:
            tree.add([path], ["symlink" if is_link(f) else "file"], ids=[b"id-" + f.encode()])
        elif base[f]["content"] == want[f]["content"]:
            continue
        if is_link(f):
            if f in base:       # retarget / rename: the old link goes away
                tree._file_transport.delete(path_of(f, base[f]))
            tree._file_transport.symlink(target_of(f, want[f]), path)
        else:
            tree.put_file_bytes_non_atomic(path, content_of(f, want[f]))


def build_history(P, T, fmt, transport=None, branch=None, signed=()):
    """Materialise (P, T) by real commits from MemoryTrees; returns the branch (tip = the last revision).
    (BranchBuilder is not used: it cannot write symlinks, nor move the branch to a revision without a revno.)"""
    from breezy import controldir
    if branch is None:
        f = controldir.format_registry.make_controldir(fmt)
        branch = controldir.ControlDir.create_branch_convenience(transport.base, format=f, force_new_tree=False)
    with branch.lock_write():
        for k, ps in enumerate(P, 1):
            want = tree_of(T[k - 1])
            left = ps[0] if ps and ps[0] <= len(P) else None
            base = tree_of(T[left - 1]) if left else {}
            # the tree starts from the left-hand parent (from nothing for a root or a ghost left-hand parent; the
            # commit only insists that the branch tip is the tree's first parent or null)
            branch.set_last_revision_info(mainline_len(P, left) if left else 0, rid(left) if left else b"null:")
            tree = branch.create_memorytree()
            with tree.lock_write():
                if ps:
                    tree.set_parent_ids([rid(p) for p in ps], allow_leftmost_as_ghost=ps[0] > len(P))
                apply_tree(tree, base, want, left is None)
                tree.commit("revision %d" % k, rev_id=rid(k), timestamp=1000000000 + k, timezone=0, committer="C <c@e.com>")
    b = branch
    if signed:
        repo = b.repository
        with repo.lock_write():
            repo.start_write_group()
            try:
                for k in signed:
                    repo.add_signature_text(rid(k), b"-----BEGIN PSEUDO SIGNATURE-----\nr%d\n" % k)
            except BaseException:
                repo.abort_write_group()
                raise
            repo.commit_write_group()
    return b


def mainline_len(P, k):
    """Number of revisions on the left-hand history of k (it ends at a root or at a ghost)."""
    c = 0
    while k and k <= len(P):
        c += 1
        k = P[k - 1][0] if P[k - 1] else 0
    return c


def mainline_has_ghost(P, k):
    """Does the left-hand history of k end in a ghost (so that the revision has no revno)?"""
    while P[k - 1]:
        if P[k - 1][0] > len(P):
            return True
        k = P[k - 1][0]
    return False


def read_graph(repo, n):
    """Parent lists of r1..rn as the repository reports them (numbers; null: dropped)."""
    with repo.lock_read():
        pm = repo.get_parent_map([rid(k) for k in range(1, n + 1)])
    return [[num(p) for p in pm.get(rid(k), ()) if p != b"null:"] for k in range(1, n + 1)]


def sha(b):
    return hashlib.sha1(b).hexdigest()[:16]


def check_problems(repo):
    """What Repository.check() found wrong: a list of 'kind: item' strings (empty = consistent)."""
    try:
        res = repo.check()
    except Exception as e:            # BzrCheckError and friends: the check could not even run to the end
        return ["raised: %s %s" % (type(e).__name__, str(e)[:120])]
    probs = []
    for attr in ("missing_inventory_sha_cnt", "missing_revision_cnt"):
        if getattr(res, attr, 0):
            probs.append("%s: %s" % (attr, getattr(res, attr)))
    for attr in ("missing_parent_links", "inconsistent_parents", "revs_with_bad_parents_in_index", "unreferenced_versions"):
        for x in sorted(str(x) for x in (getattr(res, attr, None) or ())):
            probs.append("%s: %s" % (attr, x))
    return probs


def check_text(repo):
    """'ok' or what Repository.check() found wrong."""
    return "; ".join(check_problems(repo)[:4]) or "ok"


def text_keys(vf):
    """Text keys of a VersionedFiles -> (non-root [[f, v]], root [[\"root\", v]], per-file graph [[f, v, [parents]]])."""
    keys = sorted(vf.keys())
    pm = vf.get_parent_map(keys)
    plain, root, fp = [], [], []
    for fid, ver in keys:
        k = [fname(fid), num(ver)]
        (root if fid == ROOT_ID else plain).append(k)
        if fid != ROOT_ID:
            fp.append(k + [[num(p[1]) for p in (pm.get((fid, ver)) or ())]])
    return plain, root, fp


def tree_digest(tree):
    """Digest of everything a revision tree holds: paths, ids, kinds, executable bits, the real file texts, and the
    last-changed revision of every entry."""
    out = []
    with tree.lock_read():
        for path, ie in tree.iter_entries_by_dir():
            text = sha(tree.get_file_text(path)) if ie.kind == "file" else \
                (tree.get_symlink_target(path) if ie.kind == "symlink" else "")
            out.append([path, ie.file_id.decode(), ie.kind, text, bool(getattr(ie, "executable", False)),
                        ie.revision.decode() if path != "" else ""])
    return sha(json.dumps(out).encode())


def testament_digest(repo, revid):
    from breezy.bzr.testament import StrictTestament3, Testament
    return sha(Testament.from_revision(repo, revid).as_text()) + sha(StrictTestament3.from_revision(repo, revid).as_text())


def per_revision(repo, n, revs):
    """(testament digests, tree digests) indexed by revision 1..n ("" = the repository does not hold it)."""
    test, tree = [], []
    for k in range(1, n + 1):
        if k not in revs:
            test.append("")
            tree.append("")
            continue
        try:
            test.append(testament_digest(repo, rid(k)))
        except Exception as e:
            test.append("ERR:%s" % type(e).__name__)
        try:
            tree.append(tree_digest(repo.revision_tree(rid(k))))
        except Exception as e:
            tree.append("ERR:%s" % type(e).__name__)
    return test, tree


def names_digest(repo_transport):
    """Digest of pack-names (pack repositories) or of every file of the repository directory (knit repositories)."""
    try:
        return sha(repo_transport.get_bytes("pack-names"))
    except Exception:
        return dir_digest(repo_transport)


def dir_digest(t):
    h = hashlib.sha1()
    for p in sorted(t.iter_files_recursive()):
        if "/lock" in "/" + p or p.startswith("lock"):
            continue
        h.update(p.encode() + b"\0" + hashlib.sha1(t.get_bytes(p)).digest())
    return h.hexdigest()[:16]


def heads_of(P, S):
    """Members of S that are no parent of another member of S."""
    par = {p for k in S for p in P[k - 1]}
    return sorted(k for k in S if k not in par)


def ancestry(P, rev):
    out, todo = set(), [rev]
    while todo:
        k = todo.pop()
        if k in out or k < 1 or k > len(P):
            continue
        out.add(k)
        todo.extend(P[k - 1])
    return out


def count_universe(maxrev, maxpar, nghosts, patterns=4):
    """|AllGraphs x Patterns| of FetchGen.tla: ordered parent lists of distinct elements, at most maxpar each."""
    total = 0
    for n in range(1, maxrev + 1):
        prod = 1
        for i in range(1, n + 1):
            m = (i - 1) + nghosts
            opts, term = 1, 1
            for j in range(maxpar):
                term *= (m - j)
                if term <= 0:
                    break
                opts += term
            prod *= opts
        total += prod
    return total * patterns
