"""C40 — bundles and merge directives reproduce the revisions they carry."""
import bz2
import copy
import io
import json
import os
import re
import select
import shutil
import signal
import time

from vf import env, tlc, table, core, world
from harness import attest_common as ac

META = dict(
    property_id="C40", level="model_checking", design_ref="DESIGN.md §4 C40",
    technique="TLA+ specification of a bundle as a channel between repositories (InstallBundle(base, target): the receiver "
              "gains exactly Ancestry(target) \\ Ancestry(base), attested records unchanged) and of merge-directive field "
              "records, model-checked by TLC over every revision graph (ordered parents, merges, several roots) with every "
              "(base, target) and every (submit, target, common-ancestor base) and field combination; TLC-exported cases "
              "replayed through write_bundle / read_bundle / install_revisions (formats 4 and 0.9), "
              "MergeDirective2.from_objects / to_lines / from_lines / _maybe_verify and Merger.from_mergeable on real 2a and "
              "pack-0.92 repositories whose histories carry renames, executable-bit changes, symlinks, binary files, "
              "deletions, merges and non-trivial metadata; one-byte tampering per payload section; all observations judged "
              "by TLC with the C40 laws",
    level_text="TLC exhausts all graphs up to 4 (thorough: 5) revisions with up to 2 ordered parents and proves the set laws "
               "of the channel (precondition, exactly the missing ancestry arrives, closure, records unchanged, the gain of a "
               "directive is independent of the common ancestor chosen as bundle base) and that the specified observation "
               "satisfies the observation laws. A seeded sample of those graphs (all of them up to 4 revisions in thorough) "
               "is materialised with one of six edit schedules (two in thorough) and every (base, target) pair is written, installed and compared "
               "testament by testament in both bundle formats; directive cases are round-tripped in all twelve field "
               "combinations, verified, tampered and merged both ways. Every recorded execution is judged by the same TLA+ "
               "laws. Small-scope exhaustion of the model plus executed conformance; the byte formats themselves are "
               "executed, not modelled (DESIGN 6).",
    level_note="Attested content is compared through the three testament classes (long and short text). Tampering = "
               "substituting one alphanumeric byte by another of the same class at harness-chosen positions per section, at "
               "the transmitted level (raw file / base64 text) and, for format 4, inside the decompressed container records "
               "(recompressed). Whitespace / line-ending changes of a patch are by design not detected and not tried. "
               "Receiving repositories have the source's format. Trusted: bz2, bzrformats pack/bencode/multiparent/rio as "
               "executed, TLC, the JSON bridge. Signatures off.",
)

WITNESSES = ("WitnessMergeCarried", "WitnessCrissCross", "WitnessDiverged")
SFMTS = ("2a", "pack-0.92")
NPAT = 6
EXOTIC = (None, "mlprop", "kind")
# the directive's own time zone (whole seconds of time: the format's resolution); negative sub-hour offsets round-trip since
# the parse_patch_date repair (a regression there gets its own signature below)
MD_ZONES = (3600, 0, -18000, 19800, -1800, -34200)
# how much of the exported case table is replayed (histories; tamper positions, directive cases, merged combinations per history)
SIZES = {"quick": dict(small=13, four=30, exotic=6, ntamper=2, nmd=2, nmerge=1),
         "thorough": dict(pats=2, five=80, exotic=30, ntamper=3, nmd=3, nmerge=2)}


def gen_cfg(maxrev, inv=("LawsHoldOnSpec",)):
    return table.cfg({"MaxRev": maxrev, "MaxPar": 2}, inv)


# ----------------------------------------------------------------------------- histories
def _text(k, extra=()):
    return b"".join(b"line %d of a\n" % i for i in range(1, 6)) + b"".join(extra) + b"by r%d\n" % k


def history(P, pat, exotic=None):
    """Deterministic history over graph P: (dag, trees, meta, features).  Items: d (directory), a (text file, modified;
    renamed together with a chmod), b (binary file with NUL and 0xff bytes, modified; moved + modified + chmod), l (symlink,
    moved + retargeted), x (file renamed while its executable bit is set / cleared, deleted / re-added), n<k> (files added by
    revision k).  Messages and property values include lines that start / end with blanks and tabs.  Revision k without parents starts a new tree; any
    other revision edits its left-hand parent's tree - a merge first takes what the other parents added and their b and l -
    according to edit (k + pat) mod 6.  exotic = 'mlprop' gives even revisions a multi-line revision property, 'kind' makes
    odd revisions change the kind of item l (symlink <-> file)."""
    dag, trees, meta, feats = [], {}, {}, {}
    for k, ps in enumerate(P, 1):
        rev = "r%d" % k
        f = set()
        if not ps:
            t = {"d": ("d", "directory", None, False), "a": ("a", "file", _text(k), pat % 2 == 0),
                 "b": ("d/b", "file", b"B\x00%d\n\xff\xfe\n" % k, False), "l": ("l", "symlink", "a", False),
                 "x": ("x", "file", b"#!/bin/sh\necho x\n", pat % 3 != 0)}       # the bits of a and x are set and cleared over the schedules
        else:
            t = dict(trees["r%d" % ps[0]])
            for o in ps[1:]:
                other = trees["r%d" % o]
                for item, ent in other.items():
                    if item.startswith("n") and item not in t:
                        t[item] = ent
                for item in ("b", "l"):
                    if item in other:
                        t[item] = other[item]
            e = (k + pat) % NPAT
            if e in (0, 4) and "a" in t:
                p, kind, c, ex = t["a"]
                lines = c.splitlines(True)
                lines[0] = b"first line by r%d\n" % k
                t["a"] = (p, kind, b"".join(lines) + b"added by r%d\n" % k, ex)
            if e == 1:                                   # rename + chmod of a text file, content untouched
                p, kind, c, ex = t["a"]
                t["a"] = ("a2" if p == "a" else "a", kind, c, not ex)
                p, kind, c, ex = t["b"]
                t["b"] = (p, kind, b"B\x00%d\n\xff\xfe\nmore\x00\n" % k, ex)
            if e == 2:                                   # symlink moved + retargeted; x renamed + chmod (both directions over pats)
                if "l" in t and t["l"][1] == "symlink":
                    t["l"] = ("d/l" if t["l"][0] == "l" else "l", "symlink", "d/b" if t["l"][2] == "a" else "a", False)
                if "x" in t:
                    p, kind, c, ex = t["x"]
                    t["x"] = ("x2" if p == "x" else "x", kind, c, not ex)
            if e == 3:
                t["n%d" % k] = ("d/n%d" % k, "file", b"new in r%d\nno newline at end" % k, k % 2 == 0)
                p, kind, c, ex = t["b"]                  # binary file moved + modified + chmod
                t["b"] = ("b" if p == "d/b" else "d/b", kind, c + b"moved by r%d\x00\n" % k, not ex)
            if e == 4:
                if "x" in t:
                    del t["x"]
                else:
                    t["x"] = ("x", "file", b"#!/bin/sh\necho again r%d\n" % k, True)
            if exotic == "kind" and k % 2 == 1 and "l" in t:
                f.add("kind")
                if t["l"][1] == "symlink":
                    t["l"] = (t["l"][0], "file", b"was a link until r%d\n" % k, False)
                else:
                    t["l"] = (t["l"][0], "symlink", "a", False)
            left = trees["r%d" % ps[0]]
            if "l" in t and "l" in left and t["l"][1] != left["l"][1]:
                f.add("kind")                       # also a merge that takes the other side's kind
        m = {"message": ("msg r%d\n\nsecond paragraph é\n" % k, "msg r%d" % k, "  indented\n# hash\n=== eq r%d" % k, "",
                         "trailing blank r%d \nand a trailing tab\t" % k, "\ttab first r%d \n" % k)[(k + pat) % 6],
             "committer": "C <c@e.com>" if k % 2 else "Jé Ü <j@e.com>",
             "timezone": (0, 3600, -1800, 19800)[k % 4],
             "timestamp": 1000000000 + 10 * k + (0.5 if k % 3 == 0 else 0),
             "revprops": ({"p": "v é", "empty": ""}, {"q": "ends in a blank ", "t": "tab\t", "lead": " v"}, None)[(k + pat) % 3]}
        if exotic == "mlprop" and k % 2 == 0:
            f.add("mlprop")
            m["revprops"] = dict(m["revprops"] or {}, bugs="http://b/1 fixed\nhttp://b/2 fixed")
        dag.append((rev, ["r%d" % p for p in ps]))
        trees[rev], meta[rev], feats[k] = t, m, sorted(f)
    return dag, trees, meta, feats


def num(revid):
    return int(revid[1:]) if revid[:1] == b"r" and revid[1:].isdigit() else 0


def rid(k):
    return b"r%d" % k if k else b"null:"


def read_graph(repo, n):
    with repo.lock_read():
        pm = repo.get_parent_map([rid(k) for k in range(1, n + 1)])
    return [[num(p) for p in pm.get(rid(k), ()) if p != b"null:"] for k in range(1, n + 1)]


def ancestry(P, k):
    out, todo = set(), [k] if k else []
    while todo:
        r = todo.pop()
        if r not in out:
            out.add(r)
            todo.extend(P[r - 1])
    return out


# ----------------------------------------------------------------------------- tampering
def _swap(b):
    """Another byte of the same class (digit / lower / upper)."""
    c = bytes([b])
    if c.isdigit():
        return ord(b"7") if c != b"7" else ord(b"3")
    if c.islower():
        return ord(b"q") if c != b"q" else ord(b"k")
    return ord(b"Q") if c != b"Q" else ord(b"K")


def _alnum_positions(data, lo, hi):
    return [i for i in range(lo, hi) if bytes([data[i]]).isalnum() and data[i] < 128]


def _sub(data, pos):
    return data[:pos] + bytes([_swap(data[pos])]) + data[pos + 1:]


def sections_09(data):
    """{section: [byte positions that may be substituted]} of a 0.9 bundle text."""
    secs = {}
    pos, cur, b64 = 0, None, False
    for n, line in enumerate(data.splitlines(True)):
        lo, hi = pos, pos + len(line)
        pos = hi
        if n == 0:
            name, lo = "header", lo + len(b"# Bazaar revision bundle v")
        elif line.startswith(b"# ") and not line.startswith(b"#  "):
            key = line[2:].split(b":")[0]
            name = cur = key.decode().replace(" ", "-")
            lo += 2 + len(key) + 1
        elif line.startswith(b"#  "):
            name = cur
        elif line.startswith(b"=== ") or line.startswith(b"... "):
            name, b64 = "action", b"encoding:base64" in line or (line.startswith(b"... ") and b64)
            lo += 4
        elif line.strip() == b"" or line == b"#\n":
            continue
        else:
            name = "patch-base64" if b64 else "patch-text"
        secs.setdefault(name, []).extend(_alnum_positions(data, lo, hi))
    return {k: v for k, v in secs.items() if v}


def parse_container(raw):
    """Records of a pack container: [(names, body offset, body length)]."""
    pos = raw.index(b"\n") + 1
    recs = []
    while raw[pos:pos + 1] == b"B":
        e = raw.index(b"\n", pos)
        length = int(raw[pos + 1:e])
        pos = e + 1
        names = []
        while True:
            e = raw.index(b"\n", pos)
            line = raw[pos:e]
            pos = e + 1
            if not line:
                break
            names.append(line)
        recs.append((names, pos, length))
        pos += length
    if raw[pos:pos + 1] != b"E":
        raise ValueError("container does not end where expected")
    return recs


def sections_v4(data):
    """{section: [(level, position)]}: 'raw' positions in the transmitted file, 'cont' positions in the decompressed
    container (the tampered container is recompressed)."""
    head = len(b"# Bazaar revision bundle v4\n#\n")
    secs = {"header": [("raw", i) for i in _alnum_positions(data, 2, head)],
            "bz2-head": [("raw", head + 3)],                           # the block-size digit of 'BZh9'
            "bz2-body": [("raw", i) for i in range(head + 10, len(data) - 16)],
            "bz2-eos": [("raw", i) for i in range(len(data) - 15, len(data) - 9)],     # the end-of-stream marker (bit-aligned)
            "bz2-tail": [("raw", i) for i in range(len(data) - 4, len(data))]}         # the stream CRC
    raw = bz2.decompress(data[head:])
    kind = None
    for names, off, length in parse_container(raw):
        if names:
            kind = names[0].split(b"/")[0].decode()
            m = re.search(rb"4:sha140:", raw[off:off + length])
            if m:
                secs.setdefault("meta-sha1:" + kind, []).extend(("cont", i) for i in range(off + m.end(), off + m.end() + 40))
            noff = off - 2 - len(names[0])
            secs.setdefault("name:" + kind, []).extend(("cont", i) for i in _alnum_positions(raw, noff + len(kind) + 1, noff + len(names[0])))
        else:
            secs.setdefault("body:" + kind, []).extend(("cont", i) for i in _alnum_positions(raw, off, off + length))
    return {k: v for k, v in secs.items() if v}, raw, head


def tamper_v4(data, raw, head, level, pos):
    if level == "raw":
        if bytes([data[pos]]).isalnum() and data[pos] < 128:
            return _sub(data, pos)
        return data[:pos] + bytes([data[pos] ^ 0x20]) + data[pos + 1:]
    return data[:head] + bz2.compress(_sub(raw, pos))


def guarded(fn, prepare=None, cpu_limit=3.0):
    """Run fn(prepare()) under a watchdog; ["hang", ...] only when it overruns twice in a row (a real busy loop repeats, a
    hiccup of a loaded machine does not)."""
    res = None
    for attempt_no in range(2):
        prep = prepare() if prepare is not None else None
        res = _guarded_once((lambda: fn(prep)) if prepare is not None else fn, cpu_limit)
        if res[0] != "hang":
            return res
    return res


def _guarded_once(fn, cpu_limit, wall_limit=900.0):
    """Run fn() in a forked child and return its (JSON-able) result, or ["hang", ...] when the child burns more than
    cpu_limit seconds of USER time without finishing (a damaged container can send bzrformats' pack reader into a busy loop
    that no Python-level watchdog can interrupt; an install needs about 0.05 s).  User time, not wall or system time, so
    that a loaded machine (slow fork, page faults) does not fake a hang; everything that can be prepared beforehand is
    prepared in the parent."""
    r, w = os.pipe()
    pid = os.fork()
    if pid == 0:
        code = 0
        try:
            os.close(r)
            os.write(w, json.dumps(fn()).encode())
        except BaseException as e:      # noqa: BLE001
            try:
                os.write(w, json.dumps(["crash", "%s: %s" % (type(e).__name__, str(e)[:200])]).encode())
            except BaseException:       # noqa: BLE001
                code = 1
        finally:
            os._exit(code)
    os.close(w)
    buf, t0, tick = b"", time.time(), os.sysconf("SC_CLK_TCK")
    try:
        while True:
            if select.select([r], [], [], 0.05)[0]:
                chunk = os.read(r, 1 << 16)
                if not chunk:
                    break
                buf += chunk
                continue
            try:
                with open("/proc/%d/stat" % pid) as f:
                    st = f.read().rsplit(")", 1)[1].split()
                cpu = int(st[11]) / tick
            except (OSError, IndexError, ValueError):
                cpu = 0.0
            if cpu > cpu_limit or time.time() - t0 > wall_limit:
                os.kill(pid, signal.SIGKILL)
                return ["hang", "no result after %.1f s of user time" % cpu]
    finally:
        os.close(r)
        os.waitpid(pid, 0)
    try:
        return json.loads(buf.decode())
    except ValueError:
        return ["crash", "child wrote %r" % buf[:100]]


def needs_watchdog(data, good_container, stream_input):
    """Does installing these (tampered) format 4 bundle bytes hand the pack reader a container other than the original one?
    Only then can the reader get stuck (it busy-loops on a cut or empty container), and only those installs are run in a
    forked child under the watchdog; a stream that fails to decompress raises, an unchanged container is read as before.
    Mirrors BundleReader.__init__: two header lines, then iter_decode (stream_input) or bz2.decompress of the rest."""
    f = io.BytesIO(data)
    f.readline()
    f.readline()
    try:
        if stream_input:
            dec, out = bz2.BZ2Decompressor(), []
            for line in f:
                try:
                    out.append(dec.decompress(line))
                except EOFError:
                    break
            got = b"".join(out)
        else:
            got = bz2.decompress(f.read())
    except Exception:       # noqa: BLE001  (the install will raise the same way)
        return False
    return got != good_container


# ----------------------------------------------------------------------------- one history on one source format
class Job:
    def __init__(self, hist, pat, exotic, sfmt, workdir):
        self.P = [list(ps) for ps in hist["P"]]
        self.n = len(self.P)
        self.hist, self.pat, self.exotic, self.sfmt = hist, pat, exotic, sfmt
        self.srv, self.url = ac.memory_url()
        self.dag, self.trees, self.meta, self.feats = history(self.P, pat, exotic)
        self.src = ac.build(self.dag, self.trees, sfmt, url=self.url, meta=self.meta)
        self.count = 0
        self.workdir = workdir
        repo = self.src.repository
        with repo.lock_read():
            self.tsrc = [ac.testament_digest(repo, rid(k)) for k in range(1, self.n + 1)]

    def close(self):
        self.srv.stop_server()

    def fresh_repo(self, have):
        """A new repository of the source's format holding the ancestry of revision `have` (0 = nothing)."""
        self.count += 1
        repo = ac.new_repo(self.sfmt, self.url + "t%d" % self.count)
        if have:
            repo.fetch(self.src.repository, revision_id=rid(have))
        return repo

    def state(self, repo):
        """(revisions, testament digests per revision number, parent lists per revision number)."""
        with repo.lock_read():
            revs = sorted(num(r) for r in repo.all_revision_ids())
            known = [k for k in revs if 1 <= k <= self.n]
            pm = repo.get_parent_map([rid(k) for k in known])
            test = [ac.testament_digest(repo, rid(k)) if k in known else "" for k in range(1, self.n + 1)]
            extra = sorted(r.decode("utf-8", "replace") for r in repo.all_revision_ids() if not num(r))
        parents = [[num(p) for p in pm.get(rid(k), ()) if p != b"null:"] for k in range(1, self.n + 1)]
        return revs, test, parents, extra

    def prepare(self, base):
        """A fresh repository holding Ancestry(base), and its revisions."""
        repo = self.fresh_repo(base)
        with repo.lock_read():
            before = sorted(num(r) for r in repo.all_revision_ids())
        return repo, before

    def install(self, data, base, prep=None):
        """Install bundle bytes into a fresh repository holding Ancestry(base): (before, state | None, error | None)."""
        from breezy.bzr.bundle.serializer import read_bundle
        repo, before = prep or self.prepare(base)
        try:
            info = read_bundle(io.BytesIO(data))
            with repo.lock_write():
                info.install_revisions(repo)
        except (KeyboardInterrupt, SystemExit, MemoryError):
            raise
        except BaseException as e:        # pyo3 PanicException (bzrformats on a damaged mpdiff) is a BaseException
            return before, None, "%s: %s" % (type(e).__name__, str(e)[:160].replace("\n", " "))
        try:
            return before, self.state(repo), None
        except Exception as e:            # installed something that cannot even be read back
            return before, ("unreadable", type(e).__name__), None

    def classify(self, good, res):
        before, st, err = res
        if err is not None:
            return "rejected"
        return "same" if st == good else "changed"

    def bundle_case(self, case, fmt, rng, ntamper):
        from breezy.bzr.bundle.serializer import write_bundle
        base, target = case["base"], case["target"]
        o = {"outcome": "ok", "written": [], "before": [], "after": [], "tsrc": self.tsrc, "ttgt": [""] * self.n,
             "tparents": [[] for _ in range(self.n)], "tamper": []}
        info = {"sections": []}
        out = io.BytesIO()
        try:
            written = write_bundle(self.src.repository, rid(target), rid(base), out, format=fmt)
        except Exception as e:
            o["outcome"] = "error: write: %s: %s" % (type(e).__name__, str(e)[:160].replace("\n", " "))
            return o, info
        data = out.getvalue()
        o["written"] = sorted(num(r) for r in written)
        before, st, err = self.install(data, base)
        o["before"] = before
        if err is not None:
            o["outcome"] = "error: install: " + err
            return o, info
        if st[0] == "unreadable":
            o["outcome"] = "error: read back: " + st[1]
            return o, info
        o["after"], o["ttgt"], o["tparents"], extra = st
        if extra:
            o["outcome"] = "error: foreign revisions %s" % extra
        # ---- one-byte tampering, ntamper sections per case (rotating so that all sections are visited)
        if fmt == "4":
            secs, raw, head = sections_v4(data)
        else:
            secs, raw, head = sections_09(data), None, None
        if fmt == "4":                        # within the end of the stream prefer the positions that cut it short
            cut = [w for w in secs["bz2-eos"] + secs["bz2-tail"] if needs_watchdog(tamper_v4(data, raw, head, *w), raw, True)]
            if cut:
                secs["bz2-eos"] = cut
        names = sorted(secs)
        info["sections"] = names
        start = rng.randrange(len(names))
        for j in range(min(ntamper, len(names))):
            name = names[(start + j) % len(names)]
            where = rng.choice(secs[name])
            bad = tamper_v4(data, raw, head, *where) if fmt == "4" else _sub(data, where)
            if bad == data:
                continue

            def attempt(prep=None, bad=bad):
                res = self.install(bad, base, prep)
                return [self.classify(st, res), res[2] or ""]
            # a damaged bz2 stream can send the container reader into a busy loop: those installs run under the watchdog
            # (container-level tampering substitutes a byte in place: the container stays complete)
            watch = fmt == "4" and where[0] == "raw" and needs_watchdog(bad, raw, True)
            outcome, detail = guarded(attempt, lambda: self.prepare(base)) if watch else attempt()
            o["tamper"].append({"section": name, "outcome": outcome, "pos": list(where) if fmt == "4" else where, "detail": detail})
        return o, info

    # ---- merge directives
    def receiver(self, submit, name):
        """A branch (with working tree, on disk) whose tip is revision `submit`, holding exactly its ancestry."""
        p = os.path.join(self.workdir, "%s%d" % (name, self.count))
        self.count += 1
        cd = self.src.controldir.sprout(p, revision_id=rid(submit))
        return cd.open_workingtree(), p

    def merge_digest(self, wt, path, make_merger):
        """Digest of the tree after a merge: versioned entries with ids, disk content, conflicts, pending merges."""
        from breezy import merge as M
        try:
            with wt.lock_write():
                merger = make_merger(wt)
                merger.merge_type = M.Merge3Merger
                merger.do_merge()
                merger.set_pending()
                proj = world.tree_proj(wt, with_ids=True)
                conf = sorted(str(c) for c in wt.conflicts())
                pend = [p.decode() for p in wt.get_parent_ids()]
            disk = world.disk_proj(path)
            return ac.sha(repr((sorted(proj.items()), sorted(disk.items()), conf, pend)).encode()), None
        except Exception as e:
            return "raised:%s" % type(e).__name__, "%s: %s" % (type(e).__name__, str(e)[:160])

    def md_cases(self, case, combos, merge_combos, rng, ntamper):
        """All field combinations for one (submit, target): rows [(c, o, info)]."""
        from breezy import merge_directive as MD, merge as M
        submit, target = case["submit"], case["target"]
        sub_wt, sub_path = self.receiver(submit, "sub")
        public = self.src.base
        try:
            full = MD.MergeDirective2.from_objects(
                repository=self.src.repository, revision_id=rid(target), time=1234567890.0 + target, timezone=MD_ZONES[(submit + target) % len(MD_ZONES)],
                target_branch=sub_wt.branch.base, local_target_branch=sub_wt.branch, include_patch=True, include_bundle=True,
                public_branch=public, message="merge r%d into r%d\nplease é" % (target, submit))
        except Exception as e:
            err = "error: from_objects: %s: %s" % (type(e).__name__, str(e)[:160])
            return [({"P": self.P, "submit": submit, "target": target, "md": m, "merge": False},
                     {"present": {}, "same": [], "verify": err, "patchTamper": [], "bundleTamper": [], "written": [],
                      "before": [], "after": [], "mergeBundle": "", "mergeBranch": ""}, {}) for m in combos[:1]]
        finally:
            shutil.rmtree(sub_path, ignore_errors=True)
        rows = []
        branch_digest = None
        md_base = num(full.base_revision_id)        # 0 = null:
        for m in combos:
            md = MD.MergeDirective2(
                revision_id=full.revision_id, testament_sha1=full.testament_sha1, time=full.time, timezone=full.timezone,
                target_branch=full.target_branch, patch=full.patch if m["patch"] else None,
                source_branch=full.source_branch if m["src"] else None, message=full.message if m["msg"] else None,
                bundle=full.bundle if m["bundle"] else None, base_revision_id=full.base_revision_id)
            do_merge = m in merge_combos and bool(case["lcas"])      # unrelated histories: a branch merge refuses
            c = {"P": self.P, "submit": submit, "target": target, "md": m, "merge": do_merge}
            o = {"present": {}, "same": [], "verify": "", "patchTamper": [], "bundleTamper": [], "written": [], "before": [],
                 "after": [], "mergeBundle": "", "mergeBranch": ""}
            info = {"md_base": md_base}
            rows.append((c, o, info))
            lines = md.to_lines()
            try:
                md2 = MD.MergeDirective.from_lines(lines)
            except Exception as e:
                o["verify"] = "error: from_lines: %s: %s" % (type(e).__name__, str(e)[:160])
                continue
            o["present"] = {"msg": md2.message is not None, "patch": md2.patch is not None, "bundle": md2.bundle is not None,
                            "src": md2.source_branch is not None}
            o["same"] = [f for f in ("revision_id", "testament_sha1", "time", "timezone", "target_branch", "base_revision_id",
                                     "message", "patch", "bundle", "source_branch")
                         if getattr(md, f) == getattr(md2, f)]
            if type(md2) is not MD.MergeDirective2:
                o["same"] = []
            # the receiving side: a repository that has the whole source history (verification needs both revisions)
            try:
                o["verify"] = md2._maybe_verify(self.src.repository)
            except Exception as e:
                o["verify"] = "error: verify: %s" % type(e).__name__
            if md2.bundle is not None:
                from breezy.bzr.bundle.serializer import read_bundle
                try:
                    binfo = read_bundle(io.BytesIO(md2.get_raw_bundle()))
                    o["written"] = sorted(num(r.revision_id) for r in binfo.real_revisions)
                except Exception as e:
                    o["written"] = [-1]
                    info["bundle"] = "%s: %s" % (type(e).__name__, str(e)[:160])
            # ---- tampering: the patch, the bundle text
            tamper_here = ntamper if (m in merge_combos or m["patch"] and m["bundle"] and m["src"] and m["msg"]) else 0
            if md2.patch is not None and tamper_here:
                cand = _alnum_positions(md2.patch, 0, len(md2.patch))
                for j in range(tamper_here if cand else 0):        # (an empty preview patch has nothing to tamper with)
                    pos = rng.choice(cand)
                    t = copy.copy(md2)
                    t.patch = _sub(md2.patch, pos)
                    t3 = MD.MergeDirective.from_lines(t.to_lines())
                    try:
                        o["patchTamper"].append(t3._maybe_verify(self.src.repository))
                    except Exception as e:          # a patch that cannot even be compared is detected as well
                        o["patchTamper"].append("failed")
                        info.setdefault("patchTamperErrors", []).append(type(e).__name__)
            if md2.bundle is not None and tamper_here:
                good = None
                for j in range(tamper_here):
                    pos = rng.randrange(len(md2.bundle))
                    if j == 0 and all(m.values()):
                        pos = 39                     # the base64 character that carries the newline ending the bundle header
                    if not (bytes([md2.bundle[pos]]).isalnum()):
                        continue
                    t = copy.copy(md2)
                    t.bundle = _sub(md2.bundle, pos)
                    t3 = MD.MergeDirective.from_lines(t.to_lines())
                    if good is None:
                        repo = self.fresh_repo(submit)
                        md2.install_revisions(repo)
                        good = self.state(repo)
                        good_container = bz2.decompress(md2.get_raw_bundle()[len(b"# Bazaar revision bundle v4\n#\n"):])

                    def attempt(repo, t3=t3, good=good):
                        try:
                            t3.install_revisions(repo)
                            return ["same" if self.state(repo) == good else "changed", ""]
                        except (KeyboardInterrupt, SystemExit, MemoryError):
                            raise
                        except BaseException as e:      # noqa: BLE001
                            return ["rejected", type(e).__name__]
                    try:
                        watch = needs_watchdog(t3.get_raw_bundle(), good_container, False)
                    except Exception:       # noqa: BLE001  (base64 that does not decode: the install raises)
                        watch = False
                    outcome, detail = guarded(attempt, lambda: self.fresh_repo(submit)) if watch else attempt(self.fresh_repo(submit))
                    o["bundleTamper"].append({"section": "base64-text", "outcome": outcome, "pos": pos, "detail": detail})
            # ---- merging by the directive vs merging from the branch
            if do_merge:
                wt, path = self.receiver(submit, "rcv")
                try:
                    with wt.branch.repository.lock_read():
                        o["before"] = sorted(num(r) for r in wt.branch.repository.all_revision_ids())
                    verified = []

                    def by_directive(tree):
                        merger, v = M.Merger.from_mergeable(tree, md2)
                        verified.append(v)
                        return merger
                    o["mergeBundle"], err = self.merge_digest(wt, path, by_directive)
                    if err:
                        info["mergeBundleError"] = err
                    with wt.branch.repository.lock_read():
                        o["after"] = sorted(num(r) for r in wt.branch.repository.all_revision_ids())
                finally:
                    shutil.rmtree(path, ignore_errors=True)
                if branch_digest is None:
                    wt, path = self.receiver(submit, "ref")
                    try:
                        branch_digest = self.merge_digest(
                            wt, path, lambda tree: M.Merger.from_revision_ids(tree, rid(target), other_branch=self.src))
                    finally:
                        shutil.rmtree(path, ignore_errors=True)
                o["mergeBranch"] = branch_digest[0]
                if branch_digest[1]:
                    info["mergeBranchError"] = branch_digest[1]
        return rows


def replay_jobs(sub, chunk):
    import logging
    os.environ["RUST_BACKTRACE"] = "0"
    os.chdir(sub.workdir)              # bundle_data._validate_inventory drops ',,bogus-inv' into the current directory
    logging.getLogger("brz").setLevel(logging.CRITICAL)      # 'Inventory sha hash mismatch' / conflict chatter
    rows = sub.cov.setdefault("_collect", [])
    import random
    for hist, pat, exotic, sfmt, bcases, mcases, combos, merge_combos, ntamper, jseed in chunk:
        rng = random.Random(jseed)        # per job, so that the positions do not depend on how jobs are spread over workers
        job = Job(hist, pat, exotic, sfmt, sub.workdir)
        try:
            P = read_graph(job.src.repository, job.n)
            if P != job.P:
                sub.machinery("built graph %s differs from the abstract graph %s" % (P, job.P))
            meta = {"hist": hist["idx"], "pat": pat, "exotic": exotic, "sfmt": sfmt}
            for case, fmt in bcases:
                o, info = job.bundle_case(case, fmt, rng, ntamper)
                carried = ancestry(P, case["target"]) - ancestry(P, case["base"])
                feats = sorted({f for k in carried for f in job.feats[k]})
                rows.append({"kind": "bundle", "c": {"P": P, "base": case["base"], "target": case["target"], "fmt": fmt},
                             "impl": o, "spec": {"written": case["written"], "after": case["after"]},
                             "meta": dict(meta, feats=feats, merge=any(len(P[k - 1]) > 1 for k in carried), **info)})
                sub.count(1)
                if len(carried) > 1 or any(len(P[k - 1]) > 1 for k in carried):
                    sub.nontrivial(("b", hist["idx"], pat, exotic, sfmt, case["base"], case["target"], fmt))
            for case in mcases:
                for c, o, info in job.md_cases(case, combos, merge_combos, rng, ntamper):
                    carried = ancestry(P, case["target"]) - ancestry(P, case["submit"])
                    feats = sorted({f for k in carried for f in job.feats[k]})
                    rows.append({"kind": "md", "c": c, "impl": o, "spec": {"after": case["after"], "lcas": case["lcas"]},
                                 "meta": dict(meta, feats=feats, **info)})
                    sub.count(1)
                    if c["merge"]:
                        sub.nontrivial(("m", hist["idx"], pat, exotic, sfmt, case["submit"], case["target"],
                                        tuple(sorted(c["md"].items()))))
            for f in os.listdir(sub.workdir):
                if f.startswith(",,"):
                    os.unlink(os.path.join(sub.workdir, f))
        finally:
            job.close()


# ----------------------------------------------------------------------------- verdicts
def _slim(r):
    o = dict(r["impl"])
    if r["kind"] == "bundle":
        o["tamper"] = [{"section": t["section"], "outcome": t["outcome"]} for t in o["tamper"]]
    else:
        o["bundleTamper"] = [{"section": t["section"], "outcome": t["outcome"]} for t in o["bundleTamper"]]
    return {"kind": r["kind"], "c": r["c"], "impl": o}


def signatures(row, law):
    """Narrow violation signatures: clause : code site : input class."""
    c, o, meta = row["c"], row["impl"], row["meta"]
    feats = "+".join(meta.get("feats") or ()) or "plain"
    if row["kind"] == "bundle":
        site = "v4" if c["fmt"] == "4" else "v09"
        if law == "installs":
            stage = o["outcome"].split(":")[1].strip() if o["outcome"].startswith("error:") else "?"
            exc = o["outcome"].split(":")[2].strip() if o["outcome"].count(":") >= 2 else "?"
            return ["installs:%s.%s:%s" % (site, stage, exc if feats == "plain" else feats)]
        if law == "tamper":
            # a hang is one defect wherever the compressed stream was hit: the stream ends early without an error
            return sorted({"tamper:%s:%s:%s" % (site, "bz2-stream" if t["outcome"] == "hang" and t["section"].startswith("bz2-")
                                                else t["section"], "accepted-changed" if t["outcome"] == "changed" else t["outcome"])
                           for t in o["tamper"] if t["outcome"] not in ("rejected", "same")})
        return ["%s:%s:%s:%s" % (law, site, "merge" if meta.get("merge") else "linear", feats)]
    md = c["md"]
    combo = "".join(k[0] for k in ("msg", "patch", "bundle", "src") if md[k]) or "-"
    if law == "bundletamper":
        # a hang is the same defect as for a plain bundle: the pack reader busy-loops on the cut / empty container it is handed
        return sorted({"tamper:v4:bz2-stream:hang" if t["outcome"] == "hang" else
                       "bundletamper:MergeDirective2:base64-text:%s" % ("accepted-changed" if t["outcome"] == "changed" else t["outcome"])
                       for t in o["bundleTamper"] if t["outcome"] not in ("rejected", "same")})
    if law == "patchtamper":
        return ["patchtamper:MergeDirective2._verify_patch:accepted"]
    if law == "roundtrip":
        lost = sorted({"revision_id", "testament_sha1", "time", "timezone", "target_branch", "base_revision_id", "message",
                       "patch", "bundle", "source_branch"} - set(o["same"]))
        tz = MD_ZONES[(c["submit"] + c["target"]) % len(MD_ZONES)]
        if lost and set(lost) <= {"time", "timezone"} and tz < 0 and tz % 3600 and o["present"] == md:
            return ["roundtrip:parse_patch_date:negative-non-whole-hour-offset"]
        return ["roundtrip:MergeDirective2:lost=%s:fields=%s" % ("+".join(lost) or "presence", combo)]
    if law == "verify":
        return ["%s:MergeDirective2:fields=%s" % (law, combo)]
    if law == "merge" and len(row["spec"]["lcas"]) > 1 and meta.get("md_base") == 0:
        # several LCAs without a common ancestor of their own: from_objects records base null:, from_mergeable then
        # cherry-picks against the empty tree where a branch merge picks one of the LCAs
        return ["merge:Merger.from_mergeable:criss-cross-null-unique-lca"]
    return ["%s:MergeDirective2+%s:%s" % (law, "bundle" if md["bundle"] else "branch", feats)]


def selftest_rows(hists):
    """Binding self-test: the observation the SPECIFICATION predicts for an exported case must be accepted by the Trace
    module, corrupted copies of it must be rejected, each by its law."""
    b = m = None
    for h in hists:
        P = [list(ps) for ps in h["P"]]
        for case in h["bcases"]:
            if b is None and case["base"] and len(case["written"]) >= 2:
                b = {"c": {"P": P, "base": case["base"], "target": case["target"], "fmt": "4"}, "spec": case}
        for case in h["mcases"]:
            if m is None and case["lcas"] and case["submit"] not in case["lcas"]:
                m = {"c": {"P": P, "submit": case["submit"], "target": case["target"],
                           "md": {"msg": True, "patch": True, "bundle": True, "src": False}, "merge": True}, "spec": case}
    if b is None or m is None:
        raise core.MachineryError("binding self-test: no suitable exported case")
    P, n = b["c"]["P"], len(b["c"]["P"])
    after = sorted(b["spec"]["after"])
    tsrc = ["t%d" % k for k in range(1, n + 1)]
    good_b = {"kind": "bundle", "c": b["c"], "impl": {
        "outcome": "ok", "written": sorted(b["spec"]["written"]), "before": sorted(ancestry(P, b["c"]["base"])), "after": after,
        "tsrc": tsrc, "ttgt": [tsrc[k - 1] if k in after else "" for k in range(1, n + 1)],
        "tparents": [P[k - 1] if k in after else [] for k in range(1, n + 1)],
        "tamper": [{"section": "x", "outcome": "rejected"}, {"section": "y", "outcome": "same"}]}}
    mc = dict(m["c"], merge=True)
    P = mc["P"]
    lca = m["spec"]["lcas"][0]
    good_m = {"kind": "md", "c": mc, "impl": {
        "present": mc["md"], "same": ["revision_id", "testament_sha1", "time", "timezone", "target_branch", "base_revision_id",
                                      "message", "patch", "bundle", "source_branch"],
        "verify": "verified", "patchTamper": ["failed"], "bundleTamper": [{"section": "x", "outcome": "rejected"}],
        "written": sorted(ancestry(P, mc["target"]) - ancestry(P, lca)), "before": sorted(ancestry(P, mc["submit"])),
        "after": sorted(m["spec"]["after"]), "mergeBundle": "m", "mergeBranch": "m"}}
    out = [(good_b, None), (good_m, None)]

    def probe(base, law, fn):
        r = copy.deepcopy(base)
        fn(r["impl"])
        out.append((r, law))
    last = good_b["impl"]["written"][-1]
    probe(good_b, "installs", lambda o: o.__setitem__("outcome", "error: install: X: y"))
    probe(good_b, "written", lambda o: o["written"].pop())
    probe(good_b, "gained", lambda o: o["after"].remove(last))
    probe(good_b, "attested", lambda o: o["ttgt"].__setitem__(last - 1, "0" * 20))
    probe(good_b, "graph", lambda o: o["tparents"].__setitem__(last - 1, o["tparents"][last - 1] + [last]))
    probe(good_b, "tamper", lambda o: o["tamper"].append({"section": "x", "outcome": "changed"}))
    probe(good_b, "tamper", lambda o: o["tamper"].append({"section": "x", "outcome": "hang"}))
    probe(good_m, "roundtrip", lambda o: o["same"].remove("message"))
    probe(good_m, "roundtrip", lambda o: o.__setitem__("present", dict(o["present"], bundle=False)))
    probe(good_m, "verify", lambda o: o.__setitem__("verify", "failed"))
    probe(good_m, "patchtamper", lambda o: o["patchTamper"].append("verified"))
    probe(good_m, "bundletamper", lambda o: o["bundleTamper"].append({"section": "x", "outcome": "changed"}))
    probe(good_m, "mdwritten", lambda o: o["written"].append(99))
    probe(good_m, "mdgained", lambda o: o["after"].pop())
    probe(good_m, "merge", lambda o: o.__setitem__("mergeBranch", "other"))
    return out


def judge(ctx, rows, hists):
    slim = [_slim(r) for r in rows]
    by_id = {id(s): r for s, r in zip(slim, rows)}
    probes = selftest_rows(hists)
    expected = {id(p): law for p, law in probes}
    caught = {id(p) for p, law in probes if law is None}
    for srow, failed, drift in table.judge(ctx, "BundleTrace", slim + [p for p, _ in probes], chunk=4000, workers=4, timeout=3000):
        if id(srow) in expected:
            if expected[id(srow)] is None:
                caught.discard(id(srow))
                ctx.machinery("binding self-test: an uncorrupted observation was rejected: %s" % failed)
            elif expected[id(srow)] in failed:
                caught.add(id(srow))
            continue
        row = by_id[id(srow)]
        for law in failed:
            for sig in signatures(row, law):
                ctx.violation(sig, "law %s fails: %s on %s -> %s" % (
                    law, {k: v for k, v in row["c"].items()}, row["meta"],
                    {k: v for k, v in row["impl"].items() if k not in ("tsrc",)}), row)
    missed = [law for p, law in probes if id(p) not in caught]
    if missed:
        ctx.machinery("binding self-test: corrupted observations not rejected by laws %s" % missed)
    ctx.cov["binding_selftest_probes"] = len(probes)


def plan_jobs(ctx, data):
    """Which histories are replayed and how much of each: (hists, plans, jobs, sizes)."""
    hists = data["hist"]
    if data["n"] != len(hists) or not hists:
        ctx.machinery("TLC exported %d of %s graphs" % (len(hists), data["n"]))
    combos = sorted(data["combos"], key=lambda m: sorted(m.items()))
    if len(combos) != 12 or sorted(data["formats"]) != ["0.9", "4"]:
        ctx.machinery("unexpected combination table %s / %s" % (combos, data["formats"]))
    # ---- which histories are replayed, and how much of each
    small = [h for h in hists if len(h["P"]) <= 3]
    four = [h for h in hists if len(h["P"]) == 4]
    five = [h for h in hists if len(h["P"]) == 5]
    ctx.rng.shuffle(four)
    ctx.rng.shuffle(five)
    plans = []          # (hist, pat, exotic, sfmt)
    z = SIZES[ctx.tier]
    if ctx.quick:
        chosen = small[:z["small"]] + four[:z["four"]]
        for j, h in enumerate(chosen):
            plans.append((h, j % NPAT, None, SFMTS[j % 2]))
        for j, h in enumerate(four[z["four"]:z["four"] + z["exotic"]]):
            plans.append((h, j % NPAT, EXOTIC[1 + j % 2], SFMTS[(j // 2) % 2]))
    else:
        for h in (small + four)[:z.get("graphs4")]:
            for i in range(z["pats"]):
                pat = (h["idx"] + 2 * i) % NPAT
                plans.append((h, pat, None, SFMTS[(i + h["idx"]) % 2]))
        for j, h in enumerate(five[:z["five"]]):
            plans.append((h, j % NPAT, None, SFMTS[j % 2]))
        for j, h in enumerate(four[:z["exotic"] // 2] + five[z["five"]:z["five"] + z["exotic"] // 2]):
            plans.append((h, j % NPAT, EXOTIC[1 + j % 2], SFMTS[(j // 2) % 2]))
    ntamper, nmd, nmerge = z["ntamper"], z["nmd"], z["nmerge"]
    with_bundle = [m for m in combos if m["bundle"]]
    without = [m for m in combos if not m["bundle"]]
    jobs = []
    for j, (h, pat, exotic, sfmt) in enumerate(plans):
        bcases = [(c, f) for c in sorted(h["bcases"], key=lambda c: (c["base"], c["target"])) for f in ("4", "0.9")]
        mc = sorted(h["mcases"], key=lambda c: (c["submit"], c["target"]))
        ctx.rng.shuffle(mc)
        mcases = mc[:nmd]
        # the combinations that are also merged: directives with a bundle, and one that names the source branch only
        merge_combos = [with_bundle[(j + i) % len(with_bundle)] for i in range(nmerge)] + [without[j % len(without)]]
        jobs.append((h, pat, exotic, sfmt, bcases, mcases, combos, merge_combos, ntamper, ctx.rng.getrandbits(32)))
    return hists, plans, jobs, z


def run(ctx):
    env.init()
    import breezy.merge  # noqa: F401  (imported before forking)
    import breezy.merge_directive  # noqa: F401
    import breezy.bzr.testament  # noqa: F401
    import breezy.bzr.bundle.serializer.v4  # noqa: F401
    import breezy.bzr.bundle.serializer.v09  # noqa: F401
    maxrev = 4 if ctx.quick else 5
    # ---- E1 + E2: TLC checks the laws on the specification for every graph, exports the case table
    data, _ = tlc.json_cases(ctx, "BundleGen", cfg_text=gen_cfg(maxrev), label="BundleGen graphs<=%d" % maxrev, workers=4,
                             timeout=3000)
    for w in WITNESSES:
        tlc.check(ctx, "BundleGen", cfg_text=gen_cfg(4, (w,)), expect_violation=w, label="witness " + w, workers=4)
    hists, plans, jobs, z = plan_jobs(ctx, data)
    ntamper, nmd, nmerge = z["ntamper"], z["nmd"], z["nmerge"]
    core.fork_map(ctx, replay_jobs, jobs, chunks_per_proc=8)
    rows = ctx.collected
    if not rows:
        ctx.machinery("no execution was recorded")
    sections = sorted({(r["c"]["fmt"], t["section"]) for r in rows if r["kind"] == "bundle" for t in r["impl"]["tamper"]})
    ctx.cov["tamper_sections_visited"] = ["%s:%s" % s for s in sections]
    ctx.cov["tamper_runs"] = (sum(len(r["impl"]["tamper"]) for r in rows if r["kind"] == "bundle")
                              + sum(len(r["impl"]["patchTamper"]) + len(r["impl"]["bundleTamper"]) for r in rows if r["kind"] == "md"))
    ctx.cov["histories"] = len(plans)
    ctx.cov["merges_compared"] = sum(1 for r in rows if r["kind"] == "md" and r["c"]["merge"])
    ctx.rule("graphs = all with <= %d revisions and <= 2 ordered parents (TLC); replayed: %s; each with one of 6 edit schedules "
             "(modify / rename + chmod / move + retarget symlink, rename + chmod both ways / add, move + modify + chmod binary / delete + "
             "re-add / nothing; messages and properties with leading / trailing blanks and tabs; merges "
             "take the other side's additions, binary file and symlink) and varying metadata, source format alternating 2a / "
             "pack-0.92; every (base, target) x {4, 0.9}; %d directive cases per history x 12 field combinations, %d of them "
             "merged both ways; %d tamper positions per case; non-trivial = more than one carried revision or a carried "
             "merge (bundles), merged directive cases" % (
                 maxrev, "all graphs <= 3 and a seeded sample of %d four-revision graphs" % (z["four"] + z["exotic"]) if ctx.quick else
                 "all graphs <= 4 with %d of the six schedules each and a seeded sample of %d five-revision graphs" % (z["pats"], z["five"] + z["exotic"] // 2), nmd, nmerge + 1, ntamper))
    ctx.assume("a directive's patch is compared after normalising line endings and trailing blanks (by design); tampering "
               "substitutes alphanumeric bytes only")
    for r in (rows[len(rows) // 3], rows[-1]):
        ctx.sample({"kind": r["kind"], "c": r["c"], "meta": r["meta"],
                    "impl": {k: v for k, v in r["impl"].items() if k not in ("tsrc", "ttgt")}})
    judge(ctx, rows, hists)


def replay(ctx, rep):
    """Re-execute one recorded case on the current tree (same history, same tamper seed is not kept: positions are redrawn)."""
    import random
    env.init()
    r = rep["replay"]
    meta, c = r["meta"], r["c"]
    os.chdir(ctx.workdir)
    os.environ["RUST_BACKTRACE"] = "0"
    job = Job({"P": c["P"], "idx": meta["hist"]}, meta["pat"], meta["exotic"], meta["sfmt"], ctx.workdir)
    try:
        rng = random.Random(ctx.seed)
        if r["kind"] == "bundle":
            o, info = job.bundle_case({"base": c["base"], "target": c["target"]}, c["fmt"], rng, 13)
        else:
            rows = job.md_cases({"submit": c["submit"], "target": c["target"], "lcas": r["spec"]["lcas"]}, [c["md"]],
                                [c["md"]] if c["merge"] else [], rng, 4)
            o = rows[0][1]
        print(json.dumps(core.jsonable({k: v for k, v in o.items() if k not in ("tsrc",)}), indent=1))
    finally:
        job.close()
    ctx.count(1, traces=1)
    ctx.nontrivial("replay")
    ctx.sample({"c": c, "meta": meta})
    ctx.rule("replay of one recorded case")
