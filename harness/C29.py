"""C29 — smart protocol messages survive the wire unchanged under every segmentation of the byte stream."""
from harness import smartproto_common as sp

META = dict(
    property_id="C29", level="model_checking", design_ref="DESIGN.md §4 C29",
    technique="TLA+ spec of the smart-protocol message shapes and decoder state machines over byte counts; TLC "
              "enumerates shapes x decoding targets x segmentations of the byte stream; real encoders produce the "
              "bytes, real decoders consume them cut at each segmentation; TLC judges every recorded run with the "
              "round-trip laws (decoded = encoded, trailing bytes preserved, each part delivered exactly once)",
    level_text="Every enumerated (shape, target, segmentation) is executed on the real code and judged by TLC: all "
               "three protocol versions, requests and responses, body kinds none / bytes / readv / stream / "
               "stream+error / error, 0-3 trailing bytes; ALL compositions of short streams, and for longer ones single cuts "
               "around and pairs of cuts on every part boundary (incl. inside 4-byte length prefixes), byte-by-byte and all-boundaries, pushed into the decoders and pulled "
               "by the real readers through a short-reading pipe. Byte values are harness-chosen hostile payloads.",
    level_note="Value-level fidelity is by execution on chosen payloads (empty strings, 0x00/0x01/newline, done/END/ERR/"
               "chunked look-alikes, hex-digit look-alikes), not by model: the spec reasons about byte counts only. "
               "v1/v2 argument bytes exclude 0x01 and newline (the tuple encoding cannot carry them by definition). "
               "Server side uses the real SmartServerRequestHandler with a recording command for every verb. "
               "Trusted: TLC, JSON bridge, fastbencode, bzrformats._bzr_rs constants.",
)


def run(ctx):
    sp.run(ctx, "C29")


def replay(ctx, rep):
    sp.replay(ctx, rep)
