"""C04 — pack repositories are crash-atomic."""
import json
import os
import re

from vf import env, tlc, core, sched
from harness import pack_common as pc
from harness import C05

META = dict(
    property_id="C04", level="model_checking", design_ref="DESIGN.md §4 C04",
    technique="TLA+ spec of the pack collection with Crash enabled in every state, model-checked by TLC; the real "
              "commit / autopack / pack / fetch run with EVERY state-changing transport operation (incl. each stream "
              "write) as a crash point: the directory projection after each operation is judged by TLC "
              "(PackCrashTrace) and a snapshot of the file system is re-opened by fresh code and fully read",
    level_text="Every prefix of the file-system operation sequence of a commit, of the 10th commit with autopack, of "
               "pack() (with and without clean_obsolete_packs) and of a fetch is a crash state. For each: TLC evaluates "
               "ListedPresent / OldOrNew / NamesAtomic / ObsoleteOnlyUnlisted on the projected state, and a byte copy of "
               "the repository at that point is opened by fresh objects: all_revision_ids must be the old or the new "
               "set, every listed revision, tree and text readable, check() clean, and after breaking stale locks a "
               "further commit must succeed and report exactly one more revision.",
    level_note="Crash = prefix of the operation sequence (no power-loss reordering of writes). Memory transport: "
               "put_file is atomic there; on local disk (thorough) it is temp+rename, both halves are operations. "
               "2a in quick; pack-0.92 in thorough. bzrformats NewPack / index writers trusted as executed.",
)

INV = ("TypeOK", "ListedPresent", "NoLoss", "NoLatched", "VisibleWhole")
MCQ = {"Writers": ["w1"], "Readers": [], "InitPacks": 2, "MaxCommits": 2, "MaxPacks": 2, "MaxCrashes": 1}
MCT = {"Writers": ["w1", "w2"], "Readers": ["r"], "InitPacks": 2, "MaxCommits": 1, "MaxPacks": 2, "MaxCrashes": 1}


def snapshot(t, root="r"):
    files, dirs = {}, []

    def walk(d):
        dirs.append(d)
        for n in t.list_dir(d):
            p = d + "/" + n
            try:
                t.list_dir(p)
                walk(p)
            except Exception:
                try:
                    files[p] = t.get_bytes(p)
                except Exception:
                    pass
    walk(root)
    return {"dirs": dirs, "files": files}


def record(sub, sc):
    """Run one operation on the real code with every mutating transport operation as a step; returns
    (trace for TLC, list of (k, op, snapshot))."""
    from breezy import branch as _b, repository as _r
    tpl = C05.template(sc["fmt"], sc["init"], ["w1"])
    pw = pc.PackWorld(sub, tpl, [], [], 1, sc["init"], disk=sc.get("disk", False), fine=True)
    w = pw.w
    kind = sc["op"]

    def prog():
        if kind == "commit":
            b = _b.Branch.open(w.url("r/b_w1"))
            pc.commit_one(b, b"w1-1", fname="f_w1")
        elif kind in ("pack", "pack_clean"):
            repo = _r.Repository.open(w.url("r"))
            with repo.lock_write():
                repo.pack(clean_obsolete_packs=(kind == "pack_clean"))
        elif kind == "fetch":
            src = _b.Branch.open(w.url("r/b_w1"))
            from breezy import controldir
            f = controldir.format_registry.make_controldir(sc["fmt"])
            tgt = controldir.ControlDir.create_branch_convenience(w.url("t"), format=f, force_new_tree=False)
            tgt.repository.fetch(src.repository, revision_id=src.last_revision())
        return "done"

    from breezy import lockdir
    lockdir.time.sleep = pw._sleep
    w.spawn("w1", prog)
    pw.writers = ["w1"]
    pw.alive["w1"] = True
    root = "t" if kind == "fetch" else "r"
    old = sorted(tuple(k) for k in pw.committed)
    events, snaps = [], []
    raw = w.raw()
    if kind == "fetch":
        # the target's repository is what is being written: project it instead
        pc_repo = "t/.bzr/repository/"
    try:
        snaps.append((0, "start", snapshot(raw, "r")))
        k = 0
        while not w.done("w1") and k < 4000:
            entries = w.step("w1")
            for e in entries:
                k += 1
                kd = pc.classify(e["op"], e["path"], e.get("to")) or "local"
                if kd == "publish" and e["res"] == "ok":
                    name = os.path.basename(e["to"])[:-5]
                    i = pw._id(name)
                    pw.content[i] = pw._keys_abs(name)
                st = pw.project()
                events.append({"k": k, "kind": kd, "op": e["op"], "path": (e["path"] or "")[-60:],
                               "names": st["namesFile"], "packs": st["packsDir"], "idx": st["idxDir"]})
                if root == "r" or raw.has("t"):
                    snap = snapshot(raw, root) if raw.has(root) else None
                    snaps.append((k, "%s %s" % (e["op"], (e["path"] or "")[-50:]), snap))
                    # a non-atomic put can be interrupted half way: the torn file is a crash state too
                    if snap is not None and e["op"].endswith("_non_atomic") and e["res"] == "ok" and e["path"] in snap["files"] \
                            and "/lock/" not in e["path"]:
                        data = snap["files"][e["path"]]
                        for cut in sorted({0, len(data) // 2}):
                            torn = {"dirs": snap["dirs"], "files": dict(snap["files"])}
                            torn["files"][e["path"]] = data[:cut]
                            snaps.append((k, "TORN(%d/%d) %s %s" % (cut, len(data), e["op"], e["path"][-40:]), torn))
        res = w.result("w1")
        if res is None or res[0] != "ok":
            sub.violation("operation-failed:%s:%s" % (kind, res[1] if res else "?"), "un-crashed %s failed: %s" % (kind, res), sc)
    finally:
        pw.close()
    maxid = max(pw.content) if pw.content else 0
    content = [pw.content.get(i, []) for i in range(1, maxid + 1)]
    new = sorted(set(old) | ({("w1", 1)} if kind == "commit" else set()))
    trace = {"events": events, "content": content, "old": [list(x) for x in old], "new": [list(x) for x in new],
             "init_names": list(range(1, sc["init"] + 1)), "sc": sc}
    return trace, snaps, old, new


def verify_snapshot(snap, old, new, deep, fmt):
    """Fresh objects on a byte copy of the repository at a crash point. Returns list of (clause, text)."""
    from breezy import repository as _r, branch as _b, transport as T
    from dromedary import memory
    probs = []
    srv = memory.MemoryServer()
    srv.start_server()
    try:
        t = T.get_transport(srv.get_url())
        for d in snap["dirs"]:
            t.mkdir(d)
        for p, data in snap["files"].items():
            t.put_bytes(p, data)
        root = snap["dirs"][0]
        want_old = {("%s-%d" % k).encode() for k in old}
        want_new = {("%s-%d" % k).encode() for k in new}
        try:
            repo = _r.Repository.open(srv.get_url() + root)
            with repo.lock_read():
                revs = set(repo.all_revision_ids())
                if root == "r" and revs != want_old and revs != want_new:
                    probs.append(("old-or-new", "fresh open lists %s, neither old %s nor new" % (sorted(revs), sorted(want_old))))
                for r in sorted(revs):
                    try:
                        repo.get_revision(r)
                        tr = repo.revision_tree(r)
                        for path, ie in tr.iter_entries_by_dir():
                            if ie.kind == "file":
                                tr.get_file_text(path)
                    except Exception as e:
                        probs.append(("listed-unreadable", "listed revision %r unreadable: %s" % (r, type(e).__name__)))
                if deep and not probs:
                    try:
                        repo.check(sorted(revs))
                    except Exception as e:
                        probs.append(("check-fails", "check() raised %s: %s" % (type(e).__name__, str(e)[:80])))
        except Exception as e:
            probs.append(("unusable", "fresh open/read failed: %s: %s" % (type(e).__name__, str(e)[:100])))
            return probs
        if deep and root == "r" and not probs:
            # leftover temporary files must not make the repository unusable: break stale locks, commit again
            for p in list(snap["files"]):
                if "/lock/" in p:
                    try:
                        t.delete_tree(p.rsplit("/", 1)[0])
                    except Exception:
                        pass
            try:
                b = _b.Branch.open(srv.get_url() + "r/seed")
                pc.commit_one(b, b"after-1", fname="g")
                repo = _r.Repository.open(srv.get_url() + "r")
                with repo.lock_read():
                    revs2 = set(repo.all_revision_ids())
                if revs2 != revs | {b"after-1"}:
                    probs.append(("after-crash-commit", "after a further commit the repository lists %s" % sorted(revs2 ^ (revs | {b"after-1"}))))
            except Exception as e:
                probs.append(("after-crash-commit", "a further commit on the crash state fails: %s: %s" % (type(e).__name__, str(e)[:100])))
    finally:
        srv.stop_server()
    return probs


def work(sub, chunk):
    for sc in chunk:
        trace, snaps, old, new = record(sub, sc)
        sub.cov.setdefault("_collect", []).append(trace)
        stride = sc.get("stride", 1)
        for k, what, snap in snaps:
            if snap is None:
                continue
            deep = (k % stride == 0)
            for clause, text in verify_snapshot(snap, old, new, deep, sc["fmt"]):
                sub.violation("crash-state:%s:%s" % (clause, sc["op"]), "after operation #%d (%s): %s" % (k, what, text),
                              {"scenario": sc, "crash_after_op": k, "op": what})
            sub.count(1)
            sub.nontrivial("%s/%s/%d/%d" % (sc["op"], sc["fmt"], sc["init"], k))
        if len(sub.cov["samples"]) < 1:
            sub.sample({"scenario": sc, "operations": [[e["k"], e["kind"], e["op"], e["path"]] for e in trace["events"]][:80]})


_accept = re.compile(r'<<\s*"ACCEPT",\s*(\d+),\s*(\{.*?\})\s*>>\s*\n', re.S)


def run(ctx):
    env.init()
    tlc.check(ctx, "PackCollMC", cfg_text=pc.cfg_text(MCQ, "Spec", INV), label="MC 1 writer, 2 commits, autopack, crash anywhere")
    if not ctx.quick:
        tlc.check(ctx, "PackCollMC", cfg_text=pc.cfg_text(MCT, "Spec", INV), label="MC 2 writers + reader, crash anywhere", timeout=1800)
    q = ctx.quick
    jobs = [{"op": "commit", "fmt": "2a", "init": 2, "stride": 4 if q else 1},
            {"op": "commit", "fmt": "2a", "init": 9, "stride": 8 if q else 1},      # 10th pack: autopack
            {"op": "pack", "fmt": "2a", "init": 3, "stride": 6 if q else 1}]
    if not q:
        jobs += [{"op": "pack_clean", "fmt": "2a", "init": 3, "stride": 1},
                 {"op": "commit", "fmt": "pack-0.92", "init": 2, "stride": 1},
                 {"op": "commit", "fmt": "pack-0.92", "init": 9, "stride": 1},
                 {"op": "pack", "fmt": "pack-0.92", "init": 3, "stride": 1},
                 {"op": "fetch", "fmt": "2a", "init": 3, "stride": 1},
                 {"op": "commit", "fmt": "2a", "init": 9, "stride": 1, "disk": True}]
    core.fork_map(ctx, work, jobs, chunks_per_proc=1)
    traces = [t for t in ctx.collected if t["sc"]["op"] != "fetch"]
    ctx.collected = []
    fin = os.path.join(ctx.workdir, "crash_traces.json")
    with open(fin, "w") as f:
        json.dump(traces, f)
    res = tlc.run(ctx, "PackCrashTrace", cfg_text="SPECIFICATION Spec\n", env={"VF_IN": fin}, workers=4)
    ctx.add_tlc(res, "crash-state projections judged by TLC")
    acc = dict((int(a), b) for a, b in _accept.findall(res["output"]))
    if len(acc) != len(traces):
        ctx.machinery("PackCrashTrace consumed %d of %d traces:\n%s" % (len(acc), len(traces), res["output"][-1500:]))
    ctx.count(0, traces=len(traces))
    for tid, v in acc.items():
        for clause, at in re.findall(r'<<"(\w+)", (\d+)>>', v):
            ev = traces[tid - 1]["events"][int(at) - 1]
            ctx.violation("crash-projection:%s:%s" % (clause, traces[tid - 1]["sc"]["op"]),
                          "TLC: %s violated in the state after operation #%s (%s %s)" % (clause, at, ev["op"], ev["path"]),
                          {"scenario": traces[tid - 1]["sc"], "crash_after_op": int(at)})
    ctx.rule("crash point = after each state-changing transport operation (mkdir, put, rename/move, delete, stream open / "
             "write / close) of one commit, one autopacking commit, one pack(); every crash state is projected and judged "
             "by TLC, and a byte copy is re-opened by fresh objects (fully read; every stride-th also check() + break "
             "locks + further commit); distinct = (operation, format, packs, crash index)")
    ctx.cov["exhaustive"] = True
    ctx.assume("crash = prefix of the operation sequence; writes are not reordered")
