"""C26 — directory locks provide mutual exclusion."""
from vf import env, tlc
from harness import lockdir_common as lc

META = dict(
    property_id="C26", level="model_checking", design_ref="DESIGN.md §4 C26",
    technique="TLA+ spec of LockDir (one action per transport operation) model-checked by TLC over all interleavings; "
              "TLC behaviours and counter-examples replayed step-by-step on real LockDir objects under a "
              "deterministic scheduler; recorded random schedules validated against the spec by TLC",
    level_text="TLC exhausts every interleaving of the transport operations of 2 lockers + 1 breaker (3+1 in thorough) "
               "and of the steal-dead path; behaviours sampled by TLC -simulate are replayed on the real LockDir code "
               "with the on-disk state and every object's is_held compared to the spec after each operation, and the "
               "mutual-exclusion / break-only-examined / steal-only-dead monitors evaluated on the real execution.",
    level_note="Interleaving granularity = transport operation (the atomic unit the lock protocol relies on); memory "
               "transport in quick, local disk added in thorough. Processes are threads sharing one pid, so only a "
               "pre-seeded holder with a reaped pid is 'known dead'. Trusted: dromedary transports, TLC.",
)

BASE = {"Lockers": ["x", "y"], "Breakers": ["a"], "MaxAttempts": 2, "Steal": False, "DeadStart": False,
        "MaxFaults": 0, "MaxCrashes": 0}
STEAL = {"Lockers": ["x", "y"], "Breakers": [], "MaxAttempts": 2, "Steal": True, "DeadStart": True,
         "MaxFaults": 0, "MaxCrashes": 0}
STEALB = {"Lockers": ["x", "y"], "Breakers": ["a"], "MaxAttempts": 1, "Steal": True, "DeadStart": True,
          "MaxFaults": 0, "MaxCrashes": 0}
BIG = {"Lockers": ["x", "y", "z"], "Breakers": ["a"], "MaxAttempts": 2, "Steal": False, "DeadStart": False,
       "MaxFaults": 0, "MaxCrashes": 0}


def run(ctx):
    env.init()
    safe = lc.SAFE + ("FailedNotHeld",)

    def monitors(kind, detail, schedule):
        site = {"mutex": "two-live-holders", "wrong_break": "force_break/rename", "steal_not_dead": "_handle_lock_contention",
                "live_lock_removed_without_break": "non-break-operation",
                "failed_attempt_holds": "_attempt_lock", "unrecoverable": "crash-state"}[kind]
        if kind == "wrong_break":
            if detail.get("force_break_arg") != detail["examined"]:
                # force_break was CALLED for a holder other than the one the user / policy examined
                sig = "break-requested-for-unexamined-holder:break_lock-or-steal:holder-changed-after-examination"
            elif detail["examined"] is not None and detail["removed"] != detail["examined"]:
                sig = "break-removed-unexamined-lock:%s:examined-holder-released-and-later-holder-acquired" % site
            else:
                sig = "wrong_break:" + site
        else:
            sig = "%s:%s" % (kind, site)
        ctx.violation(sig, "%s %s" % (kind, detail), {"params": cur[0], "schedule": schedule, "detail": detail})

    cur = [None]
    # ---- E1: the design, all interleavings
    for name, params, wit in (("base", BASE, ("WitnessBothTried", "WitnessBroke", "WitnessBrokenLive")),
                              ("steal", STEAL, ("WitnessStole",)), ("steal+breaker", STEALB, ())):
        tlc.check(ctx, "LockDir", cfg_text=lc.cfg_text(params, safe), label="MC " + name)
        for w in wit:
            tlc.check(ctx, "LockDir", cfg_text=lc.cfg_text(params, (w,)), expect_violation=w, label="witness " + w)
    if not ctx.quick:
        tlc.check(ctx, "LockDir", cfg_text=lc.cfg_text(BIG, safe), label="MC 3 lockers + breaker", timeout=1800)
    # ---- the clause the code is known to violate: TLC's counter-example, replayed on the real code
    res = tlc.run(ctx, "LockDir", cfg_text=lc.cfg_text(BASE, ("BreakOnlyExamined",)), allow_violation=True)
    if res["violated"] == "BreakOnlyExamined":
        cur[0] = BASE
        n0 = len(ctx.violations)
        lc.replay(ctx, BASE, res["trace"], monitors)
        ctx.count(1, traces=1)
        ctx.nontrivial("CE-BreakOnlyExamined")
        if len(ctx.violations) == n0:
            ctx.drift("TLC's BreakOnlyExamined counter-example does not reproduce on the real code "
                      "(the spec's FbRename deviation may be out of date)")
    else:
        ctx.drift("spec no longer violates BreakOnlyExamined")
    # ---- E2: behaviours sampled by TLC, replayed on the real code
    plans = [("base", BASE, 120 if ctx.quick else 1500, 45), ("steal", STEAL, 60 if ctx.quick else 600, 40),
             ("steal+breaker", STEALB, 40 if ctx.quick else 400, 40)]
    if not ctx.quick:
        plans.append(("big", BIG, 600, 70))
    for name, params, num, depth in plans:
        behs, _ = tlc.simulate(ctx, "LockDir", cfg_text=lc.cfg_text(params, safe, view=False), num=num, depth=depth,
                               seed=ctx.seed + 1, label="simulate " + name)
        cur[0] = params
        for b in behs:
            n = lc.replay(ctx, params, b, monitors)
            ctx.count(1, traces=1)
            sched_ = tuple(tuple(x) for x in (tlc.tlaval.to_py(s["step"]) for _, s in b[1:]))
            if len({p for p, _ in sched_}) > 1:
                ctx.nontrivial((name, sched_))
        if behs:
            ctx.sample({"config": name, "schedule": [tlc.tlaval.to_py(s["step"]) for _, s in behs[0][1:]]})
    if not ctx.quick:
        behs, _ = tlc.simulate(ctx, "LockDir", cfg_text=lc.cfg_text(BASE, safe, view=False), num=200, depth=45,
                               seed=ctx.seed + 7, label="simulate base (memory transport)")
        cur[0] = BASE
        for b in behs:
            # MemoryTransport.rename accepts a missing source: conformance drift is expected there and ignored,
            # the property monitors still apply
            d0 = ctx.cov["drift"], list(ctx.drifts)
            lc.replay(ctx, BASE, b, monitors, backing_url="memory")
            ctx.cov["drift"], ctx.drifts = d0[0], d0[1]
            ctx.count(1, traces=1)
    # ---- E3: random schedules driven from python on the real code, validated by TLC against the spec
    e3_traces(ctx, monitors=monitors, cur=cur, monitors_sig=lambda inv: {
        "BreakOnlyExamined": "break-removed-unexamined-lock:force_break/rename:examined-holder-released-and-later-holder-acquired",
    }.get(inv, "trace-invariant:" + inv), plans=[(BASE, 150 if ctx.quick else 3000), (STEALB, 50 if ctx.quick else 600)]
        + ([] if ctx.quick else [(BIG, 1500)]))
    ctx.rule("schedules = TLC -simulate behaviours of specs/LockDir.tla (each step one transport operation of one "
             "process) + TLC's counter-example for BreakOnlyExamined; non-trivial = at least two processes interleave")
    ctx.assume("threads model processes; exactly one runs at a time; interleaving points are transport operations")


def e3_traces(ctx, monitors_sig, plans, p_crash=0.0, p_fault=0.0, only=None, monitors=None, cur=None):
    import copy
    for params, n in plans:
        if cur is not None:
            cur[0] = params
        trs = [lc.random_run(ctx, ctx.rng, params, p_crash=p_crash, p_fault=p_fault, monitors=monitors) for _ in range(n)]
        acc, rej = lc.validate_traces(ctx, params, trs)
        ctx.count(n, traces=n)
        for tid, viol in acc.items():
            for inv in viol:
                if only is None or inv in only:
                    ctx.violation(monitors_sig(inv), "TLC: invariant %s violated on a recorded execution" % inv,
                                  {"params": params, "trace": trs[tid - 1]})
        for tid, at in rej.items():
            ev = trs[tid - 1]["events"]
            ctx.drift("recorded execution is not a behaviour of LockDir.tla: first unmatched event #%d %s" % (
                at, ev[at - 1] if 0 < at <= len(ev) else None), {"params": params, "trace": trs[tid - 1]})
        for t in trs[:50]:
            ctx.nontrivial(tuple((e["p"], e["op"]) for e in t["events"]))
        # binding self-test: a corrupted field and a dropped state-changing event must be rejected
        good = next((t for t in trs if sum(e["op"] == "rename" for e in t["events"]) >= 2), None)
        if good is not None:
            bad1 = copy.deepcopy(good)
            k = next(i for i, e in enumerate(bad1["events"]) if e["op"] == "rename")
            bad1["events"][k]["held"] = ["zz", 9]
            bad2 = copy.deepcopy(good)
            del bad2["events"][k]
            a2, r2 = lc.validate_traces(ctx, params, [bad1, bad2], label="binding self-test")
            if a2:
                ctx.machinery("binding self-test: corrupted traces %s were accepted" % sorted(a2))
    ctx.sample({"recorded_trace_events": [(e["p"], e["op"]) for e in trs[0]["events"][:25]]})
