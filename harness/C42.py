"""C42 — exports contain exactly the exported tree."""
import hashlib
import os
import shutil
import tarfile
import time
import zipfile

from vf import env, table, core

META = dict(
    property_id="C42", level="model_checking", design_ref="DESIGN.md §4 C42",
    technique="TLA+ definition of Subtree / Prefix / per-format representation (TreeExport.tla); TLC enumerates all trees "
              "over the unusual-name namespace x (root, subdir, per_file_timestamps) options and proves the operators' "
              "algebra; sampled (quick) / all-option (thorough) cases are committed to a real branch, exported by "
              "breezy.export.export in dir/tar/tgz/tbz2/txz/zip, re-read with os.walk / tarfile / zipfile, and the "
              "recorded member sets are judged by TLC against Expected = Repr(fmt, Prefix(root, Subtree(tree, subdir)))",
    level_text="The oracle is declarative (three set comprehensions) and is the property's own statement; TLC checks it is "
               "well-formed on the whole bounded space (Subtree composes, Prefix composes, Subtree undoes Prefix, nothing "
               "below the sub-directory is left out, representations do not collide). Archive byte formats are not "
               "modelled: fidelity of the encoders is established by executing the real exporter and independent readers "
               "(tarfile, zipfile, the file system) on every replayed case - enumeration + law, as DESIGN §6 says.",
    level_note="Trusted: python's tarfile / zipfile / gzip / bz2 / lzma readers, the local file system, TLC and the JSON "
               "bridge. Revision trees of 2a branches only; content filters / keyword expansion off; nested trees off. "
               "Modification times (per_file_timestamps) are judged as model conformance (drift), not as property.",
)

T_BASE = 1000000000          # even: zip stores 2-second resolution
CONTENT = {
    "a": b"A\n", "sp ace": b"", "é": b"\x00\xff\r\n\xc3\xa9 binary", ".hidden": b"hidden line\n" * 6000,
    "deep": b"deep as a file\n", "deep/nest é": "café\n".encode("utf-8"), "deep/nest": b"nest as a file\r\n",
    "deep/nest/f": b"F\n" * 700,
}
SHA = {hashlib.sha1(v).hexdigest(): "c:" + k for k, v in CONTENT.items()}
EXT = {"dir": ".d", "tar": ".tar", "tgz": ".tar.gz", "tbz2": ".tar.bz2", "txz": ".tar.xz", "zip": ".zip"}
TARMODE = {"tar": "r:", "tgz": "r:gz", "tbz2": "r:bz2", "txz": "r:xz"}


def val_of(data):
    tok = SHA.get(hashlib.sha1(data).hexdigest())
    if tok is not None:
        return tok
    try:
        return "raw:" + data[:200].decode("utf-8")
    except UnicodeDecodeError:
        return "raw:" + data[:200].decode("latin-1")


class Fixture:
    """One on-disk standalone tree per worker; every case adds two revisions: `old` (the tree with a stale text in the
    touched file) and `tip` (the tree itself)."""

    def __init__(self, workdir):
        from breezy import controldir
        self.root = os.path.join(workdir, "wt")
        self.wt = controldir.ControlDir.create_standalone_workingtree(
            self.root, format=controldir.format_registry.make_controldir("2a"))
        self.n = 0

    def _sync(self, entries, stale):
        wt = self.wt
        with wt.lock_tree_write():
            old = [p for p, ie in wt.iter_entries_by_dir() if p]
            if old:
                wt.unversion(old)
            for n in os.listdir(self.root):
                if n == ".bzr":
                    continue
                p = os.path.join(self.root, n)
                if os.path.isdir(p) and not os.path.islink(p):
                    shutil.rmtree(p)
                else:
                    os.unlink(p)
            paths = []
            for e in sorted(entries, key=lambda e: len(e["path"])):
                rel = "/".join(e["path"])
                p = os.path.join(self.root, rel)
                if e["kind"] == "directory":
                    os.mkdir(p)
                elif e["kind"] == "symlink":
                    os.symlink(e["val"], p)
                else:
                    with open(p, "wb") as f:
                        f.write(b"old text\n" if rel == stale else CONTENT[rel])
                    os.chmod(p, 0o755 if e["exec"] else 0o644)
                paths.append(rel)
            if paths:
                wt.add(paths)

    def commit_case(self, entries):
        touched = ["/".join(e["path"]) for e in entries if e["rev"] == "tip"]
        self.n += 1
        t_old, t_tip = T_BASE + 10 * self.n, T_BASE + 10 * self.n + 4
        self._sync(entries, touched[0] if touched else None)
        self.wt.commit("old %d" % self.n, timestamp=t_old, timezone=0)
        if touched:
            with open(os.path.join(self.root, touched[0]), "wb") as f:
                f.write(CONTENT[touched[0]])
        tip = self.wt.commit("tip %d" % self.n, timestamp=t_tip, timezone=0)
        return self.wt.branch.repository.revision_tree(tip), t_tip


def mt_class(mtime, t_tip):
    m = int(mtime)
    return "tip" if m == t_tip else ("old" if T_BASE <= m < t_tip else "other")


def read_dir(dest, t_tip):
    ents = []
    for d, dirs, files in os.walk(dest):
        for n in dirs + files:
            p = os.path.join(d, n)
            rel = os.path.relpath(p, dest).split(os.sep)
            if os.path.islink(p):
                ents.append({"path": rel, "kind": "symlink", "val": os.readlink(p), "exec": False, "mt": "na"})
            elif os.path.isdir(p):
                ents.append({"path": rel, "kind": "directory", "val": "", "exec": False, "mt": "na"})
            else:
                st = os.stat(p)
                with open(p, "rb") as f:
                    data = f.read()
                ents.append({"path": rel, "kind": "file", "val": val_of(data), "exec": bool(st.st_mode & 0o100),
                             "mt": mt_class(st.st_mtime, t_tip)})
    return ents


def read_tar(dest, fmt, t_tip):
    ents = []
    with tarfile.open(dest, TARMODE[fmt]) as tf:
        for m in tf.getmembers():
            rel = m.name.rstrip("/").split("/")
            mt = mt_class(m.mtime, t_tip)
            if m.type == tarfile.REGTYPE:
                ents.append({"path": rel, "kind": "file", "val": val_of(tf.extractfile(m).read()),
                             "exec": bool(m.mode & 0o100), "mt": mt})
            elif m.type == tarfile.DIRTYPE:
                ents.append({"path": rel, "kind": "directory", "val": "", "exec": False, "mt": mt})
            elif m.type == tarfile.SYMTYPE:
                ents.append({"path": rel, "kind": "symlink", "val": m.linkname, "exec": False, "mt": mt})
            else:
                ents.append({"path": rel, "kind": "other:%r" % m.type, "val": "", "exec": False, "mt": mt})
    return ents


def read_zip(dest, t_tip):
    ents = []
    with zipfile.ZipFile(dest) as z:
        if z.testzip() is not None:
            raise ValueError("corrupt zip member")
        for i in z.infolist():
            mt = mt_class(time.mktime(i.date_time + (0, 0, -1)), t_tip)
            mode = i.external_attr >> 16
            if i.filename.endswith("/"):
                ents.append({"path": i.filename.rstrip("/").split("/"), "kind": "directory", "val": "", "exec": False, "mt": mt})
            else:
                ents.append({"path": i.filename.split("/"), "kind": "file", "val": val_of(z.read(i)),
                             "exec": bool(mode & 0o100), "mt": mt})
    return ents


def export_one(tree, t_tip, fmt, opt, dest_base, scratch):
    from breezy import export
    dest = os.path.join(scratch, dest_base + EXT[fmt])
    root = "/".join(opt["root"]["segs"]) if opt["root"]["given"] else None
    sub = opt["subdir"]
    subdir = ("/".join(sub["segs"]) + ("/" if sub["slash"] else "")) if sub["given"] else None
    try:
        export.export(tree, dest, fmt, root, subdir, per_file_timestamps=opt["pft"])
        if fmt == "dir":
            return "", read_dir(dest, t_tip)
        if fmt == "zip":
            return "", read_zip(dest, t_tip)
        return "", read_tar(dest, fmt, t_tip)
    except Exception as e:          # the export (or reading back what it wrote) failed: law `completes`
        return "%s: %s" % (type(e).__name__, str(e)[:120]), []
    finally:
        if os.path.isdir(dest) and not os.path.islink(dest):
            shutil.rmtree(dest)
        elif os.path.lexists(dest):
            os.unlink(dest)


def shape_class(tree, opt):
    """Input class for signatures: no concrete names."""
    sub = opt["subdir"]
    kinds = {"/".join(e["path"]): e for e in tree}
    if not sub["given"] or not sub["segs"]:
        s = "whole"
    else:
        e = kinds.get("/".join(sub["segs"]))
        s = "subdir-missing" if e is None else ("subdir-is-" + e["kind"])
    r = "root-default" if not opt["root"]["given"] else ("root-empty" if not opt["root"]["segs"] else "root-nested")
    return s + "," + r


def replay(sub, chunk):
    fx = Fixture(sub.workdir)
    scratch = sub.tmp("out")
    rows = []
    for tree, opts, fmts_for, dest in chunk:
        rt, t_tip = fx.commit_case(tree)
        for opt, fmts in zip(opts, fmts_for):
            groups = []
            for fmt in fmts:
                err, ents = export_one(rt, t_tip, fmt, opt, dest, scratch)
                key = (err, sorted(ents, key=lambda e: e["path"]))
                for g in groups:
                    if g["_key"] == key:
                        g["fmts"].append(fmt)
                        break
                else:
                    groups.append({"_key": key, "fmts": [fmt], "err": err, "n": len(ents), "ents": ents})
                sub.count(1)
            for g in groups:
                del g["_key"]
            rows.append({"c": {"tree": tree, "o": opt, "dest": dest, "fmts": fmts, "enc": "é"}, "impl": groups})
            if len(tree) >= 2:
                sub.nontrivial(repr((sorted((e["path"], e["kind"], e["exec"]) for e in tree), opt)))
    if rows and len(sub.cov["samples"]) < 1:
        sub.sample(max(rows, key=lambda r: len(r["c"]["tree"]) + 3 * len(r["c"]["o"]["subdir"]["segs"])))
    for row, failed, drift in table.judge(sub, "TreeExportTrace", rows, workers=1, chunk=4000):
        c = row["c"]
        if any(f.startswith("machinery") for f in failed):
            sub.machinery("TLC did not read the rows as UTF-8")
        for lf in failed:
            law, fmt = lf.split("@")
            g = next((g for g in row["impl"] if fmt in g["fmts"]), None)
            what = shape_class(c["tree"], c["o"])
            if law == "exec":
                what = "executable-file"
            elif law == "completes":
                what += "," + (g["err"].split(":")[0] if g else "not-run")
            sub.violation("%s:%s:%s" % (law, fmt, what),
                          "export format=%s opts=%s of %s: law %s fails, found %s" % (
                              fmt, c["o"], [("/".join(e["path"]), e["kind"], e["exec"]) for e in c["tree"]], law,
                              (g["err"] or [("/".join(e["path"]), e["kind"], e["val"][:30], e["exec"]) for e in g["ents"]]) if g else None),
                          {"tree": c["tree"], "opts": c["o"], "format": fmt, "found": g})
        if drift and not failed:
            sub.drift("mtime classes differ from the per_file_timestamps rule for %s" % (c["o"],), row)


def run(ctx):
    env.init()
    # the specification names non-ASCII paths: TLC must read its modules and the JSON bridge as UTF-8 (the Trace module
    # checks it did: every row carries enc = "e-acute")
    os.environ["JAVA_TOOL_OPTIONS"] = "-Dfile.encoding=UTF-8"
    data = table.generate(ctx, "TreeExportGen", {"Tier": '"%s"' % ctx.tier},
                          witnesses=("WitnessSingle", "WitnessEmpty", "WitnessZipLnk"))
    trees, opts, dest, formats = data["trees"], data["opts"], data["dest"], list(data["formats"])
    if not trees or not opts:
        ctx.machinery("generator exported no cases")
    trees = sorted((sorted(t, key=lambda e: e["path"]) for t in trees), key=lambda t: repr([(e["path"], e["kind"], e["exec"]) for e in t]))
    opts = sorted(opts, key=lambda o: repr(sorted(o.items())))
    if not any("é s" in o["root"]["segs"] for o in opts):
        ctx.machinery("generator output lost the non-ASCII name")
    n = (150 if ctx.quick else 3000) if ctx.tier != "tiny" else 14
    biggest = sorted(trees, key=lambda t: -len(t))[:6]
    rest = [t for t in trees if t not in biggest]
    picked = biggest + ctx.rng.sample(rest, min(n - len(biggest), len(rest)))
    subdirs = sorted({repr(sorted(o["subdir"].items())) for o in opts})
    combos = sorted({repr((sorted(o["root"].items()), o["pft"])) for o in opts})
    jobs = []
    fast = [f for f in formats if f != "txz"]
    for k, t in enumerate(picked):
        if ctx.quick:
            # every sub-directory selection, the (root, per_file_timestamps) combinations rotating
            mine = []
            for j, sd in enumerate(subdirs):
                want = combos[(k + j) % len(combos)]
                mine.append(next(o for o in opts if repr(sorted(o["subdir"].items())) == sd
                                 and repr((sorted(o["root"].items()), o["pft"])) == want))
        else:
            mine = opts
        # xz compression costs ~100x the others: one option per tree
        fmts_for = [fast + (["txz"] if j == k % len(mine) else []) for j in range(len(mine))]
        jobs.append((t, mine, fmts_for, dest))
    ctx.rule("trees: all %d trees over {a, 'sp ace', e-acute, .hidden, deep/, deep/'nest e-acute', deep/nest/, deep/nest/f} "
             "x {absent, file, exec file, symlink, directory} in the tier's lattice, enumerated and law-checked by TLC; replayed: "
             "%d of them (the 6 largest + seeded sample), each with %s, formats dir/tar/tgz/tbz2/zip (+txz for one option per "
             "tree); non-trivial = tree with >= 2 entries; distinct = (tree, options)"
             % (len(trees), len(picked), "every sub-directory selection (root / timestamps options rotating)" if ctx.quick
                else "all %d option combinations" % len(opts)))
    ctx.cov["exhaustive"] = False
    ctx.cov["trees_enumerated"] = len(trees)
    ctx.cov["options_enumerated"] = len(opts)
    core.fork_map(ctx, replay, jobs, chunks_per_proc=1)
