"""C25 — log lists the requested history completely and consistently."""
from vf import env, core
from harness import history_common as hc

META = dict(
    property_id="C25", level="model_checking", design_ref="DESIGN.md §4 C25",
    technique="TLA+ transcription of log.reverse_by_depth / _rebase_merge_depth and declarative definitions of what a "
              "log request denotes (History.tla), model-checked by TLC over every branch of the bounded universe; the "
              "TLC-enumerated branches, requests and file-content models are replayed through the real "
              "_DefaultLogGenerator on real branches (2a, pack-0.92, RemoteBranch) and TLC judges the recorded listings",
    level_text="TLC enumerates every graph (<= 2 ordered parents, optionally a ghost merged parent) with every covering "
               "tip, every request over direction x levels {0,1,2} x limit {none,1,2} x every mainline range [a, b], and "
               "for the per-file clause every set of touching revisions (closed under forced merge resolutions). On the "
               "specification TLC proves that the transcribed reverse_by_depth is an involutive permutation that reverses "
               "the mainline and keeps merged revisions behind their merging revision, and that the file model is "
               "well-defined. Each exported branch is built for real (file contents following the model) and every "
               "request is run through _DefaultLogGenerator.iter_log_revisions; TLC then checks: all levels = the "
               "ancestry, each revision once, with the revno and depth of iter_merge_sorted_revisions; forward = "
               "_rebase_merge_depth(reverse_by_depth(reverse)); levels=1 = the left-hand history (of the range); a "
               "range lists exactly the revisions it denotes; levels=k / limit=l are the corresponding restriction; for a "
               "file, the mainline revisions are the same with the per-file graph and with delta matching.",
    level_note="Merge-sorted order and dotted numbers are taken from the branch (vcsgraph merge_sort is outside /repo), so "
               "listings are checked relationally, not predicted, except levels=1, ranges (as sets) and the per-file "
               "mainline. File contents: a touching revision writes content unique to it; a non-touching revision takes "
               "the per-file head of its parents and must touch when there are several (no reverts, no identical "
               "changes on two sides), and the file is introduced once. Exhaustive histories have <= 6 revisions; "
               "every run adds a seeded long history (40 revisions; thorough: 30, 40, 50) so that listings cross the "
               "generator's batch boundaries (heads as tips, a handful of range ends, three files), the thorough tier "
               "also seeded random ones with 7-9. Trusted: BranchBuilder/commit, vcsgraph, TLC, the JSON bridge.",
)


def _rows(it, n):
    out = []
    for rev_id, revno, depth in it:
        out.append([hc.num(rev_id, n), [int(x) for x in str(revno).split(".")] if revno is not None else [],
                    depth if depth is not None else -1])
    return out


def run_request(b, q, paths, n):
    from breezy import log
    from breezy.revisionspec import RevisionSpec
    dr, levels, limit, a, bb, f, deltas = q
    kw = dict(direction=dr, levels=levels, limit=limit or None)
    if a:
        kw["start_revision"] = RevisionSpec.from_string("%d" % a).in_history(b)
        kw["end_revision"] = RevisionSpec.from_string("%d" % bb).in_history(b)
    if f:
        kw["specific_files"] = [paths[f - 1]]
        kw["_match_using_deltas"] = bool(deltas)
    rq = log._apply_log_request_defaults(log.make_log_request_dict(**kw))
    try:
        gen = log._DefaultLogGenerator(b, **rq)
        return {"q": q, "rows": _rows(((lr.rev.revision_id, lr.revno, lr.merge_depth) for lr in gen.iter_log_revisions()), n)}
    except core.MachineryError:
        raise
    except Exception as e:  # noqa: BLE001
        return {"q": q, "rows": [[hc.ERR, [], 0]], "exc": hc.exc_name(e)}


def observe(h, area, kind, case, files, rng):
    c = case["c"]
    t, n = c["t"], h.n
    b = area.open(area.branch(t), kind)
    paths = ["g%d" % (j + 1) for j in range(len(files))]
    reqs = [list(q) for q in case["reqs"]]
    for j, ver in enumerate(files, 1):
        if ver[t - 1]:                          # the file exists at the tip
            reqs += [[dr, lv, 0, 0, 0, j, dl] for dr in ("reverse", "forward") for lv in (0, 1) for dl in (0, 1)]
    rng.shuffle(reqs)
    with b.lock_read():
        ms = [[hc.num(r, n), list(revno), d] for r, d, revno, _eom in b.iter_merge_sorted_revisions()]
        logs = [run_request(b, q, paths, n) for q in reqs]
    return {"ms": ms, "logs": logs}


def _replay(sub, groups):
    for kind, nfiles, group in groups:
        par = [list(ps) for ps in group[0]["c"]["par"]]
        allfiles = group[0]["files"]
        idx = sorted(sub.rng.sample(range(len(allfiles)), min(nfiles, len(allfiles))))
        files = [allfiles[i] for i in idx]
        h = hc.Hist(sub, par, hc.FORMATS[kind], files=files)
        try:
            area = h.area(everything=True)
            try:
                for case in group:
                    ob = observe(h, area, kind, case, files, sub.rng)
                    c = case["c"]
                    sub.cov.setdefault("_collect", []).append(("row", {"c": c, "kind": kind, "files": files, "ob": ob}))
                    sub.count(len(ob["logs"]))
                    if any(d > 0 for _r, _n, d in ob["ms"]):
                        for lg in ob["logs"]:
                            sub.nontrivial((kind, tuple(map(tuple, par)), c["t"], tuple(lg["q"][:5]),
                                            tuple(files[lg["q"][5] - 1]) if lg["q"][5] else (), lg["q"][6]))
            finally:
                area.close()
        finally:
            h.close()


def _qtext(q, files):
    dr, levels, limit, a, b, f, deltas = q
    return "log %s levels=%d limit=%s range=%s file=%s" % (
        dr, levels, limit or "none", "%d..%d" % (a, b) if a else "all",
        "none" if not f else "versions %s via %s" % (files[f - 1], "deltas" if deltas else "per-file graph"))


def _file_sig(row, lg):
    """clause : matching algorithm : direction : input class (no ids)"""
    q = lg["q"]
    ver = row["files"][q[5] - 1]
    oldest = hc.lefthand(row["c"]["par"], row["c"]["t"])[0]
    klass = "raises-" + lg["exc"] if "exc" in lg else (
        "file-present-in-oldest-revision" if ver[oldest - 1] else "file-absent-in-oldest-revision")
    return "law:file:%s:%s:%s" % ("deltas" if q[6] else "per-file-graph", q[0], klass)


def _falsified(rows):
    """Binding self-test rows: a merged revision dropped from the full listing, a forward listing left in reverse order,
    a mainline listing with a wrong revno."""
    import copy

    def find(r, q):
        return next(lg for lg in r["ob"]["logs"] if lg["q"] == q)
    r = next((r for r in rows if sum(1 for x in r["ob"]["ms"] if x[2] > 0) >= 1 and sum(1 for x in r["ob"]["ms"] if x[2] == 0) >= 2), None)
    if r is None:
        return []
    a, b, c = copy.deepcopy(r), copy.deepcopy(r), copy.deepcopy(r)
    full = find(a, ["reverse", 0, 0, 0, 0, 0, 1])["rows"]
    full.remove(next(x for x in full if x[2] > 0))
    find(b, ["forward", 0, 0, 0, 0, 0, 1])["rows"] = list(find(b, ["reverse", 0, 0, 0, 0, 0, 1])["rows"])
    find(c, ["reverse", 1, 0, 0, 0, 0, 1])["rows"][0][1][0] += 1
    return [("complete", a), ("forward", b), ("mainline", c)]


def run(ctx):
    env.init()
    hc.preload()
    off = ctx.seed
    L = ("LawsHoldOnSpec",)
    if ctx.quick:
        plan = [("<=4 revisions, ghost + one long history (40 revisions)", hc.gen_cfg(1, 4, 2, 1, 4, off), L, True, True,
                 {"extra": [hc.long_graph(ctx.rng, 40)]}),
                ("5 revisions", hc.gen_cfg(5, 5, 2, 0, 40, off), L, True, False)]
        remote_every, pack_every, nfiles = 30, 8, 3
    else:
        plan = [("<=4 revisions, ghost + long histories (30, 40, 50 revisions)", hc.gen_cfg(1, 4, 2, 1), L, True, True,
                 {"extra": [hc.long_graph(ctx.rng, n) for n in (30, 40, 50)]}),
                ("5 revisions", hc.gen_cfg(5, 5, 2, 0, 3, off), L, True, False),
                ("5 revisions, ghost", hc.gen_cfg(5, 5, 2, 1, 16, off), L, True, False),
                ("<=4 revisions, 3 parents, ghost", hc.gen_cfg(3, 4, 3, 1, 3, off), L, True, False),
                ("6 revisions", hc.gen_cfg(6, 6, 2, 0, 80, off), L, True, False),
                ("30 seeded random graphs, 7-9 revisions, <= 3 parents, ghost", hc.gen_cfg(7, 9, 3, 1), L, True, False,
                 {"graphs": hc.random_graphs(ctx.rng, 30, 7, 9)})]
        remote_every, pack_every, nfiles = 25, 6, 8
    cases = hc.generate(ctx, "HistoryC25Gen", plan)
    groups = hc.group_by_graph(cases)
    jobs = [("2a", nfiles, g) for g in groups]
    long_groups = [g for g in groups if len(g[0]["c"]["par"]) > 12]
    if not long_groups:
        ctx.machinery("no long history among the exported cases")
    short = [g for g in groups if len(g[0]["c"]["par"]) <= 12]
    jobs += [("remote", 2, g) for g in short[ctx.seed % remote_every::remote_every]]
    jobs += [("pack", nfiles, g) for g in short[(ctx.seed + 1) % pack_every::pack_every] + long_groups]
    before = len(ctx.collected)
    core.fork_map(ctx, _replay, jobs)
    rows = hc.collect_rows(ctx, before)
    ctx.cov["replayed"] = {"graphs": len(groups), "branches": len(cases), "rows": len(rows),
                           "requests": sum(len(r["ob"]["logs"]) for r in rows),
                           "by_kind": {k: sum(1 for r in rows if r["kind"] == k) for k in ("2a", "remote", "pack")}}
    for r in rows:
        if len(r["c"]["par"]) >= 5 and sum(1 for x in r["ob"]["ms"] if x[2] > 0) >= 2:
            full = {tuple(lg["q"][:2]): lg["rows"] for lg in r["ob"]["logs"] if lg["q"][2:] == [0, 0, 0, 0, 1]}
            ctx.sample({"graph": r["c"]["par"], "tip": r["c"]["t"], "kind": r["kind"],
                        "reverse all levels [rev, revno, depth]": full.get(("reverse", 0)),
                        "forward all levels": full.get(("forward", 0))}, limit=2)
    for row, v in hc.judge_with_selftest(ctx, "HistoryC25Trace", rows, _falsified(rows), chunk=150):
        c = row["c"]
        logs = row["ob"]["logs"]
        for law in v["failed"]:
            if law == "file":
                # the two algorithms disagree on these requests; the side that also differs from the content model's
                # prediction is the one reported (both, if both do)
                blamed = [k for k in v["badfile"] if k in v["drift"]] or list(v["badfile"])
                for k in blamed:
                    lg = logs[k - 1]
                    other = next((x for x in logs if x["q"][:6] == lg["q"][:6] and x["q"][6] != lg["q"][6]), None)
                    ctx.violation(_file_sig(row, lg) if k in v["drift"] else "law:file:unattributed",
                                  "%s branch, graph %s, tip %s, file with versions %s: %s lists %s%s but the other "
                                  "algorithm lists %s" % (row["kind"], c["par"], c["t"], row["files"][lg["q"][5] - 1],
                                                          _qtext(lg["q"], row["files"]), lg["rows"],
                                                          " (%s)" % lg["exc"] if "exc" in lg else "",
                                                          other and other["rows"]),
                                  {"c": c, "kind": row["kind"], "files": row["files"], "log": lg, "other": other,
                                   "ms": row["ob"]["ms"]})
                continue
            ctx.violation("law:%s:%s" % (law, "remote" if row["kind"] == "remote" else "local"),
                          "law %s fails on %s branch: graph %s, tip %s, files %s; merge-sorted %s; listings: %s" % (
                              law, row["kind"], c["par"], c["t"], row["files"], row["ob"]["ms"],
                              "; ".join("%s -> %s%s" % (_qtext(lg["q"], row["files"]), lg["rows"],
                                                       " (%s)" % lg["exc"] if "exc" in lg else "") for lg in logs)[:6000]),
                          {"c": c, "kind": row["kind"], "files": row["files"], "ob": row["ob"]})
        for k in v["drift"]:
            if k in v["badfile"]:
                continue
            lg = logs[k - 1]
            ctx.drift("%s branch, graph %s tip %s: %s -> %s differs from the specification's prediction" % (
                row["kind"], c["par"], c["t"], _qtext(lg["q"], row["files"]), lg["rows"]),
                {"c": c, "kind": row["kind"], "files": row["files"], "log": lg, "ms": row["ob"]["ms"]})
    ctx.rule("branches: graphs as in C21/C22 with a covering tip (the repository holds the whole graph); requests = "
             "HistoryC25Gen!ReqsOf (direction x levels 0/1/2 x limit none/1/2 x every mainline range) plus, for %d (2 on "
             "RemoteBranch) seeded-random files per graph out of all touch-set closures, both directions x levels 0/1 x "
             "both matching algorithms. Model-checked: %s. Replayed: the exported branches (Stride > 1 = every Stride-th "
             "of TLC's enumeration, offset by the seed); 2a all, RemoteBranch / pack-0.92 every %d-th / %d-th graph. "
             "Non-trivial = request on a branch that has merged revisions."
             % (nfiles, "; ".join("%s %s" % (p[0], p[1]) for p in plan), remote_every, pack_every))
    ctx.assume("file contents follow the model of History!VerOf (unique content per touching revision, natural merges)")
    ctx.assume("a file is introduced by one revision (file ids are minted by one add)")
