"""C35 — git object export is consistent and round-trips."""
import os
import shutil
import tempfile

from vf import env, core
from harness import channel_common as cc

META = dict(
    property_id="C35", level="model_checking", design_ref="DESIGN.md §4 C35",
    technique="TLA+ specification of lossy history channels as the identity on an abstract projection (HistoryChannel: "
              "abstract trees, DropEmptyDirs, id-free Projection/Unfold, laws GitRoundTrip / IncrementalEqualsScratch / "
              "GitOriginStable), model-checked by TLC on a generated universe of histories; the TLC-generated histories "
              "are materialised as real 2a branches, pushed to real bare git repositories with InterToLocalGitRepository, "
              "fetched back (in one round and in two rounds into the same repository), converted by BazaarObjectStore with "
              "warm / cold / no caches (tree SHAs and the emitted object sets with their references), built as git repositories with "
              "dulwich and imported; the recorded projections and SHAs are judged by TLC with the same law text",
    level_text="TLC checks on every reachable state of the generator (exhaustive for small constants, random walks for the "
               "larger ones) that DropEmptyDirs is well defined (declarative = operational, idempotent, keeps every file and "
               "symlink), that the projection is independent of revision numbers and file ids, that the ideal channel "
               "satisfies every law and that broken channels are rejected. The implementation is bound by replaying the "
               "generated histories through the real push / fetch / object-store code and letting TLC evaluate the laws on "
               "what was observed. Bounded small-scope exploration of an unbounded input space, hence model_checking level.",
    level_note="Histories <= 4 (quick) / 5 (thorough) revisions over <= 10 paths (depth 2; a non-ASCII name, names with a space, "
               "every fourth history a one-character name), files / symlinks / directories incl. empty and nested empty ones, "
               "executable bits, renames (also of directories), kind changes with and without a new file id, deletions, "
               "pointless commits, merges (<= 3 parents in thorough), several roots, tags. Native -> git uses the lossy push "
               "(`brz push --lossy` / dpush: the default mapping does not round-trip, a plain push raises "
               "NoRoundtrippingSupport), through InterToGitBranch.push and through InterToLocalGitRepository.fetch_refs; "
               "fetch back through Branch.pull and Repository.fetch, also in two rounds (first what one parent of the tip "
               "reaches, then the rest, by freshly opened objects into the same repository). The objects emitted revision by "
               "revision must be closed under references and be exactly the from-scratch objects. The replayed sample is "
               "stratified by situation classes over a pool of several hundred TLC walks. Repositories live on disk (tmpfs) so that each has its "
               "own git cache. SHA-1 values are opaque to the spec. Names git cannot hold ('.git') are outside the model. "
               "Violation signatures name the class of the delta-debugged minimal failing history; the python twin of the "
               "laws used for shrinking must agree with TLC on every row (else drift). Trusted: TLC, the JSON bridge, "
               "CommitBuilder (the fixture is re-read and compared with the abstract history), dulwich.",
)


# ----------------------------------------------------------------------------- git side helpers
def new_git(root, name):
    """Bare git repository on disk (tmpfs when available) -> (path, LocalGitBranch master)."""
    from breezy.git.dir import BareLocalGitControlDirFormat
    d = os.path.join(root, name)
    os.makedirs(d)
    gd = BareLocalGitControlDirFormat().initialize(d)
    return d, gd.create_branch()


def git_tree_entries(store, tree_sha, prefix=""):
    """Walk a git tree through any object store -> ([(path, mode, blob sha)], {tree and blob shas})."""
    import stat
    out, seen = [], {tree_sha}
    tree = store[tree_sha]
    if tree.id != tree_sha:
        raise AssertionError("object %s answers to %s" % (tree.id, tree_sha))
    for name, mode, sha in tree.iteritems():
        path = prefix + name.decode("utf-8")
        if stat.S_ISDIR(mode):
            sub, s2 = git_tree_entries(store, sha, path + "/")
            out.append((path, mode, None))
            out.extend(sub)
            seen |= s2
        else:
            blob = store[sha]
            if blob.id != sha:
                raise AssertionError("object %s answers to %s" % (blob.id, sha))
            out.append((path, mode, blob.data))
            seen.add(sha)
    return out, seen


def git_obs_tree(store, tree_sha):
    import hashlib
    import stat
    entries, _ = git_tree_entries(store, tree_sha)
    out = []
    for path, mode, data in entries:
        if stat.S_ISDIR(mode):
            k, c, x = "directory", 0, False
        elif stat.S_ISLNK(mode):
            k, c, x = "symlink", cc._INV_TARGET.get(data.decode("utf-8", "replace"), cc.UNKNOWN), False
        elif stat.S_ISREG(mode):
            k, c, x = "file", cc._INV_TEXT.get(hashlib.sha1(data).hexdigest(), cc.UNKNOWN), bool(mode & 0o111)
        else:
            k, c, x = "mode%o" % mode, cc.UNKNOWN, False
        out.append({"p": cc.abs_path(path), "k": k, "c": c, "x": x})
    return sorted(out, key=lambda e: e["p"])


def ref_tree_sha(t):
    """The git tree an abstract tree denotes, computed with dulwich only (no breezy): root tree sha."""
    from dulwich.objects import Blob, Tree
    import stat
    real = cc.real_tree([e for e in t])
    keep = {p for p, v in real.items() if v[0] != "directory"}
    dirs = {""} | {p for p, v in real.items() if v[0] == "directory" and any(q.startswith(p + "/") for q in keep)}

    def build(d):
        tr = Tree()
        for p, (k, c, x, _) in real.items():
            if os.path.dirname(p) != d:
                continue
            name = os.path.basename(p).encode("utf-8")
            if k == "file":
                tr.add(name, stat.S_IFREG | (0o755 if x else 0o644), Blob.from_string(c).id)
            elif k == "symlink":
                tr.add(name, stat.S_IFLNK, Blob.from_string(c.encode("utf-8")).id)
            elif p in dirs:
                tr.add(name, stat.S_IFDIR, build(p))
        return tr.id
    return build("").decode()


def fresh_store(repo, inject=True):
    from breezy.git.object_store import BazaarObjectStore
    from breezy.git.cache import DictBzrGitCache
    st = BazaarObjectStore(repo)
    if inject:
        c = DictBzrGitCache()
        st._cache = c
        st.start_write_group = c.idmap.start_write_group
        st.abort_write_group = c.idmap.abort_write_group
        st.commit_write_group = c.idmap.commit_write_group
    return st


# ----------------------------------------------------------------------------- experiments on one history
def tree_shas(repo, n):
    """Root tree SHA of every revision by the three computations of the property."""
    from breezy.git.object_store import _tree_to_objects
    from breezy.git.cache import DictBzrGitCache
    from breezy.git.mapping import default_mapping, extract_unusual_modes
    from dulwich.objects import Tree
    warm, coldp, scratch = [], [], []
    st = fresh_store(repo)
    with st.lock_read():
        st._update_sha_map()                                   # topological order: parents' blobs are in the cache
        for r in range(1, n + 1):
            sha = st._lookup_revision_sha1(cc.revid(r))
            warm.append(st[sha].tree.decode())
    for r in range(1, n + 1):
        st2 = fresh_store(repo)                                # parent trees, but nothing cached
        with st2.lock_read():
            rev = repo.get_revision(cc.revid(r))
            tree = repo.revision_tree(cc.revid(r))
            root = None
            for path, obj in st2._revision_to_objects(rev, tree, lossy=True):
                if path == "":
                    root = obj
            coldp.append(root.id.decode())
            root = None                                        # from scratch: no parents, empty cache
            for path, obj, _ in _tree_to_objects(tree, [], DictBzrGitCache().idmap, extract_unusual_modes(rev),
                                                 default_mapping.BZR_DUMMY_FILE):
                if path == "":
                    root = obj
            scratch.append((root.id if root is not None else Tree().id).decode())
    return warm, coldp, scratch


def _refs(obj):
    from dulwich.objects import Commit, Tree
    if isinstance(obj, Tree):
        return sorted({sha.decode() for _, _, sha in obj.iteritems()})
    if isinstance(obj, Commit):
        return sorted({obj.tree.decode()} | {p.decode() for p in obj.parents})
    return []


def object_sets(repo, n):
    """The objects BazaarObjectStore generates revision by revision (parents first, parent trees available, cache filled
    with what the earlier revisions produced -- what a push sends), and the blobs and trees of every revision converted
    alone from nothing.  -> (emit [[{id, refs}]], full [[id]], commits [id])"""
    from breezy.git.object_store import _tree_to_objects
    from breezy.git.cache import DictBzrGitCache
    from breezy.git.mapping import default_mapping, extract_unusual_modes
    from dulwich.objects import Commit, Tree
    emit, full, commits = [], [], []
    st = fresh_store(repo)
    with st.lock_read():
        st.start_write_group()
        try:
            for r in range(1, n + 1):
                rev = repo.get_revision(cc.revid(r))
                tree = st.tree_cache.revision_tree(cc.revid(r))
                updater = st._get_updater(rev)
                objs = {}
                for _path, obj in st._revision_to_objects(rev, tree, lossy=True, add_cache_entry=updater.add_object):
                    objs[obj.id.decode()] = _refs(obj)
                    if isinstance(obj, Commit):
                        commits.append(obj.id.decode())
                updater.finish()
                emit.append([{"id": i, "refs": rf} for i, rf in sorted(objs.items())])
                ids = set()
                for _path, obj, _ in _tree_to_objects(repo.revision_tree(cc.revid(r)), [], DictBzrGitCache().idmap,
                                                      extract_unusual_modes(rev), default_mapping.BZR_DUMMY_FILE):
                    ids.add(obj.id.decode())
                full.append(sorted(ids or {Tree().id.decode()}))
        except BaseException:
            st.abort_write_group()
            raise
        else:
            st.commit_write_group()
    return emit, full, commits


def native_kind(row):
    """Python twin of the C35 clauses on a native row (for minimisation only)."""
    o = row["o"]
    k = cc.py_failed(row["c"], o["rt"], meta=False, tags=False, count=False)
    if k is not None:
        return "rt:" + k
    s = o["sha"]
    if not s["ok"]:
        return "sha-error:%s@%s" % (s.get("exc"), s.get("site"))
    if s["warm"] != s["scratch"] or s["coldp"] != s["scratch"]:
        return "incremental"
    seen = set()
    for objs in s["emit"]:
        seen |= {x["id"] for x in objs}
        if any(not set(x["refs"]) <= seen for x in objs):
            return "closure"
    if len(s["emit"]) != len(s["full"]) or seen - set(s["commits"]) != {i for ids in s["full"] for i in ids}:
        return "objects"
    if s["staged"] != s["oneshot"]:
        return "staged"
    k = cc.py_failed(row["c"], o["rt2"], meta=False, tags=False, count=False)
    if k is not None:
        return "rt2:" + k
    return None


def git_class(m, cls):
    """Input class of a minimal failing history as git sees it.  Git has no file ids: 'modified', 'replaced by another
    object', 'kind or mode changed' are all the same event there -- the blob entry at a path differs from the first
    parent's.  When the failure needs the one-character name and the last revision changes what that path holds
    (a file or symlink before and after), that is the class."""
    if not m or not cls:
        return cls
    n = len(m["P"])
    if m["P"][n - 1]:                                          # an entry leaves (deleted / moved away) a directory that
        base = {e["o"]: e for e in m["T"][m["P"][n - 1][0] - 1]}   # is renamed in the same revision
        cur = {e["o"]: e for e in m["T"][n - 1]}
        for o, d in cur.items():
            b = base.get(o)
            if b and b["k"] == d["k"] == "directory" and b["p"] != d["p"]:
                for o2, e in base.items():
                    if o2 != o and e["p"][:len(b["p"])] == b["p"] and \
                            (o2 not in cur or cur[o2]["p"][:len(d["p"])] != d["p"]):
                        return "entry-leaves-renamed-directory" + ("+merge" if len(m["P"][n - 1]) > 1 else "")
    if "+one-character-name" not in cls:
        return cls
    if m["P"][n - 1]:
        base = {tuple(e["p"]): e for e in m["T"][m["P"][n - 1][0] - 1]}
        cur = {tuple(e["p"]): e for e in m["T"][n - 1]}
        b, c = base.get(("a",)), cur.get(("a",))
        if b and c and "directory" not in (b["k"], c["k"]) and (b["k"], b["c"], b["x"]) != (c["k"], c["c"], c["x"]):
            return "blob-at-one-character-path-changed"
    return cls


def git_kind(row):
    o = row["o"]
    if not o["ok"]:
        return "error:%s@%s" % (o.get("exc"), o.get("site"))
    return "origin" if o["exp"] != o["orig"] else None


def run_native(ctx, h, idx, root):
    names = cc.names_of(idx)
    row = native_once(ctx, h, idx, root, names)
    row["pyfail"] = native_kind(row)
    if row["pyfail"] is not None:
        row["min"], row["cls"], row["min_runs"] = cc.minimise_row(
            h, native_kind, lambda c, nm: native_once(ctx, c, idx, root, nm), names)
    return row


def run_git(ctx, h, idx, root):
    names = cc.names_of(idx)
    row = git_once(ctx, h, idx, root, names)
    row["pyfail"] = git_kind(row)
    if row["pyfail"] is not None:
        row["min"], row["cls"], row["min_runs"] = cc.minimise_row(
            h, git_kind, lambda c, nm: git_once(ctx, c, idx, root, nm), names)
    return row


def native_once(ctx, h, idx, root, names):
    from breezy import branch as B
    cc.set_names(names)
    n = len(h["P"])
    work = tempfile.mkdtemp(prefix="c35-", dir=root)
    b = cc.materialise(ctx, h, os.path.join(work, "src"))
    repo = b.repository
    o = {"rt": None, "rt2": None, "sha": None, "git": {"ok": False, "T": []}, "ref": [ref_tree_sha(t) for t in h["T"]]}
    diag = {}
    # ---- IncrementalEqualsScratch, object-store level
    sha = {"ok": True, "warm": [], "coldp": [], "scratch": [], "staged": [], "oneshot": [], "emit": [], "full": [],
           "commits": []}
    try:
        sha["warm"], sha["coldp"], sha["scratch"] = tree_shas(repo, n)
        sha["emit"], sha["full"], sha["commits"] = object_sets(repo, n)
    except Exception as e:  # noqa
        sha.update(cc.failure(e))
    # ---- push native -> git (what `brz push --lossy` / `brz dpush` do), one shot
    try:
        gpath, gb = new_git(work, "one.git")
        commits = None
        try:
            if idx % 2 == 0:
                res = b.push(gb, lossy=True)
                revidmap = res.revidmap
            else:                                              # repository level: InterToLocalGitRepository.fetch_refs
                from breezy.repository import InterRepository
                inter = InterRepository.get(repo, gb.repository)
                with repo.lock_read():
                    revidmap, _, _ = inter.fetch_refs(
                        lambda old: {b"refs/heads/master": (None, cc.revid(h["tip"]))}, lossy=True)
            commits = [revidmap[cc.revid(r)][0] for r in range(1, n + 1)]
            sha["oneshot"] = [c.decode() for c in commits]
        except Exception as e:  # noqa
            o["rt"] = dict(cc.failure(e), stage="push")
            o["rt2"] = dict(o["rt"])
        # ---- in two rounds: first what a parent of the tip reaches, then the rest -- pushed into a second git
        # repository (warm persistent cache) and, after each push, fetched into one and the same native repository by
        # freshly opened objects (another session): in round 2 one parent of a merge is already there
        if commits is not None:
            gpath2 = None
            try:
                b2 = cc.materialise(ctx, h, os.path.join(work, "src2"))
                gpath2, gb2 = new_git(work, "two.git")
                ps = h["P"][h["tip"] - 1]
                sit = cc.situations(h)                         # the parent that is already there when the tip arrives:
                left = ("tipmerge-left" in sit) if ("tipmerge-left" in sit) != ("tipmerge-right" in sit) else idx % 2 == 0
                cut = (ps[0] if left else ps[-1]) if ps else h["tip"]
                m1 = b2.push(gb2, lossy=True, stop_revision=cc.revid(cut)).revidmap
            except Exception as e:  # noqa
                gpath2 = None
                if sha["ok"]:
                    sha.update(cc.failure(e))
                o["rt2"] = dict(cc.failure(e), stage="push2")
            if gpath2 is not None:
                try:                                           # round 1 into a fresh native repository
                    cc.new_branch(os.path.join(work, "back2")).pull(B.Branch.open(gpath2))
                except Exception as e:  # noqa
                    o["rt2"] = dict(cc.failure(e), stage="fetch2")
                try:
                    m2 = B.Branch.open(os.path.join(work, "src2")).push(B.Branch.open(gpath2), lossy=True).revidmap
                    m1.update(m2)
                    # (a revision whose git commit another revision already produced -- same tree, parents and
                    # metadata -- is not transferred again and not in the map: ask the source's object store)
                    from breezy.git.object_store import get_object_store
                    st2 = get_object_store(B.Branch.open(os.path.join(work, "src2")).repository)
                    import dulwich.repo
                    g2 = dulwich.repo.Repo(gpath2)
                    try:
                        with st2.lock_read():
                            ids = [m1[cc.revid(r)][0] if cc.revid(r) in m1 else st2._lookup_revision_sha1(cc.revid(r))
                                   for r in range(1, n + 1)]
                        sha["staged"] = [i.decode() if i in g2.object_store else "absent" for i in ids]
                    finally:
                        g2.close()
                except Exception as e:  # noqa
                    if sha["ok"]:
                        sha.update(cc.failure(e))
                    o["rt2"] = o["rt2"] or dict(cc.failure(e), stage="push2")
                if o["rt2"] is None:
                    try:                                       # round 2, freshly opened objects
                        nb2, gbr2 = B.Branch.open(os.path.join(work, "back2")), B.Branch.open(gpath2)
                        if idx % 4 < 2:
                            nb2.pull(gbr2)
                            tip2 = nb2.last_revision()
                        else:
                            tip2 = gbr2.last_revision()
                            nb2.repository.fetch(gbr2.repository, revision_id=tip2)
                        o["rt2"] = cc.observe(nb2.repository, tip2, {})
                    except Exception as e:  # noqa
                        o["rt2"] = dict(cc.failure(e), stage="fetch2")
        o["sha"] = sha
        # ---- what the git repository holds (conformance; also closes over the pushed objects)
        if commits is not None:
            import dulwich.repo
            g = dulwich.repo.Repo(gpath)
            try:
                o["git"] = {"ok": True, "T": [git_obs_tree(g.object_store, g[c].tree) for c in commits]}
            except Exception as e:  # noqa
                o["git"] = dict(cc.failure(e), T=[])
            finally:
                g.close()
        # ---- fetch back into a fresh native repository
        if commits is not None:
            try:
                nb = cc.new_branch(os.path.join(work, "back"))
                gbr = B.Branch.open(gpath)
                if idx % 4 < 2:
                    nb.pull(gbr)
                    tip = nb.last_revision()
                else:
                    tip = gbr.last_revision()
                    nb.repository.fetch(gbr.repository, revision_id=tip)
                o["rt"] = cc.observe(nb.repository, tip, {})
            except Exception as e:  # noqa
                o["rt"] = dict(cc.failure(e), stage="fetch")
    finally:
        shutil.rmtree(work, ignore_errors=True)
    return {"kind": "native", "c": h, "o": o, "diag": diag, "idx": idx}


GIT_WHOS = [b"C <c@e.com>", b"Dee Dee <d@e.com>", b"nomail <nomail@localhost>", "Éric <e@e.com>".encode("utf-8")]


def build_git(path, h):
    """The git repository an abstract history denotes, built with dulwich only.  Returns per revision
    {commit, tree, objs}."""
    import stat
    from dulwich.objects import Blob, Commit, Tree
    from dulwich.repo import Repo
    os.makedirs(path)
    g = Repo.init_bare(path)
    info = []
    try:
        for r, ps in enumerate(h["P"], 1):
            real = cc.real_tree(h["T"][r - 1])
            keep = {p for p, v in real.items() if v[0] != "directory"}
            dirs = {p for p, v in real.items() if v[0] == "directory" and any(q.startswith(p + "/") for q in keep)}
            objs = set()

            def build(d):
                tr = Tree()
                for p, (k, c, x, _) in real.items():
                    if os.path.dirname(p) != d:
                        continue
                    name = os.path.basename(p).encode("utf-8")
                    if k == "directory":
                        if p in dirs:
                            tr.add(name, stat.S_IFDIR, build(p))
                        continue
                    bl = Blob.from_string(c if k == "file" else c.encode("utf-8"))
                    g.object_store.add_object(bl)
                    objs.add(bl.id)
                    tr.add(name, (stat.S_IFREG | (0o755 if x else 0o644)) if k == "file" else stat.S_IFLNK, bl.id)
                g.object_store.add_object(tr)
                objs.add(tr.id)
                return tr.id
            m = h["M"][r - 1]
            c = Commit()
            c.tree = build("")
            c.parents = [info[p - 1]["commit"].encode() for p in ps]
            c.author = c.committer = GIT_WHOS[m["who"]]
            c.author_time = c.commit_time = cc.TS0 + cc.TS_STEP * m["ts"]
            c.author_timezone = c.commit_timezone = cc.TZS[m["tz"]]
            c.message = cc.MSGS[m["msg"]].encode("utf-8")
            g.object_store.add_object(c)
            info.append({"commit": c.id.decode(), "tree": c.tree.decode(), "objs": sorted(x.decode() for x in objs)})
        g.refs[b"refs/heads/master"] = info[h["tip"] - 1]["commit"].encode()
        g.refs.set_symbolic_ref(b"HEAD", b"refs/heads/master")
        for t in h["tags"]:
            g.refs[b"refs/tags/" + t["name"].encode()] = info[t["rev"] - 1]["commit"].encode()
    finally:
        g.close()
    return info


def git_once(ctx, h, idx, root, names):
    """GitOriginStable: build with dulwich, import, let the object store of the imported repository reproduce the
    objects (and push them to a second git repository)."""
    from breezy import branch as B
    from breezy.git.mapping import default_mapping
    cc.set_names(names)
    work = tempfile.mkdtemp(prefix="c35g-", dir=root)
    o = {"ok": True, "orig": [], "exp": []}
    try:
        orig = build_git(os.path.join(work, "src.git"), h)
        o["orig"] = [dict(x, pushed=x["commit"]) for x in orig]
        try:
            nb = cc.new_branch(os.path.join(work, "imp"))
            gbr = B.Branch.open(os.path.join(work, "src.git"))
            if idx % 2 == 0:
                nb.pull(gbr)
            else:
                nb.repository.fetch(gbr.repository, revision_id=gbr.last_revision())
                nb.generate_revision_history(gbr.last_revision())
            repo = nb.repository
            st = fresh_store(repo, inject=(idx % 4 < 2))       # cold cache, or the cache the import left behind
            exp = []
            with st.lock_read():
                for x in orig:
                    sha = x["commit"].encode()
                    rid = default_mapping.revision_id_foreign_to_bzr(sha)
                    e = {"commit": "absent", "tree": "absent", "objs": [], "pushed": "absent"}
                    if repo.has_revision(rid):
                        c = st[st._lookup_revision_sha1(rid)]
                        e["commit"], e["tree"] = c.id.decode(), c.tree.decode()
                        _, objs = git_tree_entries(st, c.tree)
                        e["objs"] = sorted(s.decode() for s in objs)
                    exp.append(e)
            # re-export by a real push into an empty git repository
            _, gb2 = new_git(work, "out.git")
            nb.push(gb2, lossy=True)
            import dulwich.repo
            g2 = dulwich.repo.Repo(os.path.join(work, "out.git"))
            try:
                for x, e in zip(orig, exp):
                    sha = x["commit"].encode()
                    if sha in g2.object_store and g2[sha].tree.decode() == x["tree"] and \
                            all(s.encode() in g2.object_store for s in x["objs"]):
                        e["pushed"] = x["commit"]
            finally:
                g2.close()
            o["exp"] = exp
        except Exception as e:  # noqa
            o.update(cc.failure(e))
    finally:
        shutil.rmtree(work, ignore_errors=True)
    return {"kind": "git", "c": h, "o": o, "idx": idx}


# classes every run must replay (channel_common.features / situations); the sample is stratified by all classes
REQUIRED = ("merge", "emptydir", "symlink", "exec", "rename", "dirrename", "kindchange", "chmod", "delete", "moveout",
            "diremptied", "tipmerge-left", "tipmerge-right", "roots", "pointless")


def replay_chunk(sub, chunk):
    root = cc.scratch_root() or sub.workdir
    rows = []
    for idx, kind, h in chunk:
        rows.append(run_native(sub, h, idx, root) if kind == "native" else run_git(sub, h, idx, root))
        sub.count(1)
    sub.cov.setdefault("_collect", []).extend(rows)


# ----------------------------------------------------------------------------- the check
def run(ctx):
    env.init()
    cc.preload()
    cc.quiet()
    q = ctx.quick
    hs = cc.universe_stratified(ctx, REQUIRED, npool_large=260 if q else 3000, npool_dirs=320 if q else 2500,
                                per_stratum=4 if q else 50, quota=95 if q else 1500, max_revs=4 if q else 5)
    items = []
    for i, h in enumerate(hs):
        items.append((i, "native", h))
        if i % 2 == 1:                                         # (odd: so that the one-character-name variant occurs too)
            items.append((i, "git", h))
    core.fork_map(ctx, replay_chunk, items)
    rows = ctx.collected
    if len(rows) != len(items):
        ctx.machinery("replayed %d of %d experiments" % (len(rows), len(items)))
    feats = {}
    for r in rows:
        f = cc.features(r["c"])
        for x in f:
            feats[x] = feats.get(x, 0) + 1
        if len(r["c"]["P"]) > 1 or len(r["c"]["T"][0]) > 1:
            ctx.nontrivial((r["kind"], cc.hkey(r["c"])))
    for x in ("merge", "emptydir", "symlink", "exec", "rename", "kindchange", "chmod", "delete"):
        if not feats.get(x):
            ctx.machinery("no replayed history has the feature %r" % x)
    if not q and not feats.get("dirrename"):                   # (rare in small samples; the quick tier has a run for it)
        ctx.machinery("no replayed history renames a directory")
    ctx.cov["features"] = feats
    ctx.cov["histories"] = len(hs)
    for r in (rows[0], rows[len(rows) // 2], rows[-1]):
        ctx.sample({"kind": r["kind"], "c": r["c"], "o": cc.lean(r["o"])})
    ctx.rule("TLC checks the in-spec laws exhaustively on the small universes and on every 4th finished walk of two pools of "
             "random walks of HistoryChannelGen (large: 10 paths, 4 contents, <= 3 edits per commit, merges, roots, tags, <= %d "
             "revisions; directories: a populated directory to start with, so that moves out of / between directories and "
             "directory renames with changes inside are frequent). Every history of the pools is classified (merge, rename, "
             "dirrename, kind change, ..., moveout, diremptied, dirrename-loses-entry, tipmerge-left/right, ...); the replayed "
             "sample takes up to %d histories of EVERY class, then random ones; a required class without a history is a "
             "machinery failure. Every sampled history is replayed natively (push both ways, one round and two rounds with a "
             "parent of the tip first, three SHA computations, incremental vs from-scratch object sets), every second one also "
             "as a git-built repository; non-trivial = more than one revision or more than one path; distinct = (experiment "
             "kind, history)" % (4 if q else 5, 4 if q else 50))
    ctx.assume("native -> git is the lossy push (dpush): the default mapping cannot round-trip native revisions")
    ctx.assume("'(empty directories excepted)' is read in both directions: trees are compared after DropEmptyDirs; a stray "
               "empty directory is reported as drift only")
    bad = cc.judge(ctx, rows)
    judged_bad = set()
    for row, failed, drifts, notes in bad:
        h, o = row["c"], row["o"]
        coarse = "unminimised-" + ("merge" if any(len(ps) > 1 for ps in h["P"]) else "linear")
        cls = git_class(row.get("min"), row.get("cls")) or coarse
        kind = row.get("pyfail") or ""
        where = "minimal failing history %s, found in %s" % (cc.hkey(row.get("min") or h), cc.hkey(h))
        rep = dict(cc.lean(row), minimal=row.get("min"))
        if failed:
            judged_bad.add((row["kind"], row["idx"]))
        if row["kind"] == "native":
            rt, s = o["rt"], o["sha"]
            if {"shape", "trees"} & set(failed):
                c = cls if kind.startswith("rt:") else coarse
                if not rt["ok"] and not o["git"]["ok"] and o["git"].get("exc") == "KeyError":
                    ctx.violation("roundtrip:push-incomplete:%s" % c,
                                  "the pushed git repository misses an object (%s), fetching it back fails with %s: %s (%s)" % (
                                      o["git"].get("emsg"), rt["exc"], rt.get("emsg"), where), rep)
                elif not rt["ok"]:
                    gitside = "gitside-ok" if o["git"]["ok"] and "gitside" not in drifts else "gitside-bad"
                    ctx.violation("roundtrip:%s:%s@%s:%s:%s" % (rt.get("stage"), rt["exc"], rt["site"], c, gitside),
                                  "push to git and fetch back fails at %s with %s: %s (%s)" % (
                                      rt.get("stage"), rt["exc"], rt.get("emsg"), where), rep)
                elif "shape" in failed:
                    ctx.violation("roundtrip:shape:%s" % c, "revision graph after the round trip is %s, source graph is %s (%s)" % (
                        rt["P"], h["P"], where), rep)
                else:
                    _, desc = cc.tree_signature(h, rt)
                    ctx.violation("roundtrip:trees:%s" % c, "tree after push + fetch back differs: %s (%s)" % (desc, where), rep)
            if "incremental" in failed:
                c = cls if kind in ("incremental",) or kind.startswith("sha-error") else coarse
                if not s["ok"]:
                    ctx.violation("incremental:%s@%s:%s" % (s["exc"], s["site"], c),
                                  "tree SHA computation fails: %s %s (%s)" % (s["exc"], s.get("emsg"), where), rep)
                else:
                    rs = [r for r in range(1, len(s["scratch"]) + 1)
                          if not (s["warm"][r - 1] == s["scratch"][r - 1] == s["coldp"][r - 1])]
                    which = "+".join(sorted({w for r in rs for w in ("warm", "coldp") if s[w][r - 1] != s["scratch"][r - 1]}))
                    ctx.violation("incremental:%s:%s" % (which, c),
                                  "tree SHA of revision(s) %s differs between incremental (%s) and from-scratch conversion: "
                                  "%s (%s)" % (rs, which, {k: s[k] for k in ("warm", "coldp", "scratch")}, where), rep)
            elif "staged" in failed:
                c = cls if kind == "staged" or kind.startswith("sha-error") else coarse
                if s["ok"]:
                    ctx.violation("staged:%s" % c, "two pushes create the commits %s, one push creates %s (%s)" % (
                        s["staged"], s["oneshot"], where), rep)
                elif rt["ok"] or rt.get("stage") != "push":
                    ctx.violation("staged:%s@%s:%s" % (s["exc"], s["site"], c), "staged push fails: %s %s (%s)" % (
                        s["exc"], s.get("emsg"), where), rep)
            if s["ok"] and {"closure", "objects"} & set(failed):
                c = cls if kind in ("closure", "objects") or (kind.startswith("rt:") and not o["git"]["ok"]) else coarse
                seen, missing = set(), []
                for r, objs in enumerate(s["emit"], 1):
                    seen |= {x["id"] for x in objs}
                    missing += [(r, x["id"], sorted(set(x["refs"]) - seen)) for x in objs if not set(x["refs"]) <= seen]
                allfull = {i for ids in s["full"] for i in ids}
                ctx.violation("objects:%s:%s" % ("+".join(x for x in ("closure", "objects") if x in failed), c),
                              "objects generated incrementally for the revisions (parents first, parent trees, warm cache) are "
                              "not the objects of a from-scratch conversion: referenced but never emitted (revision, object, "
                              "missing) %s; from-scratch objects never emitted %s; emitted but not from-scratch %s (%s)" % (
                                  missing[:4], sorted(allfull - seen)[:4], sorted(seen - set(s["commits"]) - allfull)[:4], where), rep)
            rt2 = o["rt2"]
            if {"staged-shape", "staged-trees"} & set(failed) and not ({"shape", "trees"} & set(failed)) and \
                    not (not s["ok"] and rt2.get("stage") == "push2"):
                c = cls if kind.startswith("rt2:") else coarse
                if not rt2["ok"]:
                    ctx.violation("rounds:%s:%s@%s:%s" % (rt2.get("stage"), rt2["exc"], rt2["site"], c),
                                  "push + fetch back in two rounds fails at %s with %s: %s (%s)" % (
                                      rt2.get("stage"), rt2["exc"], rt2.get("emsg"), where), rep)
                elif "staged-shape" in failed:
                    ctx.violation("rounds:shape:%s" % c, "revision graph after a round trip in two rounds is %s, source graph is "
                                  "%s (%s)" % (rt2["P"], h["P"], where), rep)
                else:
                    _, desc = cc.tree_signature(h, rt2)
                    ctx.violation("rounds:trees:%s" % c, "tree after push + fetch back in two rounds (a parent of the tip first) "
                                  "differs while a single round is right: %s (%s)" % (desc, where), rep)
            for d in drifts:
                if d == "gitside" and not rt["ok"]:
                    continue                                   # already part of the violation's signature
                ctx.drift("native history: %s differs from the specification (history %s)" % (d, cc.hkey(h)), rep)
        elif "origin" in failed:
            if not o["ok"]:
                ctx.violation("origin:%s@%s:%s" % (o["exc"], o["site"], cls),
                              "importing / re-exporting a git-built history fails with %s: %s (%s)" % (
                                  o["exc"], o.get("emsg"), where), rep)
            else:
                rs = [r for r in range(1, len(o["orig"]) + 1) if o["exp"][r - 1] != o["orig"][r - 1]]
                what = "+".join(sorted({k for r in rs for k in o["orig"][r - 1] if o["exp"][r - 1][k] != o["orig"][r - 1][k]}))
                ctx.violation("origin:%s:%s" % (what, cls),
                              "exported git objects of revision(s) %s differ from the original in %s: %s vs %s (%s)" % (
                                  rs, what, [o["exp"][r - 1] for r in rs], [o["orig"][r - 1] for r in rs], where), rep)
    for r in rows:                                             # the python twin only serves minimisation; it must agree
        if (r["pyfail"] is not None) != ((r["kind"], r["idx"]) in judged_bad):
            ctx.drift("python twin of the laws (%s) and TLC (%s) disagree on %s history %s" % (
                r["pyfail"], (r["kind"], r["idx"]) in judged_bad, r["kind"], cc.hkey(r["c"])), cc.lean(r))
    ctx.cov["minimisation_runs"] = sum(r.get("min_runs", 0) for r in rows)


def replay(ctx, rep):
    """./check C35 --replay FILE: run the recorded (minimal, else original) history again and let TLC judge it."""
    import json
    env.init()
    cc.preload()
    cc.quiet()
    row = rep["replay"]
    h = row.get("minimal") or row["c"]
    idx = row.get("idx", 0)
    once = native_once if row.get("kind") == "native" else git_once
    now = once(ctx, h, idx, cc.scratch_root() or ctx.workdir, cc.names_of(idx))
    print(json.dumps({"history": h, "kind": now["kind"], "observed_now": cc.lean(now["o"])}, indent=1))
    for _, failed, drifts, notes in cc.judge(ctx, [now]):
        for f in failed:
            ctx.violation("replay:" + f, "clause %s fails on replay" % f, cc.lean(now))
