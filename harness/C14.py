"""C14 — transform previews match their applied result; conflict resolution ends clean or MalformedTransform."""
import os
import re
import signal
import traceback

from vf import env, tlc, core
from vf.tlaval import parse_state, to_py
from harness import transform_common as tc

META = dict(
    property_id="C14", level="model_checking", design_ref="DESIGN.md §4 C14",
    technique="TLA+ model of the TreeTransform builder API (op maps, find_raw_conflicts families, declarative FinalTree); "
              "TLC enumerates every transform of <= 3 builder calls over 4 trans-ids (loops, duplicates, missing / "
              "non-directory / unversioned parents included) and checks the declarative semantics; every transform is "
              "built on real bzr 2a and git working trees: preview tree vs re-opened tree after apply(), "
              "resolve_conflicts outcome and atomicity, judged by TLC",
    level_text="Every reachable op-map state of the builder model (each one transform) is exported with the conflict "
               "families and the tree it declares; TLC proves that a conflict-free transform declares a well-formed tree. "
               "Each transform is executed through the public API: for conflict-free ones the preview tree's projection "
               "must equal the re-opened working tree after apply(); for the others resolve_conflicts must return within "
               "its pass bound with a transform that previews and applies cleanly, or raise MalformedTransform, and a "
               "transform that was not applied must leave disk and versioning untouched. Conflict families and the "
               "applied tree are compared with the model (drift).",
    level_note="Tree {a (executable), d/, d/c}, one new trans-id, names {x, a}; <= 3 calls (quick: seeded sample of 1000 transforms x 2 "
               "flavours; thorough: all). The calls of one transform are issued in one canonical order (contents, then paths, "
               "then versioning) and, in thorough, also in the opposite order. The resolvers' choices are not specified. "
               "Trusted: TLC, the state-dump / JSON bridge.",
)

WORLD = "CONSTANTS\n  Tids <- PTids\n  Tree <- PTree\n  NameRank <- PRank\n"
INVS = ("CleanIsWellFormed", "CleanBzrVersionedParents", "HistReplays")
TREE = {"a": {"path": ["a"], "kind": "file", "x": True}, "d": {"path": ["d"], "kind": "directory"}, "c": {"path": ["d", "c"], "kind": "file"}}
FAMILIES = ("unversioned parent", "parent loop", "duplicate", "missing parent", "non-directory parent",
            "versioning no contents", "unversioned executability", "non-file executability", "overwrite")


def cfg(maxops, order="A", invariants=INVS, names=("x", "a"), execs=("yes", "no")):
    return ("SPECIFICATION Spec\n" + WORLD + "  MaxOps = %d\n  AdjNames = {%s}\n  ExecVals = {%s}\n  Order = \"%s\"\n" % (
        maxops, ", ".join('"%s"' % n for n in names), ", ".join('"%s"' % e for e in execs), order)
        + "".join("INVARIANT %s\n" % i for i in invariants))


TRACE_CFG = cfg(0, invariants=())

_state = re.compile(r"^State \d+:\n", re.M)


def enumerate_transforms(ctx, maxops, order):
    """TLC explores the builder model; every distinct state is one transform.  Returns the states as text (sorted:
    TLC prints a state canonically, so the order does not depend on the worker schedule)."""
    dump = os.path.join(ctx.workdir, "states_%s%d" % (order, maxops))
    res = tlc.check(ctx, "TransformPreview", cfg_text=cfg(maxops, order), extra=("-dump", dump),
                    label="builder model <=%d calls, order %s" % (maxops, order), timeout=840)
    with open(dump + ".dump") as f:
        parts = sorted(_state.split(f.read())[1:])
    os.unlink(dump + ".dump")
    if len(parts) != res["distinct"]:
        ctx.machinery("state dump has %d states, TLC reports %d" % (len(parts), res["distinct"]))
    return parts


def parse_case(part):
    st = to_py(parse_state(part))
    return {"ops": st["hist"], "spec": st["out"]}


class Timeout(BaseException):
    pass


def _alarm(sig, frm):
    raise Timeout()


def tree_obs(tree):
    """What a Tree shows: versioned entries (path, kind, content tag, executable) and unversioned extras."""
    from dromedary.errors import NoSuchFile
    out = []
    with tree.lock_read():
        for path, ie in tree.iter_entries_by_dir():
            if path == "":
                continue
            c = t = ""
            x = False
            try:
                kind = tree.kind(path)
            except NoSuchFile:
                kind = "missing"            # versioned, nothing on disk
            if kind == "file":
                c, t = tc.untag(tree.get_file_text(path))
                x = bool(tree.is_executable(path))
            out.append({"path": path.split("/"), "kind": kind or "missing", "c": c, "t": t, "x": x, "ver": True})
    return sorted(out, key=lambda e: e["path"])


def site(exc):
    """where an exception came from: '<resolver>/' (if inside a conflict resolver) + innermost breezy 'file.py:function'"""
    fr = [f for f in traceback.extract_tb(exc.__traceback__) if "/breezy/" in f.filename]
    if not fr:
        return "?"
    f = fr[-1]
    res = next((x.name for x in fr if x.name.startswith("resolve_") and x.name != "resolve_conflicts"), None)
    return "%s%s:%s" % (res + "/" if res else "", f.filename.split("/breezy/")[-1], f.name)


def call(tt, tid, fl, o, serial):
    t = tid[o["t"]]
    op = o["op"]
    if op == "create_file":
        tt.create_file([tc.tag("new", o["t"])], t)
    elif op == "create_directory":
        tt.create_directory(t)
    elif op == "delete_contents":
        tt.delete_contents(t)
    elif op == "adjust_path":
        tt.adjust_path(o["name"], tid[o["parent"]], t)
    elif op == "version_file":
        if fl == "bzr":
            tt.version_file(t, file_id=("fresh-%s-%d" % (o["t"], serial)).encode())
        else:
            tt.version_file(t)
    elif op == "unversion_file":
        tt.unversion_file(t)
    elif op == "set_executability":
        tt.set_executability(o["v"] == "yes", t)
    else:
        raise ValueError(op)


def applied_obs(p):
    """The re-opened working tree as the model describes trees: every disk entry with its versioned flag."""
    from breezy.workingtree import WorkingTree
    wt = WorkingTree.open(p)
    ver = {tuple(e["path"]) for e in tc.ver_obs(p)}
    out = []
    with wt.lock_read():
        for e in tc.disk_obs(p):
            v = tuple(e["path"]) in ver
            x = False
            if e["kind"] == "file":
                x = bool(wt.is_executable("/".join(e["path"]))) if v else bool(os.stat(os.path.join(p, *e["path"])).st_mode & 0o100)
            out.append(dict(e, x=x, ver=v))
    return out, tree_obs(wt)


def run_one(case, fl, dest):
    from breezy.workingtree import WorkingTree
    from breezy.transform import resolve_conflicts, conflict_pass, MalformedTransform
    p = tc.fresh(BASES[fl], dest)
    wt = WorkingTree.open(p)
    before = (tc.disk_obs(p), tree_obs(wt))
    r = {"build": "ok", "raw": [], "resolve": "none", "passes": 0, "preview": "none", "apply": "none", "unchanged": True,
         "preview_tree": [], "applied_tree": [], "applied_full": [], "sites": {}, "resolver_notes": []}
    tt = wt.transform()
    applied = False
    try:
        tid = {"root": tt.root, "n": None}
        for t, e in TREE.items():
            tid[t] = tt.trans_id_tree_path("/".join(e["path"]))
        tid["n"] = tt.create_path("n", tt.root)
        try:
            for i, o in enumerate(case["ops"]):
                call(tt, tid, fl, o, i)
        except Exception as e:
            r["build"] = "%s:%s" % (o["op"], type(e).__name__)
            r["sites"]["build"] = site(e)
            return r
        raw = tt.find_raw_conflicts()
        r["raw"] = sorted({c[0] for c in raw})
        ok = True
        if raw:
            passes = [0]

            def counting(t_, conflicts, **kw):
                passes[0] += 1
                return conflict_pass(t_, conflicts, **kw)
            old = signal.signal(signal.SIGALRM, _alarm)
            signal.alarm(20)
            try:
                notes = resolve_conflicts(tt, pass_func=counting)
                r["resolve"] = "clean"
                r["resolver_notes"] = sorted({"%s/%s" % (n[0], n[1]) for n in notes})
            except MalformedTransform:
                r["resolve"], ok = "malformed", False
            except Timeout:
                r["resolve"], ok = "timeout", False
            except Exception as e:
                r["resolve"], ok = "raises:" + type(e).__name__, False
                r["sites"]["resolve"] = site(e)
            finally:
                signal.alarm(0)
                signal.signal(signal.SIGALRM, old)
            r["passes"] = passes[0]
        if ok:
            try:
                r["preview_tree"] = tree_obs(tt.get_preview_tree())
                r["preview"] = "ok"
            except Exception as e:
                r["preview"] = "raises:" + type(e).__name__
                r["sites"]["preview"] = site(e)
            try:
                tt.apply()
                r["apply"] = "ok"
                applied = True
            except Exception as e:
                r["apply"] = "raises:" + type(e).__name__
                r["sites"]["apply"] = site(e)
    finally:
        try:
            tt.finalize()
        except Exception as e:
            r["finalize"] = type(e).__name__
    if applied:
        r["applied_full"], r["applied_tree"] = applied_obs(p)
    else:
        after = (tc.disk_obs(p), tree_obs(WorkingTree.open(p)))
        r["unchanged"] = after == before and not tc.leftovers(p, fl)
        if not r["unchanged"]:
            def nox(entries):
                return [dict(e, x=False) for e in entries]
            only_x = after[0] == before[0] and nox(after[1]) == nox(before[1]) and not tc.leftovers(p, fl)
            r["sites"]["changed"] = "executable-bit-not-restored" if only_x else "tree-changed"
    return r


def replay_chunk(sub, chunk):
    dest = os.path.join(sub.workdir, "wt")
    rows = sub.cov.setdefault("_collect", [])
    parsed = {}
    for ci, fl in chunk:
        if ci not in parsed:
            parsed[ci] = parse_case(CASES[ci])       # CASES: TLC's states as text, parsed here (in parallel)
        case = parsed[ci]
        r = run_one(case, fl, dest)
        rows.append({"ci": ci, "fl": fl, "impl": r, "ops": case["ops"], "spec": case["spec"]})
        sub.count(1)
        if case["spec"]["kinds"][fl] or len(case["ops"]) >= 2:
            sub.nontrivial((ci, fl))


CASES, BASES = [], {}


def diff_class(r):
    """how the preview differs from the applied tree (files; directories too for bzr)"""
    def idx(entries):
        return {"/".join(e["path"]): e for e in entries}
    pv, ap = idx(r["preview_tree"]), idx(r["applied_tree"])
    if any(e["kind"] == "missing" for e in ap.values()):
        return "applied-tree-versions-missing-paths"
    both = set(pv) & set(ap)
    if any(pv[p]["kind"] != ap[p]["kind"] for p in both):
        return "kind"
    if any((pv[p]["c"], pv[p]["t"]) != (ap[p]["c"], ap[p]["t"]) for p in both):
        return "content"
    xd = [p for p in both if pv[p]["x"] != ap[p]["x"]]
    if xd:          # a file of the old tree that kept its path, or one that moved / is new
        kept = any(ap[p]["c"] == "old" and TREE.get(ap[p]["t"], {}).get("path") == p.split("/") for p in xd)
        return "executable-bit-of-unmoved-file" if kept else "executable-bit-of-moved-or-new-file"
    return "versioned-paths"


def classify(row, failed):
    """root-cause class of a violation: failing clause : code site : shape (no concrete ids, no input enumeration)"""
    r, fl = row["impl"], row["fl"]
    if "clean_or_malformed" in failed:
        return "resolve-raises-%s:%s" % (r["resolve"].split(":")[1], r["sites"].get("resolve", "?"))
    if "terminates" in failed:
        return "resolve-does-not-terminate:%s" % fl
    if "applies_cleanly" in failed:
        return "apply-raises-%s:%s:%s" % (r["apply"].split(":")[1], r["sites"].get("apply", "?"),
                                          r["sites"].get("changed", "tree-changed") if not r["unchanged"] else "tree-unchanged")
    if "atomic" in failed:
        return "tree-changed-without-apply:%s:%s" % (fl, r["resolve"])
    if "preview_readable" in failed:
        return "preview-raises-%s:%s" % (r["preview"].split(":")[1], r["sites"].get("preview", "?"))
    if "preview_eq_applied" in failed:
        return "preview-differs-from-applied:%s:%s" % (fl, diff_class(r))
    if "builds" in failed:
        return "builder-call-raises:%s:%s" % (r["build"], r["sites"].get("build", "?"))
    return "+".join(sorted(failed))


def run(ctx):
    global CASES
    env.init()
    maxops = 3
    parts = enumerate_transforms(ctx, maxops, "A")
    for w in ("WitnessLoop", "WitnessCleanMove"):
        tlc.check(ctx, "TransformPreview", cfg_text=cfg(2, "A", (w,)), expect_violation=w, label="witness " + w)
    missing = [f for f in FAMILIES if not any('"%s"' % f in p for p in parts)]
    if missing:
        ctx.machinery("conflict families never produced by the enumeration: %s" % missing)
    n_a = len(parts)
    if not ctx.quick:
        parts = parts + enumerate_transforms(ctx, maxops, "B")
    if ctx.quick:
        parts = [parts[i] for i in sorted(ctx.rng.sample(range(len(parts)), min(len(parts), 1000)))]
    else:
        ctx.cov["exhaustive"] = True
    CASES = parts
    for fl in tc.FLAVOURS:
        BASES[fl] = tc.make_base(ctx.workdir, fl, TREE)
    idx = list(range(len(CASES)))
    core.fork_map(ctx, replay_chunk, [(i, fl) for i in idx for fl in tc.FLAVOURS], chunks_per_proc=8)
    rows = ctx.collected
    if not rows:
        ctx.machinery("no real executions recorded")
    ctx.cov["transforms_enumerated"] = n_a
    ctx.cov["transforms_run"] = len(idx)
    stats = {}
    for r in rows:
        i = r["impl"]
        key = "conflict-free" if not i["raw"] else "resolve:" + i["resolve"].split(":")[0]
        stats[key] = stats.get(key, 0) + 1
    ctx.cov["outcomes"] = stats
    # anti-vacuity on what was EXPLORED (the model's classification), not on how the implementation behaved
    if not any(not r["spec"]["kinds"][r["fl"]] for r in rows) or not any(r["spec"]["kinds"][r["fl"]] for r in rows):
        ctx.machinery("the executed transforms do not include both conflict-free and conflicting ones")
    slim = [{"i": i, "fl": r["fl"], "spec": r["spec"],
             "impl": {k: v for k, v in r["impl"].items() if k not in ("sites", "resolver_notes", "finalize")}} for i, r in enumerate(rows)]
    for r in rows[:: max(1, len(rows) // 3)][:3]:
        ctx.sample({"calls": r["ops"], "declares": r["spec"], "flavour": r["fl"],
                    "observed": {k: r["impl"][k] for k in ("raw", "resolve", "passes", "preview", "apply", "unchanged")}})
    for row, v in tc.judge(ctx, "TransformPreviewTrace", slim, TRACE_CFG, chunk=12000):
        full = rows[row["i"]]
        case = full
        rep = {"flavour": full["fl"], "calls": case["ops"], "declared": case["spec"]["kinds"], "observed": full["impl"]}
        if v["failed"]:
            ctx.violation(classify(full, v["failed"]), "%s tree, calls %s: %s" % (
                full["fl"], " . ".join("%s(%s)" % (o["op"], ",".join(x for x in (o["t"], o["name"], o["parent"], o["v"]) if x))
                                      for o in case["ops"]),
                {k: full["impl"][k] for k in ("raw", "resolve", "passes", "preview", "apply", "unchanged", "sites")}), rep)
        for d in v["drift"]:
            ctx.drift("model/implementation mismatch (%s), %s tree, calls %s" % (d, full["fl"], [
                (o["op"], o["t"], o["name"], o["parent"]) for o in case["ops"]]), rep)
    ctx.rule("transforms = every state of the builder model TransformPreview.tla with <= %d calls of create_file / "
             "create_directory / delete_contents / adjust_path / version_file / unversion_file / set_executability over "
             "trans-ids a, d, d/c, new n (names x, a; any trans-id or the root as parent); non-trivial = has raw "
             "conflicts or >= 2 calls" % maxops)
    ctx.assume("the resolvers' choices are not specified; builder calls respect the API preconditions")


def replay(ctx, rep):
    """./check C14 --replay FILE: re-run one recorded transform on the real code and print what is observed."""
    import json
    env.init()
    r = rep["replay"]
    fl = r["flavour"]
    BASES[fl] = tc.make_base(ctx.workdir, fl, TREE)
    got = run_one({"ops": r["calls"]}, fl, os.path.join(ctx.workdir, "wt"))
    print(json.dumps({"signature": rep["signature"], "observed_now": got}, indent=1))
    ctx.count(1, traces=1)
    ctx.sample({"replayed": rep["signature"]})
