"""C43 — incremental uploads keep the remote directory equal to the uploaded tree."""
import hashlib
import inspect
import io
import os
import re
import shutil
import traceback

from vf import env, tlc, table, core, world as vworld
from vf.tlaval import parse_state, to_py

META = dict(
    property_id="C43", level="model_checking", design_ref="DESIGN.md §4 C43",
    technique="TLA+ model of cmd_upload / BzrUploader as implemented (one action per staging phase: removals, renames to "
              "temporary names, finish_renames, finish_deletions, kind changes, additions, modifications; full upload) over "
              "an abstract remote file system; TLC proves remote = tree for the delta class SafeDelta and exhibits the "
              "deviations outside it; TLC's state graph of commit / uncommit / upload sequences is replayed through the real "
              "cmd_upload against a directory on disk (and a MemoryTransport), the remote directory is projected after every "
              "staging phase and after every upload, and TLC judges remote = tree on the recorded projections",
    level_text="Every commit sequence of the bound (one edit per commit: add, remove, rename, swap, modify, chmod, kind change "
               "over a, b, d, x/a; uploads incremental / full / after uncommit with and without --overwrite, possibly "
               "skipping commits) is explored by TLC on the model; the real code is run on a class-covering sample (quick) "
               "/ a transition cover (thorough) of that graph. The verdict compares two projections of REAL objects (remote "
               "directory vs revision tree); the model only predicts, names the failing phase, and provides the input "
               "class of a violation's signature.",
    level_note="Transport semantics calibrated on LocalTransport (os.rename rules). Ignore files (.bzrignore-upload) and the "
               "upload_revid_location option are not varied. Temp names are mapped by creation order. Trusted: TLC, the "
               "dot-graph parser, os.walk.",
)

CONTENT = {"c1": b"one\n", "c2": b"two\n", "empty": b""}
SHA = {hashlib.sha1(v).hexdigest(): k for k, v in CONTENT.items()}
MARKER = ".bzr-upload.revid"
PHASES = ["Removed", "RenameToTemp", "FinishRenames", "FinishDeletions", "KindChanged", "Added", "Modified"]


TARGETS = {"s1": "x1", "s2": "../b", "s2-rewritten": "b"}     # see the header of Upload.tla


def target_of(path, tok):
    return TARGETS.get(tok)


def tok_of_target(path, target):
    for tok, t in TARGETS.items():
        if t == target:
            return tok
    return "raw:" + target


# Concrete names for the model's abstract names a, b, d and the child name.  The model does not depend on names; the
# transports take URL-escaped paths, so the real code does: every behaviour class is replayed under names that need
# escaping (a literal %XX, a bare '%', '#', space, non-ASCII).  First characters keep the string order a < b < d.
NAMINGS = {
    "plain": {"a": "a", "b": "b", "d": "d", "child": "a"},
    "pct": {"a": "a%20b", "b": "b%", "d": "d%41 x", "child": "a%2Fc"},
    "wild": {"a": "a \u00e9", "b": "b#\u00fc", "d": "d\u00e9 #", "child": "\u00e4 b"},
}


def conc(path, naming):
    """Abstract path (list of segments) -> concrete relative path."""
    m = NAMINGS[naming]
    return "/".join([m.get(path[0], path[0])] + [m["child"] if x == "a" else x for x in path[1:]])


def abst(rel, naming):
    """Concrete relative path -> abstract segments (names the naming does not know stay as they are)."""
    m = NAMINGS[naming]
    top = {v: k for k, v in m.items() if k != "child"}
    segs = rel.split("/")
    return [top.get(segs[0], segs[0])] + ["a" if x == m["child"] else x for x in segs[1:]]


def cfg(maxedits, onlysafe, symlinks=True, inits=("files", "links"), extra=""):
    return ("SPECIFICATION Spec\nCONSTANTS\n  MaxEdits = %d\n  Symlinks = %s\n  OnlySafe = %s\n  InitNames = {%s}\n"
            "CONSTRAINT SafeOnly\nINVARIANT TypeOK\n" % (maxedits, "TRUE" if symlinks else "FALSE",
                                                        "TRUE" if onlysafe else "FALSE",
                                                        ", ".join('"%s"' % i for i in inits))) + extra


PROVED = "INVARIANT UploadCorrect\nINVARIANT UploadNeverFails\nPROPERTY MarkerHonest\nPROPERTY RefusalIsNoop\n"


# ----------------------------------------------------------------------------- the real world
class World:
    def __init__(self, workdir, k, memory=False, naming="plain"):
        from breezy import controldir
        self.naming = naming
        self.w = os.path.join(workdir, "w%d" % k)
        self.wt = controldir.ControlDir.create_standalone_workingtree(
            self.w, format=controldir.format_registry.make_controldir("2a"))
        self.memory = memory
        if memory:
            from dromedary import memory as M
            self.srv = M.MemoryServer()
            self.srv.start_server()
            self.r = self.srv.get_url() + "up/"
        else:
            self.srv = None
            self.r = os.path.join(workdir, "r%d" % k)
            os.mkdir(self.r)
        self.n = 0
        self.revs = []

    def close(self):
        if self.srv is not None:
            self.srv.stop_server()
        shutil.rmtree(self.w, ignore_errors=True)
        if not self.memory:
            shutil.rmtree(self.r, ignore_errors=True)

    def sync(self, tree):
        wt, root = self.wt, self.w
        with wt.lock_tree_write():
            old = [p for p, ie in wt.iter_entries_by_dir() if p]
            if old:
                wt.unversion(old)
            for n in os.listdir(root):
                if n == ".bzr":
                    continue
                p = os.path.join(root, n)
                if os.path.isdir(p) and not os.path.islink(p):
                    shutil.rmtree(p)
                else:
                    os.unlink(p)
            ents = sorted(tree, key=lambda e: len(e["path"]))
            for e in ents:
                p = os.path.join(root, conc(e["path"], self.naming))
                if e["kind"] == "dir":
                    os.mkdir(p)
                elif e["kind"] == "symlink":
                    os.symlink(target_of(e["path"], e["val"]), p)
                else:
                    with open(p, "wb") as f:
                        f.write(CONTENT[e["val"]])
                    os.chmod(p, 0o755 if e["exec"] else 0o644)
            if ents:
                wt.add([conc(e["path"], self.naming) for e in ents], ids=[b"i%d" % e["id"] for e in ents])

    def commit(self, tree):
        self.sync(tree)
        self.n += 1
        rid = b"r%d" % self.n
        self.wt.commit("commit %d" % self.n, rev_id=rid)
        self.revs.append(rid)

    def uncommit(self):
        from breezy import uncommit
        uncommit.uncommit(self.wt.branch, tree=self.wt)
        self.wt.revert(backups=False)
        self.revs.pop()

    # ---- projections (abstract entries: path list, kind, val token, exec)
    def tree_proj(self):
        rt = self.wt.branch.repository.revision_tree(self.wt.branch.last_revision())
        out = []
        for path, (kind, val, ex) in vworld.tree_proj(rt).items():
            if path in (".bzrignore", ".bzrignore-upload"):
                continue
            out.append(self._abstract(abst(path, self.naming), kind, val, ex))
        return sorted(out, key=lambda e: e["path"])

    @staticmethod
    def _abstract(path, kind, val, ex):
        if kind == "directory":
            return {"path": path, "kind": "dir", "val": "", "exec": False}
        if kind == "symlink":
            return {"path": path, "kind": "symlink", "val": tok_of_target(path, val), "exec": False}
        return {"path": path, "kind": "file", "val": SHA.get(val, "other:" + str(val)[:8]), "exec": bool(ex)}

    def remote_proj(self, stamps=()):
        out = []
        if self.memory:
            from breezy import transport as T
            import stat as S
            t = T.get_transport(self.r)
            if not t.has("."):
                return []
            from breezy import urlutils
            todo = [""]
            while todo:
                d = todo.pop()                      # transport paths are URL-escaped
                for n in sorted(t.list_dir(d or ".")):
                    erel = (d + "/" + n) if d else n
                    rel = urlutils.unescape(erel)
                    st = t.stat(erel)
                    if S.S_ISDIR(st.st_mode):
                        out.append((rel, "directory", None, False))
                        todo.append(erel)
                    else:
                        out.append((rel, "file", hashlib.sha1(t.get_bytes(erel)).hexdigest(), bool(st.st_mode & 0o100)))
        else:
            for rel, (kind, val, ex) in vworld.disk_proj(self.r, skip=()).items():
                out.append((rel, kind, val, ex))
        res = []
        for rel, kind, val, ex in out:
            if rel == MARKER:
                continue
            path = abst(rel, self.naming)
            if path[0].startswith(".tmp."):
                path[0] = "tmp%d" % (stamps.index(path[0]) + 1) if path[0] in stamps else path[0]
            res.append(self._abstract(path, kind, val, ex))
        return sorted(res, key=lambda e: e["path"])

    def upload(self, full, overwrite):
        """Run the real command; returns (outcome, (exception name, phase) | None, snapshots)."""
        from breezy.plugins.upload import cmds
        snaps, stamps, me = {}, [], self

        class Recorder(ORIG):
            def upload_file(self, old, new, mode=None):
                snaps.setdefault("Removed", me.remote_proj(stamps))      # the removals never upload anything
                ORIG.upload_file(self, old, new, mode)

            def rename_remote(self, old, new):
                snaps.setdefault("Removed", me.remote_proj(stamps))
                ORIG.rename_remote(self, old, new)
                if self._pending_renames and self._pending_renames[-1][0] not in stamps:
                    stamps.append(self._pending_renames[-1][0])

            def finish_renames(self):
                snaps.setdefault("Removed", me.remote_proj(stamps))
                snaps["RenameToTemp"] = me.remote_proj(stamps)
                ORIG.finish_renames(self)
                snaps["FinishRenames"] = me.remote_proj(stamps)

            def finish_deletions(self):
                ORIG.finish_deletions(self)
                snaps["FinishDeletions"] = me.remote_proj(stamps)

            def set_uploaded_revid(self, rev_id):
                snaps["final"] = me.remote_proj(stamps)
                ORIG.set_uploaded_revid(self, rev_id)

        cmds.BzrUploader = Recorder
        try:
            c = cmds.cmd_upload()
            c.outf = io.StringIO()
            try:
                c.run(location=self.r, directory=self.w, full=full, quiet=True, overwrite=overwrite)
                return "ok", None, snaps, stamps
            except cmds.DivergedUploadedTree:
                return "refused", None, snaps, stamps
            except Exception as e:
                return "failed", (type(e).__name__, phase_of(e.__traceback__), str(e)[:100]), snaps, stamps
        finally:
            cmds.BzrUploader = ORIG


ORIG = None
_PHASE_TABLE = None


def phase_table():
    """Line number -> staging phase of BzrUploader.upload_tree, read off its source text."""
    global _PHASE_TABLE
    if _PHASE_TABLE is None:
        src, start = inspect.getsourcelines(ORIG.upload_tree)
        marks = [("changes.removed", "Removed"), ("changes.renamed", "RenameToTemp"), ("self.finish_renames()", "FinishRenames"),
                 ("self.finish_deletions()", "FinishDeletions"), ("changes.kind_changed", "KindChanged"),
                 ("changes.added", "Added"), ("changes.modified", "Modified"), ("self.set_uploaded_revid", "SetMarker")]
        tab = []
        for i, line in enumerate(src):
            for m, ph in marks:
                if m in line and (line.strip().startswith("for ") or line.strip().startswith("self.")):
                    tab.append((start + i, ph))
        _PHASE_TABLE = (tab, ORIG.upload_tree.__code__, ORIG.upload_full_tree.__code__)
    return _PHASE_TABLE


def phase_of(tb):
    tab, incr_code, full_code = phase_table()
    phase = "Start"
    while tb is not None:
        code = tb.tb_frame.f_code
        if code is full_code:
            return "Full"
        if code is incr_code:
            phase = "Start"
            for ln, ph in tab:
                if ln <= tb.tb_lineno:
                    phase = ph
            return phase
        tb = tb.tb_next
    return phase


# ----------------------------------------------------------------------------- classification of a wrong remote
def ents_of(tree):
    return [{"id": e["id"], "path": list(e["path"]), "kind": e["kind"], "val": e["val"], "exec": e["exec"]} for e in tree]


def change_class(frm, to, path, mode):
    """How the entry the tip tree has at `path` changed since the uploaded tree (no names; the level only for symlinks).
    A full upload does not look at the uploaded tree: only the entry's kind matters there."""
    e = next((x for x in to if x["path"] == list(path)), None)
    if e is None:
        return "path-not-in-tree"
    kind = e["kind"] + (",below-top" if e["kind"] == "symlink" and len(path) > 1 else "")
    if mode == "full":
        return kind
    o = next((x for x in frm if x["id"] == e["id"]), None)
    if o is None:
        return "added(%s)" % kind
    flags = []

    def parent_id(t, x):
        if len(x["path"]) == 1:
            return 0
        return next(y["id"] for y in t if y["path"] == x["path"][:-1])
    if o["path"][-1] != e["path"][-1] or parent_id(frm, o) != parent_id(to, e):
        flags.append("renamed")
    elif o["path"] != e["path"]:
        flags.append("moved-with-parent")
    if o["kind"] != e["kind"]:
        return "+".join(flags + ["kind-change"])
    else:
        if o["val"] != e["val"]:
            flags.append("retarget" if e["kind"] == "symlink" else "content")
        if o["exec"] != e["exec"]:
            flags.append("chmod")
    return ("+".join(flags) or "unchanged") + "(%s)" % kind


def differs(tree, remote):
    """{path: what differs} between two abstract projections."""
    a = {tuple(e["path"]): e for e in tree}
    b = {tuple(e["path"]): e for e in remote}
    out = {}
    for p in sorted(set(a) | set(b)):
        x, y = a.get(p), b.get(p)
        if x == y:
            continue
        if y is None:
            out[p] = "missing"
        elif x is None:
            out[p] = "stale"
        elif x["kind"] != y["kind"]:
            out[p] = "kind"
        elif x["val"] != y["val"]:
            out[p] = "target" if x["kind"] == "symlink" else "content"
        else:
            out[p] = "exec"
    return out


# ----------------------------------------------------------------------------- replay of one path of TLC's graph
_label = re.compile(r'^(\w+)(?:\((.*)\))?$')


def replay_paths(sub, chunk):
    global ORIG
    from breezy.plugins.upload import cmds
    if ORIG is None:
        ORIG = cmds.BzrUploader
    for k, (memory, naming, path, states) in enumerate(chunk):
        w = World(sub.workdir, k, memory, naming)
        try:
            replay_one(sub, w, path, states)
        finally:
            w.close()


def replay_one(sub, w, path, states):
    st = states[path[0][1]]
    w.commit(ents_of(st["hist"][-1]))
    log = []
    i = 1
    uploads = 0
    while i < len(path):
        act, nid = path[i]
        prev, cur = states[path[i - 1][1]], states[nid]
        m = _label.match(act)
        name, args = m.group(1), (m.group(2) or "")
        if name == "Commit":
            w.commit(ents_of(cur["hist"][-1]))
            log.append(["Commit", cur["hist"][-1]])
            i += 1
            continue
        if name == "Uncommit":
            w.uncommit()
            log.append(["Uncommit"])
            i += 1
            continue
        if name != "UploadStart":
            sub.machinery("unexpected action %s at step %d" % (act, i))
        # cmd_upload's arguments, read off the model's states (TLC's simulation traces do not print action parameters)
        refused = cur["last"] == "refused" and prev["last"] != "refused"
        ow = prev["uplAt"] == 99 and not refused
        full = (not refused) and cur["mode"] == "full" and prev["uplAt"] != 0
        if args:
            a = [x.strip().strip('"') for x in args.split(",")]
            if prev["uplAt"] != 0:
                full = a[0] == "full"
        before = w.remote_proj()
        outcome, exc, snaps, stamps = w.upload(full, ow)
        after = w.remote_proj(stamps)
        tree = w.tree_proj()
        uploads += 1
        log.append(["Upload", "full" if full else "incr", ow, outcome, exc])
        # ---- what the model says: walk the phase steps of this upload that the path contains
        j = i
        spec_final = cur
        while j + 1 < len(path) and states[path[j][1]]["pc"] != "idle":
            j += 1
            spec_final = states[path[j][1]]
            ph = states[path[j - 1][1]]["pc"]          # the phase this step ran
            key = "final" if ph in ("Modified", "Full") else ph
            if key in snaps and spec_final["last"] != "failed" and ph != "SetMarker":
                want = sorted(spec_final["remote"], key=lambda e: e["path"])
                if snaps[key] != want:
                    sub.drift("remote directory after phase %s differs from the model" % ph,
                              {"log": log, "phase": ph, "model": want, "real": snaps[key]})
        complete = spec_final["pc"] == "idle"
        frm = ents_of(prev["upl"])
        to = ents_of(prev["hist"][-1])
        mode = cur["mode"] if cur["last"] != "refused" else ("full" if full else "incr")
        rep = {"transport": "memory" if w.memory else "local", "names": dict(NAMINGS[w.naming], naming=w.naming), "log": log, "uploaded_tree": frm, "tip_tree": to,
               "remote_before": before, "remote_after": after, "model_unsafe": cur["unsafe"]}
        predicted = None
        if complete:
            predicted = (spec_final["last"], spec_final["err"], sorted(spec_final["remote"], key=lambda e: e["path"]))
            real_err = "%s:%s" % (exc[1], exc[0]) if exc else ""
            if (outcome, real_err) != (predicted[0], predicted[1]):
                sub.drift("upload outcome %s %s, the model says %s %s" % (outcome, real_err, predicted[0], predicted[1]), rep)
            elif after != predicted[2]:
                sub.drift("remote directory after the upload differs from the model", dict(rep, model=predicted[2]))
        row = {"tree": tree, "remote": after, "before": before, "outcome": outcome,
               "meta": {"mode": mode, "exc": exc, "rep": rep, "frm": frm, "to": to, "complete": complete,
                        "predicted_same": bool(complete and predicted[0] == outcome and (predicted[2] == after or outcome != "ok")
                                               and (outcome != "failed" or predicted[1] == "%s:%s" % (exc[1], exc[0])))}}
        sub.cov.setdefault("_collect", []).append(row)
        sub.count(1)
        if cur["unsafe"] == [] and outcome != "refused":
            sub.nontrivial((w.memory, w.naming, repr(frm), repr(to), mode))
        if outcome == "failed" or (outcome == "ok" and after != tree):
            break          # the property is already violated on this path; later steps would only repeat it
        i = j + 1
    if uploads and len(sub.cov["samples"]) < 1 and len(log) >= 4:
        sub.sample({"transport": "memory" if w.memory else "local", "names": NAMINGS[w.naming], "log": log})


# ----------------------------------------------------------------------------- path selection
def upload_classes(path, states_txt, cache):
    """Classes of the uploads a path contains: (mode, unsafe reasons, outcome, err, delta features) as the model has them."""
    out = []
    for act, nid in path:
        if nid not in cache:
            txt = states_txt[nid]
            g = lambda var: re.search(r'/\\ %s = (.*?)(?=\n/\\ |\Z)' % var, txt, re.S)
            pc, last = g("pc").group(1), g("last").group(1)
            cache[nid] = (pc, last, g("mode").group(1), g("err").group(1), re.sub(r"\s+", " ", g("unsafe").group(1)),
                          re.sub(r"\s+", " ", g("feat").group(1)))
        pc, last, mode, err, unsafe, feat = cache[nid]
        if pc == '"idle"' and act != "Init" and (act.startswith("SetMarker") or act.startswith("Phase") or act.startswith("UploadStart")):
            out.append((mode, unsafe, last, err, feat))
    return tuple(out)


def run(ctx):
    global ORIG
    env.init()
    from breezy.plugins.upload import cmds
    ORIG = cmds.BzrUploader
    if not phase_table()[0]:
        ctx.machinery("cannot locate the staging phases in BzrUploader.upload_tree")
    thorough = ctx.tier == "thorough"
    # 1. the model: correct on the safe delta class (exhaustive), and non-vacuously so
    tlc.check(ctx, "Upload", cfg_text=cfg(3 if thorough else 2, True, extra=PROVED),
              label="safe deltas: UploadCorrect, UploadNeverFails, MarkerHonest, RefusalIsNoop", workers=16)
    for wit in ("WitnessSwap", "WitnessKindChange", "WitnessOverwrite") if thorough else ("WitnessSwap",):
        tlc.check(ctx, "Upload", cfg_text=cfg(2, True, extra="INVARIANT %s\n" % wit), expect_violation=wit,
                  label="witness " + wit, workers=8)
    # 2. the behaviours to replay: TLC's state graph without the safety pruning
    nodes, edges, inits, res = tlc.graph(ctx, "Upload", cfg_text=cfg(2, False), label="state graph MaxEdits=2", workers=16)
    # outside the safe class the implementation-shaped model does fail (this is what the known findings are about)
    nfailed = sum(1 for t in nodes.values() if 'last = "failed"' in t)
    if not nfailed:
        ctx.machinery("vacuity guard: the unpruned model has no failing upload")
    # TLC names the nodes by fingerprints that differ from run to run, and its workers dump them in any order: rename the
    # nodes by the rank of their state text, so that the seed alone decides what is replayed
    ren = {old: "n%06d" % i for i, old in enumerate(sorted(nodes, key=lambda n: nodes[n]))}
    nodes = {ren[k]: v for k, v in nodes.items()}
    edges, inits = sorted((ren[a], act, ren[b]) for a, act, b in edges), sorted(ren[i] for i in inits)
    paths = list(tlc.transition_cover(nodes, edges, inits, rng=ctx.rng))
    # a cover path may stop in the middle of an upload: run the (deterministic) remaining phases too
    succ = {}
    for a, act, b in edges:
        succ.setdefault(a, []).append((act, b))
    for p in paths:
        while '/\\ pc = "idle"' not in nodes[p[-1][1]] and len(succ.get(p[-1][1], ())) == 1:
            p.append(succ[p[-1][1]][0])
    ctx.cov["graph"] = {"nodes": len(nodes), "edges": len(edges), "cover_paths": len(paths), "failed_states": nfailed}
    cache = {}
    groups = {}
    symfree = {}
    for n, p in enumerate(paths):
        cl = upload_classes(p, nodes, cache)
        if cl:
            # names that need URL-escaping are only used where no symlink occurs (see Upload.tla, "Names")
            symfree[n] = "symlink" not in "".join(nodes[nid] for _, nid in p)
            groups.setdefault(cl[-1:] + (symfree[n],), []).append(n)
    keys = sorted(groups)
    for k in keys:
        ctx.rng.shuffle(groups[k])
    hostile = [x for x in sorted(NAMINGS) if x != "plain"]
    picked = []                 # (path index, naming)
    per_class = {"tiny": 1, "quick": 3}.get(ctx.tier)
    for k in keys:
        mine = groups[k] if per_class is None else groups[k][:per_class]
        if k[-1]:
            # a symlink-free class: every naming at least once (the same path again if the class is small)
            order = hostile + ["plain"]
            for j in range(max(len(mine), len(order) if per_class != 1 else 1)):
                picked.append((mine[j % len(mine)], order[j % len(order)]))
        else:
            picked.extend((n, "plain") for n in (mine[:2] if per_class else mine))
    if ctx.tier == "tiny":
        picked = picked[:40]
    ctx.cov["upload_classes"] = len(keys)
    jobs = []
    nmem = 0
    parsed = {}
    for n, naming in picked:
        p = paths[n]
        if n not in parsed:
            parsed[n] = {nid: to_py(parse_state(nodes[nid])) for _, nid in p}
        nd = parsed[n]
        jobs.append((False, naming, p, nd))
        # a MemoryTransport has other rename rules (and no symlinks): behaviours whose uploads the model calls safe must
        # come out right on it too; nothing else is claimed there
        if symfree[n] and all(st["unsafe"] == [] for st in nd.values()):
            nmem += 1
            if nmem % 2 == 0:
                jobs.append((True, naming, p, nd))
    nsim = 0
    if thorough:
        # deeper: random behaviours of the unpruned model with one more commit, generated by TLC's simulator
        behs, res = tlc.simulate(ctx, "Upload", cfg_text=cfg(3, False), num=1500, depth=48, seed=ctx.seed + 1, label="simulate MaxEdits=3")
        for b in behs:
            p = [(act if i else "Init", "s%d" % i) for i, (act, st) in enumerate(b)]
            nd = {"s%d" % i: to_py(st) for i, (act, st) in enumerate(b)}
            if any(a == "UploadStart" for a, _ in p):
                free = not any(e["kind"] == "symlink" for st in nd.values() for t in st["hist"] for e in t)
                jobs.append((False, (hostile + ["plain"])[nsim % 3] if free else "plain", p, nd))
                nsim += 1
    ctx.rule("behaviours = paths of a transition cover of TLC's state graph of Upload.tla (initial commit + <= 2 one-edit commits / "
             "uncommits, uploads incremental / full / --overwrite anywhere, possibly skipping commits): %d cover paths in %d "
             "classes by the model's (mode, unsafe reasons, outcome, error, kinds of change in the delta) of their last upload and symlink-freeness; replayed on a local "
             "directory: %d (%s; symlink-free classes under each of the namings plain / literal-%%XX / space-#-non-ASCII), every 2nd "
             "symlink-free, model-safe one also on a MemoryTransport%s; non-trivial = upload "
             "whose delta the model calls safe; distinct = (transport, naming, uploaded tree, tip tree, mode)"
             % (len(paths), len(keys), len(picked), "3 per class" if ctx.quick else "all",
                "; plus %d simulated behaviours with one more commit" % nsim if nsim else ""))
    core.fork_map(ctx, replay_paths, jobs)
    rows = ctx.collected
    if not rows:
        ctx.machinery("no upload was replayed")
    verdicts = table.judge(ctx, "UploadTrace", [{"tree": r["tree"], "remote": r["remote"], "before": r["before"],
                                                "outcome": r["outcome"], "k": k} for k, r in enumerate(rows)])
    for jr, failed, drift in verdicts:
        r = rows[jr["k"]]
        meta = r["meta"]
        tag = "" if meta["predicted_same"] else ":unpredicted"
        if meta["rep"]["transport"] == "memory":
            tag = ":memory"
        if tag and meta["rep"]["names"]["naming"] != "plain":
            tag += ":names-need-escaping"
        if "completes" in failed:
            name, phase, msg = meta["exc"]
            ctx.violation("upload-raises:%s:%s:%s%s" % (meta["mode"], phase, name, tag),
                          "%s upload raised %s (%s) in phase %s; the model's reasons: %s" % (
                              meta["mode"], name, msg, phase, meta["rep"]["model_unsafe"]), meta["rep"])
        elif "equal" in failed:
            d = differs(r["tree"], r["remote"])
            for cl in sorted({change_class(meta["frm"], meta["to"], list(p), meta["mode"]) + ":" + what for p, what in d.items()}):
                ctx.violation("remote-differs:%s:%s%s" % (meta["mode"], cl, tag),
                              "after a successful %s upload the remote directory differs from the tree at %s; the model's reasons: %s" % (
                                  meta["mode"], {"/".join(p): v for p, v in d.items()}, meta["rep"]["model_unsafe"]), meta["rep"])
        if drift:
            ctx.drift("a refused upload changed the remote directory", meta["rep"])
