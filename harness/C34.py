"""C34 — importing then exporting a git commit reproduces it byte for byte."""
import hashlib
import json
import os

from vf import env, table, core

META = dict(
    property_id="C34", level="model_checking", design_ref="DESIGN.md §4 C34",
    technique="TLA+ transcription of BzrGitMapping.import_commit / export_commit (which revision properties are set, "
              "what export rebuilds from them) model-checked by TLC over the product of commit field classes; every "
              "abstract commit is concretised to hostile bytes and sent through the real import and export; the "
              "recorded outcomes are judged by the TLA+ laws and compared with the transcription",
    level_text="Exhaustive over the product of field classes (encoding header x byte class of names/message x "
               "author/committer x times x time zones incl. -0000 x gpgsig x mergetags x extra headers x message "
               "class x parents): TLC proves Export(Import(c)) = c on the transcription and names the deviations of "
               "the coded export; each case is executed on the real mapping (commit parsed from its bytes and as a "
               "constructed object) and TLC evaluates the round-trip and revision-id laws on the recorded results. "
               "The mapping is a finite case analysis on these classes, so small-scope exhaustion is the right level.",
    level_note="One concrete byte string per field class (non-ASCII names per encoding, PGP block with a non-UTF-8 "
               "byte, annotated-tag bytes, HG extra headers). Default mapping git-v1, strict import, lossy export (the "
               "only export the mapping supports). Byte-level serialisation is dulwich's and is trusted, as are TLC "
               "and the JSON bridge. Identities are well-formed 'Name <email>'.",
)

DOMAINS = {"quick": "zones {0, -0000, -0530}^2, 4 extra-header sequences, times equal?, and (gpgsig, 2 mergetags, "
                    "2 parents) all on or all off",
           "full": "author zone {0, -0000, +0100, -0530} x commit zone {0, -0000, -0530}, 6 extra-header sequences, "
                   "times equal?, gpgsig?, mergetags = parents in 0..2"}
DEFAULTS = {"enc": "absent", "tb": "ascii", "ident": "same", "teq": True, "atz": "0", "ctz": "0", "gpg": False,
            "mt": 0, "extra": [], "msg": "text", "par": 0}
FIELDS = ["enc", "tb", "ident", "teq", "atz", "ctz", "gpg", "mt", "extra", "msg", "par"]

# ------------------------------------------------------------------ concretisation: one hostile byte string per class
TREE = b"4b825dc642cb6eb9a060e54bf8d69288fbee4904"
PARENTS = [b"1" * 40, b"2f" * 20]
ENC_HEADER = {"absent": None, "utf-8": b"UTF-8", "iso-8859-1": b"ISO-8859-1", "false": b"false",
              "bogus": b"x-no-such-codec"}
ENC_CLASS = {"UTF-8": "utf-8", "ISO-8859-1": "iso-8859-1", "false": "false", "x-no-such-codec": "bogus"}
ZONES = {"0": (0, False), "neg0": (0, True), "p60": (3600, False), "m330": (-19800, False)}
GPGSIG = (b"-----BEGIN PGP SIGNATURE-----\nVersion: GnuPG v1\n\niQEzBAABCAAdFiEEo7\xffdW5kbGU\n"
          b"=Ab+/\n-----END PGP SIGNATURE-----")
EXTRA = {"hgrename": (b"HG:rename-source", b"hg old name:new\xff name"),
         "hgextra": (b"HG:extra", b"amend_source:0123456789abcdef with space"),
         "hgbad": (b"HG:extra", b"weird_key:value"),
         "unknown": (b"x-unknown-header", b"value")}


def _text(tb, s):
    """s contains 'é' where the class decides the bytes."""
    if tb == "ascii":
        return s.replace("é", "e").encode("ascii")
    return s.encode("utf-8" if tb == "utf8" else "latin-1")


def _mergetag(i, tb):
    from dulwich.objects import Commit, Tag
    t = Tag()
    t.name = b"v1.%d rc" % i
    t.object = (Commit, b"5" * 40 if i == 0 else b"6a" * 20)
    t.tagger = _text(tb, "Tég Ger <tagger@example.com>")
    t.tag_time = 1500000000 + i
    t.tag_timezone = -3600
    t.message = _text(tb, "tag méssage %d\n" % i) + (b"-----BEGIN PGP SIGNATURE-----\n\niQ\xfe\n-----END PGP SIGNATURE-----\n"
                                                   if i else b"")
    return t


def concretise(c):
    """Abstract commit -> (constructed dulwich Commit, its bytes as a git object would have them)."""
    from dulwich.objects import Commit
    k = Commit()
    k.tree = TREE
    k.parents = PARENTS[:c["par"]]
    tb = c["tb"]
    k.committer = _text(tb, "Cém Mitter <com@example.com>")
    k.author = k.committer if c["ident"] == "same" else _text(tb, "Aé Thor, jr. <au@example.com>")
    k.commit_time = 1700000000
    k.author_time = k.commit_time if c["teq"] else 1699913601
    k.author_timezone, k._author_timezone_neg_utc = ZONES[c["atz"]]
    k.commit_timezone, k._commit_timezone_neg_utc = ZONES[c["ctz"]]
    if ENC_HEADER[c["enc"]] is not None:
        k.encoding = ENC_HEADER[c["enc"]]
    if c["gpg"]:
        k.gpgsig = GPGSIG
    for i in range(c["mt"]):
        k.mergetag.append(_mergetag(i, tb))
    for e in c["extra"]:
        k._extra.append(EXTRA[e])
    msg = c["msg"]
    if msg == "missing":
        k.message = None
    elif msg == "empty":
        k.message = b""
    elif msg == "text":
        k.message = _text(tb, "Subject liné\n\nbody with trailing blank \n\n")
    elif msg == "nonl":
        k.message = _text(tb, "no néwline at end")
    elif msg == "marker":
        k.message = _text(tb, "Subjéct\n--BZR--\nrevision-id: fake-revid\nproperty-x: y\n")
    else:
        raise ValueError(msg)
    raw = k.as_raw_string()
    if msg == "missing":
        # a commit object without the blank line that separates headers from message
        if not raw.endswith(b"\n\n"):
            raise core.MachineryError("unexpected serialisation of a message-less commit: %r" % raw[-20:])
        raw = raw[:-1]
    return k, raw


def _sha(raw):
    return hashlib.sha1(b"commit %d\0" % len(raw) + raw).hexdigest().encode("ascii")


def _one(m, commit, raw):
    """import + export of one dulwich commit whose bytes are raw -> observation dict."""
    o = {"accepted": False, "reject": "", "keys": [], "enc": "-", "ienc": "-", "atz": "-", "out": "-", "revid": "-",
         "diff": []}
    try:
        rev, _rt, _ver = m.import_commit(commit, m.revision_id_foreign_to_bzr, strict=True)
    except Exception as e:            # noqa: BLE001 - "not accepted" is any refusal
        o["reject"] = type(e).__name__
        return o, None
    o["accepted"] = True
    p = rev.properties
    o["keys"] = sorted(p)
    if "git-explicit-encoding" in p:
        o["enc"] = ENC_CLASS.get(p["git-explicit-encoding"], "?" + p["git-explicit-encoding"])
    if "git-implicit-encoding" in p:
        o["ienc"] = p["git-implicit-encoding"]
    if "author-timezone" in p:
        o["atz"] = p["author-timezone"]
    try:
        c2 = m.export_commit(rev, commit.tree, lambda revid: m.revision_id_bzr_to_foreign(revid)[0], True, {})
        raw2 = c2.as_raw_string()
    except Exception as e:            # noqa: BLE001
        o["out"] = "raises:" + type(e).__name__
        return o, rev
    if raw2 == raw:
        o["out"] = "same"
    else:
        o["out"] = "differs"
        for f in ("tree", "parents", "author", "committer", "author_time", "commit_time", "author_timezone",
                  "commit_timezone", "_author_timezone_neg_utc", "_commit_timezone_neg_utc", "encoding", "gpgsig",
                  "message", "_extra"):
            if getattr(c2, f) != getattr(commit, f):
                o["diff"].append(f.strip("_"))
        if [t.as_raw_string() for t in c2.mergetag] != [t.as_raw_string() for t in commit.mergetag]:
            o["diff"].append("mergetag")
        if not o["diff"]:
            o["diff"].append("serialisation")
    return o, rev


def observe(c):
    """Run the real mapping on abstract commit c.  Returns the row's impl record."""
    from dulwich.objects import Commit
    from breezy.git.mapping import default_mapping as m
    built, raw = concretise(c)
    parsed = Commit.from_string(raw)
    if parsed.as_raw_string() != raw or (parsed.message is None) != (c["msg"] == "missing"):
        raise core.MachineryError("fixture: dulwich does not reproduce the concretised commit %r" % (c,))
    sha = _sha(raw)
    if parsed.id != sha:
        raise core.MachineryError("fixture: sha mismatch")
    o, rev = _one(m, parsed, raw)
    oc, revc = _one(m, built, built.as_raw_string())
    o["outC"] = oc["out"]
    o["diffC"] = oc["diff"]
    if o["accepted"] != oc["accepted"] or o["keys"] != oc["keys"]:
        o["reject"] = o["reject"] or "constructed-differs:" + oc["reject"]
        o["keys"] = sorted(set(o["keys"]) ^ set(oc["keys"])) + ["<parsed/constructed differ>"]
    if o["accepted"]:
        # the revision id derived from a commit is stable: a second import of freshly parsed bytes gives the same id,
        # it is the id derived from the SHA-1 of the bytes (also through get_revision_id), and maps back to that SHA-1
        want = m.revision_id_foreign_to_bzr(sha)
        why = []
        if rev.revision_id != want or rev.foreign_revid != sha:
            why.append("import_commit-id-not-from-sha")
        try:
            if m.import_commit(Commit.from_string(raw), m.revision_id_foreign_to_bzr, strict=True)[0].revision_id != want:
                why.append("second-import-differs")
        except Exception as e:        # noqa: BLE001
            why.append("second-import-raises-" + type(e).__name__)
        try:
            if m.get_revision_id(parsed) != want:
                why.append("get_revision_id-differs")
        except Exception as e:        # noqa: BLE001
            why.append("get_revision_id-raises-" + type(e).__name__)
        if revc is not None and revc.revision_id != m.revision_id_foreign_to_bzr(_sha(built.as_raw_string())):
            why.append("constructed-id-not-from-its-bytes")
        try:
            if m.revision_id_bzr_to_foreign(rev.revision_id)[0] != sha:
                why.append("bzr_to_foreign-differs")
        except Exception as e:        # noqa: BLE001
            why.append("bzr_to_foreign-raises-" + type(e).__name__)
        o["revid"] = "stable" if not why else "unstable:" + "+".join(why)
    return o


def _failure(o):
    """{law: outcome class} of the laws that an observation fails."""
    f = {}
    if not o["accepted"]:
        return f
    if o["out"] != "same" or o["outC"] != "same":
        bad = o["out"] if o["out"] != "same" else o["outC"]
        d = o["diff"] if o["out"] != "same" else o["diffC"]
        f["roundtrip"] = bad.replace(":", "-") + ("-" + "+".join(d) if d else "")
    if o["revid"] != "stable":
        f["revid"] = o["revid"].split(":", 1)[1]
    return f


def _fails(c):
    """The same for abstract commit c executed now on the real code (used to minimise a failing case)."""
    return _failure(observe(c))


def input_class(c, law, outcome, known):
    """Narrow input class of a failure: the field classes that cannot be reset to the benign default without the
    failure (same law, same outcome) going away.  known: classes already found for this failure (reused)."""
    for cls in known:
        if all(c[f] == v for f, v in cls):
            return cls
    cur = dict(c)
    for f in FIELDS:
        if cur[f] == DEFAULTS[f]:
            continue
        trial = dict(cur, **{f: DEFAULTS[f]})
        if _fails(trial).get(law) == outcome:
            cur = trial
    cls = tuple((f, cur[f]) for f in FIELDS if cur[f] != DEFAULTS[f])
    known.append(cls)
    return cls


def _report(ctx, c, o, failed, known):
    """One ctx.violation per failed law, with the narrow signature law:site:outcome:input-class."""
    for law in failed:
        outcome = _failure(o).get(law)
        if outcome is None:
            ctx.machinery("law %s failed for TLC but not for the harness: %s %s" % (law, c, o))
        cls = input_class(c, law, outcome, known.setdefault((law, outcome), []))
        site = "export_commit" if law == "roundtrip" else "revision-id"
        ctx.violation("%s:%s:%s:%s" % (law, site, outcome, _fmt_class(cls)),
                      "law %s fails: commit %s accepted by import_commit (properties %s), export outcome parsed=%s "
                      "constructed=%s revid=%s" % (law, c, o["keys"], o["out"], o["outC"], o["revid"]),
                      {"c": c, "impl": o})


def _fmt_class(cls):
    return ",".join("%s=%s" % (f, "+".join(v) if isinstance(v, list) else v) for f, v in cls) or "any"


def _norm(c):
    return dict(c, extra=list(c["extra"]))


def _chunk(sub, cases):
    rows = []
    for k in cases:
        c = _norm(k["c"])
        o = observe(c)
        rows.append({"c": c, "impl": {f: o[f] for f in ("accepted", "reject", "keys", "enc", "ienc", "atz", "out",
                                                        "outC", "revid")}, "diff": o["diff"], "diffC": o["diffC"]})
        sub.count(1)
        if o["accepted"] and sum(1 for f in FIELDS if c[f] != DEFAULTS[f]) >= 2:
            sub.nontrivial(json.dumps(c, sort_keys=True))
    with open(os.path.join(os.path.dirname(sub.workdir), "rows_%s.json" % os.path.basename(sub.workdir)), "w") as f:
        json.dump(rows, f)


def run(ctx):
    env.init()
    consts = {"Tier": '"quick"' if ctx.quick else '"full"'}
    cases = table.generate(ctx, "GitCommitMapGen", consts,
                           invariants=("LawsHoldOnSpec", "DeviationIsTheOnlyFailure"),
                           witnesses=("WitnessFull",))
    if not cases:
        ctx.machinery("generator produced no cases")
    cases.sort(key=lambda k: json.dumps(k["c"], sort_keys=True))
    core.fork_map(ctx, _chunk, cases)
    rows = []
    for fn in sorted(os.listdir(ctx.workdir)):
        if fn.startswith("rows_w"):
            with open(os.path.join(ctx.workdir, fn)) as f:
                rows.extend(json.load(f))
            os.unlink(os.path.join(ctx.workdir, fn))
    if len(rows) != len(cases):
        ctx.machinery("replayed %d of %d cases" % (len(rows), len(cases)))
    rows.sort(key=lambda r: json.dumps(r["c"], sort_keys=True))
    accepted = sum(1 for r in rows if r["impl"]["accepted"])
    same = sum(1 for r in rows if r["impl"]["accepted"] and r["impl"]["out"] == "same" and r["impl"]["outC"] == "same")
    if not accepted or not same:
        ctx.machinery("vacuous: %d commits accepted by import_commit, %d round-tripped" % (accepted, same))
    ctx.cov.update(accepted_by_import=accepted, rejected_by_import=len(rows) - accepted, byte_identical=same,
                   exhaustive=True)
    ctx.rule("product of commit field classes enumerated by TLC (%s); each case concretised to one hostile byte string "
             "per class, imported (strict) and exported (lossy) by the default git mapping, once parsed from its bytes "
             "and once as a constructed dulwich object; non-trivial = accepted and >= 2 fields off their benign default"
             % ("5 encoding headers x 3 byte classes x 2 identities x 5 messages x "
                + DOMAINS["quick" if ctx.quick else "full"]))
    ctx.assume("identities are well-formed 'Name <email>'; extra header values are single-line")
    ctx.sample(next(r for r in rows if r["impl"]["accepted"] and len(r["impl"]["keys"]) >= 8))
    ctx.sample(next((r for r in rows if r["impl"]["accepted"] and r["impl"]["out"] != "same"), rows[0]))
    ctx.sample(next(r for r in rows if not r["impl"]["accepted"]))
    judged = [{"c": r["c"], "impl": r["impl"]} for r in rows]
    extra = {id(j): r for j, r in zip(judged, rows)}
    known = {}
    ndrift = 0
    for row, failed, drift in table.judge(ctx, "GitCommitMapTrace", judged, chunk=40000):
        c, o, full = row["c"], row["impl"], extra[id(row)]
        _report(ctx, c, dict(o, diff=full["diff"], diffC=full["diffC"]), failed, known)
        if drift:
            ndrift += 1
            if ndrift <= 20:
                ctx.drift("import/export differs from the transcription on %s: %s" % (c, o), row)
            else:
                ctx.cov["drift"] += 1


def replay(ctx, rep):
    env.init()
    c = rep["replay"]["c"]
    built, raw = concretise(c)
    print("abstract commit:", c)
    print("bytes:", raw)
    o = observe(c)
    print("recorded:", rep["replay"]["impl"])
    print("now:     ", o)
    _report(ctx, c, o, sorted(_failure(o)), {})
