"""C15 — shelving and unshelving restore exactly the shelved changes."""
import hashlib
import os
import re
import shutil

from vf import env, tlc, core, table
from vf.tlaval import parse_state, to_py
from harness import table_common

META = dict(
    property_id="C15", level="model_checking", design_ref="DESIGN.md §4 C15",
    technique="TLA+ model of pending change sets, the units iter_shelvable offers and hunk-granular selections, with "
              "tree = Apply(basis, changes \\ shelved) as the law, model-checked by TLC over every change set and every "
              "selection; the TLC case table is replayed through the real ShelfCreator / Shelver / Unshelver / "
              "ShelfManager on on-disk 2a trees and the projections before shelving, after shelving and after "
              "unshelving are judged by TLC; a TLA+ state machine of the shelf manager (ids, survival until delete) is "
              "model-checked and a transition cover of its state graph is replayed on a real tree",
    level_text="TLC enumerates every valid set of at most 2 (quick) / 3 (thorough, plus a seeded sample of 4) pending "
               "edits over two text files with two independently selectable hunks, a symlink and a new file (modify "
               "hunk, rename, delete in three flavours, kind change, retarget, chmod, add) and EVERY subset of the "
               "offered units; it proves the selection algebra on the model and each case is executed twice on a real "
               "tree: through shelf_ui.Shelver with scripted answers (real hunk selection) + shelf_ui.Unshelver, and "
               "through ShelfCreator.shelve_change / shelve_lines + ShelfManager + Unshelver.make_merger. Versioned "
               "paths, kinds, contents, exec bits, unversioned leftovers, conflicts and the set of files reported by "
               "iter_changes must equal Apply(basis, kept) after shelving and the pre-shelve projection after "
               "unshelving. The operation is a pure function of (change set, selection), so small-scope exhaustion "
               "is the right level.",
    level_note="One representative path / content per change kind; directories are only rename targets; shelving is "
               "bzr-only (git trees raise ShelvingUnsupported). Unshelving is always onto the unchanged shelve result. "
               "Trusted: TLC, the JSON bridge, the projection code in this harness.",
)

SEP = "".join("s%d\n" % i for i in range(1, 9))
IDS = {"a": b"a-id", "b": b"b-id", "l": b"l-id", "d": b"d-id", "n": b"n-id"}
FILES = ("a", "b", "l", "n")
WITNESSES = ("WitnessOneHunkOfTwo", "WitnessRenameKeptEditShelved", "WitnessExecStays", "WitnessMovedFileHunk",
             "WitnessManyFiles")


def text(f, ra, rb):
    """two-region text; a local edit of region A also ADDS a line, so hunk offsets matter for later hunks"""
    return ("top %s\nA-%s\n%s%sB-%s\nend %s\n" % (f, ra, "A-L+\n" if ra == "L" else "", SEP, rb, f)).encode()


_rx = re.compile(rb"^top (\S+)\nA-(\w)\n(A-L\+\n)?" + re.escape(SEP.encode()) + rb"B-(\w)\nend (\S+)\n$")


def tag(b):
    m = _rx.match(b)
    if m and m.group(1) == m.group(5) and bool(m.group(3)) == (m.group(2) == b"L"):
        return "%s:%s/%s" % (m.group(1).decode(), m.group(2).decode(), m.group(4).decode())
    return "X:" + hashlib.sha1(b).hexdigest()[:8]


# ----------------------------------------------------------------------------- fixture
def build_base(p, extra=0):
    """basis: text files a, b, symlink l -> t0, directory d (all with fixed file ids); `extra` pending added files
    n1..n<extra> for the shelf-manager replay."""
    from breezy import controldir
    wt = controldir.ControlDir.create_standalone_workingtree(p, format=controldir.format_registry.make_controldir("2a"))
    for f in ("a", "b"):
        with open(os.path.join(p, f), "wb") as fh:
            fh.write(text(f, "0", "0"))
    os.symlink("t0", os.path.join(p, "l"))
    os.mkdir(os.path.join(p, "d"))
    wt.add(["a", "b", "l", "d"], ids=[IDS[x] for x in ("a", "b", "l", "d")])
    wt.commit("base", rev_id=b"r1")
    for i in range(1, extra + 1):
        with open(os.path.join(p, "n%d" % i), "wb") as fh:
            fh.write(text("n%d" % i, "L", "0"))
        wt.add(["n%d" % i], ids=[b"n%d-id" % i])
    return wt


def apply_atoms(wt, atoms):
    """make the pending changes of the case on the real tree (atoms: set of 'f.k')."""
    p = wt.basedir
    by = {}
    for at in atoms:
        f, k = at.split(".")
        by.setdefault(f, set()).add(k)
    for f, ks in sorted(by.items()):
        fp = os.path.join(p, f)
        if f == "n":
            with open(fp, "wb") as fh:
                fh.write(text("n", "L", "0"))
            if "addx" in ks:
                os.chmod(fp, 0o755)
            wt.add(["n"], ids=[IDS["n"]])
            continue
        if "modA" in ks or "modB" in ks:
            with open(fp, "wb") as fh:
                fh.write(text(f, "L" if "modA" in ks else "0", "L" if "modB" in ks else "0"))
        if "kind" in ks:
            os.unlink(fp)
            if f == "l":
                with open(fp, "wb") as fh:
                    fh.write(text("l", "L", "0"))
            else:
                os.symlink("k1", fp)
        if "tgt" in ks:
            os.unlink(fp)
            os.symlink("t1", fp)
        if "exec" in ks:
            os.chmod(fp, 0o755)
        cur = f
        if "ren" in ks:
            wt.rename_one(f, "d/%sr" % f)              # new parent AND new name
            cur = "d/%sr" % f
        if "del" in ks:
            wt.remove([cur], keep_files=False, force=True)
        if "miss" in ks:
            os.unlink(os.path.join(p, cur))
        if "unver" in ks:
            wt.remove([cur], keep_files=True)


# ----------------------------------------------------------------------------- projection
def project(p):
    """raw projection of the tree directory + versioning + iter_changes(basis) + conflicts, from a FRESH tree object"""
    from breezy.workingtree import WorkingTree
    wt = WorkingTree.open(p)
    ver, unv = {}, []
    with wt.lock_read():
        vpaths = set()
        for path, ie in wt.iter_entries_by_dir():
            if path == "":
                continue
            vpaths.add(path)
            fid = ie.file_id.decode()
            ap = os.path.join(p, path)
            if not os.path.lexists(ap):
                ver[fid] = [path, "missing", "", False]
            elif os.path.islink(ap):
                ver[fid] = [path, "symlink", os.readlink(ap), False]
            elif os.path.isdir(ap):
                ver[fid] = [path, "directory", "", False]
            else:
                with open(ap, "rb") as fh:
                    ver[fid] = [path, "file", tag(fh.read()), bool(os.stat(ap).st_mode & 0o100)]
        for dp, dn, fn in os.walk(p):
            dn[:] = [x for x in dn if not (dp == p and x == ".bzr")]
            for n in dn + fn:
                ap = os.path.join(dp, n)
                rel = os.path.relpath(ap, p)
                if rel in vpaths:
                    continue
                if os.path.islink(ap):
                    unv.append([rel, "symlink", os.readlink(ap), False])
                elif os.path.isdir(ap):
                    unv.append([rel, "directory", "", False])
                else:
                    with open(ap, "rb") as fh:
                        unv.append([rel, "file", tag(fh.read()), bool(os.stat(ap).st_mode & 0o100)])
        bt = wt.basis_tree()
        with bt.lock_read():
            changed = sorted({c.file_id.decode() for c in wt.iter_changes(bt)})
        conflicts = sorted(str(c) for c in wt.conflicts())
    return {"ver": ver, "unv": sorted(unv), "changed": changed, "conflicts": conflicts}


def _rec(f, ver, path, kind, content, ex):
    if kind == "missing":
        return {"ver": ver, "disk": False, "path": path, "kind": "-", "ra": "-", "rb": "-", "tgt": "-", "exec": False}
    ra = rb = tgt = "-"
    if kind == "file":
        m = re.match(r"^(\w+):(\w)/(\w)$", content)
        ra, rb = (m.group(2), m.group(3)) if m and m.group(1) == f else ("?", "?")
    elif kind == "symlink":
        tgt = content
    return {"ver": ver, "disk": True, "path": path, "kind": kind, "ra": ra, "rb": rb, "tgt": tgt, "exec": bool(ex)}


def abstract(pr):
    """raw projection -> the model's [files, changed, extra]"""
    ver, unv = dict(pr["ver"]), [list(u) for u in pr["unv"]]
    files, extra = {}, []
    for f in FILES:
        fid = f + "-id"
        if fid in ver:
            path, kind, content, ex = ver.pop(fid)
            files[f] = _rec(f, True, path, kind, content, ex)
        else:
            hit = next((u for u in unv if u[0] in (f, "d/%sr" % f)), None)
            if hit is not None:
                unv.remove(hit)
                files[f] = _rec(f, False, hit[0], hit[1], hit[2], hit[3])
            else:
                files[f] = {"ver": False, "disk": False, "path": f, "kind": "-", "ra": "-", "rb": "-", "tgt": "-",
                            "exec": False}
    d = ver.pop("d-id", None)
    if d != ["d", "directory", "", False]:
        extra.append("d:%s" % (d,))
    extra += ["versioned:%s:%s" % (k, v) for k, v in sorted(ver.items())]
    extra += ["unversioned:%s:%s:%s" % (u[0], u[1], u[2]) for u in unv]
    extra += ["conflict:%s" % c for c in pr["conflicts"]]
    changed = sorted(c[:-3] for c in pr["changed"] if c != "d-id" and c[:-3] in FILES)
    extra += ["changed:%s" % c for c in pr["changed"] if c == "d-id" or c[:-3] not in FILES]
    return {"files": files, "changed": changed, "extra": extra}


# ----------------------------------------------------------------------------- driving shelve / unshelve
def unit_of(change):
    f = change[1].decode()[:-3]
    k = {"add file": "add", "delete file": "del", "rename": "ren", "change kind": "kind", "modify target": "tgt",
         "modify text": "mod"}[change[0]]
    return f + "." + k


class _Sink:
    def write(self, b):
        pass

    def flush(self):
        pass


def shelve_ui(p, atoms, sel, message):
    """shelf_ui.Shelver with scripted answers (unit selected?); returns the units it asked about."""
    from breezy import shelf_ui
    from breezy.workingtree import WorkingTree
    wt = WorkingTree.open(p)
    asked = []

    class Rep(shelf_ui.ShelfReporter):
        def no_changes(self):
            pass

        def prompt_change(self, change):
            sh._cur = unit_of(change)
            return super().prompt_change(change)

    class Scripted(shelf_ui.Shelver):
        def handle_modify_text(self, creator, file_id):
            f = file_id.decode()[:-3]
            self._hunks = [h for h in (f + ".modA", f + ".modB") if h in atoms]
            self._cur = None
            return super().handle_modify_text(creator, file_id)

        def prompt_bool(self, question, allow_editor=False):
            if re.match(r"^Shelve \d+ change\(s\)\?$", question):
                return True
            if self._cur is None:
                u = self._hunks.pop(0) if self._hunks else "?.hunk"
            else:
                u, self._cur = self._cur, "?.again"
            asked.append(u)
            return u in sel

    sh = Scripted(wt, wt.basis_tree(), diff_writer=_Sink(), message=message, reporter=Rep())
    sh._cur = "?.start"
    try:
        sh.run()
    finally:
        sh.finalize()
    return asked


def shelve_lib(p, atoms, sel, message, mid_files):
    """ShelfCreator driven directly; text hunks through shelve_lines with the lines the model expects."""
    from breezy import shelf, osutils
    from breezy.workingtree import WorkingTree
    wt = WorkingTree.open(p)
    offered, n = [], 0
    with wt.lock_tree_write():
        creator = shelf.ShelfCreator(wt, wt.basis_tree())
        try:
            for change in creator.iter_shelvable():
                u = unit_of(change)
                if u.endswith(".mod"):
                    f = u[:-4]
                    hunks = [h for h in (f + ".modA", f + ".modB") if h in atoms]
                    offered += hunks
                    if any(h in sel for h in hunks):
                        want = mid_files[f]
                        creator.shelve_lines(change[1], osutils.split_lines(text(f, want["ra"], want["rb"])))
                        n += 1
                else:
                    offered.append(u)
                    if u in sel:
                        creator.shelve_change(change)
                        n += 1
            if n:
                wt.get_shelf_manager().shelve_changes(creator, message)
        finally:
            creator.finalize()
    return offered


def unshelve(p, mode):
    from breezy import shelf_ui
    from breezy.workingtree import WorkingTree
    wt = WorkingTree.open(p)
    m = wt.get_shelf_manager()
    sid = m.last_shelf()
    if mode == "ui":
        shelf_ui.Unshelver(wt, m, sid).run()
    else:
        with wt.lock_tree_write():
            u = m.get_unshelver(sid)
            try:
                u.make_merger().do_merge()
            finally:
                u.finalize()
            m.delete_shelf(sid)


def shelf_ids(p):
    from breezy.workingtree import WorkingTree
    return WorkingTree.open(p).get_shelf_manager().active_shelves()


def atoms_of(seq):
    return sorted("%s.%s" % (x["f"], x["k"]) for x in seq)


def _replay(sub, items):
    top = os.path.join(sub.workdir, "c15")
    os.makedirs(top)
    tmpl = os.path.join(top, "tmpl")
    build_base(tmpl)
    rows = sub.cov.setdefault("_collect", [])
    from breezy.workingtree import WorkingTree
    for k, mode in items:
        D, S = atoms_of(k["c"]["D"]), atoms_of(k["c"]["S"])
        p = os.path.join(top, "cur")
        shutil.rmtree(p, ignore_errors=True)
        shutil.copytree(tmpl, p, symlinks=True)
        apply_atoms(WorkingTree.open(p), D)
        impl = {"pre": abstract(project(p)), "offered": [], "err": ""}
        try:
            if mode == "ui":
                offered = shelve_ui(p, set(D), set(S), "case")
            else:
                offered = shelve_lib(p, set(D), set(S), "case", k["spec"]["mid"]["files"])
            impl["offered"] = [dict(zip("fk", u.split("."))) for u in sorted(set(offered))]
        except Exception as e:
            impl["err"] = "shelve:%s: %s" % (type(e).__name__, str(e)[:120])
        impl["mid"] = abstract(project(p))
        ids = shelf_ids(p)
        impl["shelved"] = bool(ids)
        if ids and S and not impl["err"]:
            try:
                unshelve(p, mode)
            except Exception as e:
                impl["err"] = "unshelve:%s: %s" % (type(e).__name__, str(e)[:120])
            impl["post"] = abstract(project(p))
            impl["left"] = shelf_ids(p)
        else:
            impl["post"] = impl["mid"]
            impl["left"] = []
        rows.append({"c": k["c"], "mode": mode, "impl": impl})
        sub.count(1)
        if S and len(S) < len([a for a in D if not a.endswith(".exec")]):
            sub.nontrivial((tuple(D), tuple(S), mode))
    shutil.rmtree(top, ignore_errors=True)


# ----------------------------------------------------------------------------- verdicts
KCLASS = {"a": "text", "b": "text", "l": "symlink", "n": "new"}


def signatures(row, failed):
    """narrow signatures, one per failing clause and wrongly projected file: clause : root-cause class where the
    failure has a recognised shape, else clause : the file's pending edits / which were shelved / which fields are
    wrong.  No file names, no modes."""
    c, impl = row["c"], row["impl"]
    D, S = atoms_of(c["D"]), set(atoms_of(c["S"]))
    exp = row["_spec"]
    if impl["err"]:
        stage, exc = impl["err"].split(":")[:2]
        return ["raises:%s:%s:%s" % (stage, exc, "+".join(sorted({a.split(".")[1] for a in D})))]
    out = []
    for law in failed:
        stage = {"shelve-exact": "mid", "unshelve-restores": "post", "nothing": "mid"}[law]
        got, want = impl[stage], exp[stage]
        parts = []
        for f in FILES:
            g, w = got["files"][f], want["files"][f]
            if g == w:
                continue
            ks = sorted(a.split(".")[1] for a in D if a.startswith(f + "."))
            gone = set(ks) & {"del", "miss", "unver"}
            sh = sorted(k for k in ks if _unit(f, k) in S and (k in gone or not gone))
            wrong = sorted(x for x in w if g[x] != w[x])
            if law == "unshelve-restores" and wrong == ["exec"] and "exec" in ks and set(sh) & {"modA", "modB"} and not g["exec"]:
                parts.append("Unshelver/merge:exec-bit-kept-in-tree-lost-when-text-of-same-file-unshelved")
            elif law == "unshelve-restores" and wrong == ["exec"] and ks == ["addx"] and not g["exec"]:
                parts.append("ShelfCreator.shelve_creation:exec-bit-of-shelved-added-file-not-recorded")
            elif law == "unshelve-restores" and ks == ["miss"] and wrong == ["ver"]:
                parts.append("ShelfCreator.shelve_deletion:missing-but-versioned-file-comes-back-unversioned")
            elif law == "unshelve-restores" and "unver" in ks and sh == ["unver"] and not g["disk"]:
                parts.append("ShelfCreator.shelve_deletion:unversioned-kept-file-deleted-from-disk")
            elif law == "unshelve-restores" and "unver" in ks and sh == ["unver"] and g["path"].endswith(".THIS"):
                parts.append("ShelfCreator.shelve_deletion:edited-unversioned-kept-file-ends-in-contents-conflict")
            else:
                parts.append("%s[%s]shelved[%s]wrong[%s]" % (KCLASS[f], "+".join(ks), "+".join(sh), "+".join(wrong)))
        if not parts:
            if got["extra"] != want["extra"]:
                parts.append("leftover[%s]" % "+".join(sorted({e.split(":")[0] for e in got["extra"]})))
            elif sorted(got["changed"]) != sorted(want["changed"]):
                parts.append("iter_changes")
            elif law == "unshelve-restores" and impl["post"] != impl["pre"]:
                parts.append("post-differs-from-pre")
            elif law == "nothing":
                parts.append("shelf-created-for-empty-selection")
        out += ["%s:%s" % (law, p) for p in sorted(set(parts))] or ["%s:?" % law]
    return out


def _unit(f, k):
    return "%s.%s" % (f, "del" if k in ("del", "miss", "unver") else "add" if k == "addx" else k)


def _judge(ctx, rows, chunk=5000):
    import json
    bad = []
    for off in range(0, len(rows), chunk):
        part = [{"c": r["c"], "impl": {k: r["impl"][k] for k in ("pre", "mid", "post", "shelved", "offered")}}
                for r in rows[off:off + chunk]]
        fin = os.path.join(ctx.workdir, "rows_%d.json" % off)
        with open(fin, "w") as f:
            json.dump(part, f)
        data, _ = tlc.json_cases(ctx, "ShelfTrace", cfg_text=table.cfg(), env={"VF_IN": fin}, label="ShelfTrace", workers=4)
        os.unlink(fin)
        if data["n"] != len(part):
            ctx.machinery("trace module consumed %s of %d rows" % (data["n"], len(part)))
        bad.extend((rows[off + b["row"] - 1], b) for b in data["bad"])
        ctx.count(0, traces=len(part))
    return bad


# ----------------------------------------------------------------------------- shelf manager state machine
MGR_CFG = ("SPECIFICATION %s\nCONSTANTS\n  NCh = %d\n  MaxSer = %d\n  Fill = %d\nINVARIANT UniqueIds\nINVARIANT NextIdAboveAll\n"
           "PROPERTY SurvivesUntilDeleted\nPROPERTY NewIdIsFresh\n"
           "PROPERTY OnlyShelveCreates\n")
_act = re.compile(r"^(\w+)\((.*)\)$")


_msg = re.compile(r"^ser-(\d+)-ch-(\d+)$")


def mgr_proj(wt, nch, cheap=False):
    """what a manager shows: existing shelves [id, change held, serial] (serial from the shelf's message; the change
    from the shelf's CONTENT, or - cheap, for the many-shelves behaviours - from the message too), the answer of
    last_shelf() (0 = None) and the changes present in the tree"""
    m = wt.get_shelf_manager()
    sh = []
    for i in m.active_shelves():
        mm = _msg.match(m.get_metadata(i).get(b"message") or "")
        if cheap:
            ch = int(mm.group(2)) if mm else -1
        else:
            u = m.get_unshelver(i)
            try:
                pt = u.transform.get_preview_tree()
                with pt.lock_read():
                    adds = [c for c in range(1, nch + 1) if pt.is_versioned("n%d" % c)]
            finally:
                u.finalize()
            ch = adds[0] if len(adds) == 1 else -1
        sh.append([i, ch, int(mm.group(1)) if mm else -1])
    with wt.lock_read():
        tree = [c for c in range(1, nch + 1) if wt.is_versioned("n%d" % c) and os.path.exists(wt.abspath("n%d" % c))]
    return {"shelves": sorted(sh), "tree": tree, "last": m.last_shelf() or 0}


def _replay_mgr(sub, items):
    from breezy import shelf, shelf_ui
    from breezy.workingtree import WorkingTree
    top = os.path.join(sub.workdir, "c15m")
    os.makedirs(top)
    tmpls, filled = {}, {}
    for nch, fill, nodes, path, idx in [(n, f, nd, pth, i) for n, f, nd, batch in items for pth, i in batch]:
        if nch not in tmpls:
            tmpls[nch] = os.path.join(top, "tmpl%d" % nch)
            build_base(tmpls[nch], extra=nch)
        p = os.path.join(top, "cur")
        shutil.rmtree(p, ignore_errors=True)
        calls = []
        steps = path[1:]
        prefix = tuple(a for a, _ in steps[:fill])
        wsh = []
        if fill and (nch, prefix) in filled:
            # the common beginning of the many-shelves behaviours (Fill shelves, one after the other) was replayed and
            # checked step by step once in this worker; continue from a copy of the tree it left
            shutil.copytree(filled[(nch, prefix)], p, symlinks=True)
            calls = [[a, ""] for a in prefix]
            want = to_py(parse_state(nodes[steps[fill - 1][1]]))
            wsh = sorted([s["id"], s["ch"], s["ser"]] for s in want["shelves"])
            steps = steps[fill:]
        else:
            shutil.copytree(tmpls[nch], p, symlinks=True)
        wt = WorkingTree.open(p)
        for act, nid in steps:
            prev_top = max([s[0] for s in wsh] or [0])
            want = to_py(parse_state(nodes[nid]))
            wsh = sorted([s["id"], s["ch"], s["ser"]] for s in want["shelves"])
            wtree = sorted(want["tree"])
            wlast = max([s[0] for s in wsh] or [0])
            name, args = _act.match(act).groups()
            name = name[1:] if name in ("MShelve", "MUnshelve", "MDelete") else name
            args = [a.strip() for a in args.split(",")]
            err = ""
            try:
                if name == "Shelve":
                    c = int(args[0])
                    if idx % 2:
                        sh = shelf_ui.Shelver(wt, wt.basis_tree(), diff_writer=_Sink(), auto=True, auto_apply=True,
                                              file_list=["n%d" % c], message="ser-%d-ch-%d" % (want["ser"], c))
                        try:
                            sh.run()
                        finally:
                            sh.finalize()
                    else:
                        with wt.lock_tree_write():
                            creator = shelf.ShelfCreator(wt, wt.basis_tree(), ["n%d" % c])
                            try:
                                creator.shelve_all()
                                wt.get_shelf_manager().shelve_changes(creator, "ser-%d-ch-%d" % (want["ser"], c))
                            finally:
                                creator.finalize()
                elif name == "Unshelve":
                    sid = int(args[0])
                    if sid == prev_top:          # the newest shelf is addressed the way `unshelve` without id does
                        sid = wt.get_shelf_manager().last_shelf()
                    shelf_ui.Unshelver(wt, wt.get_shelf_manager(), sid, apply_changes=True,
                                       delete_shelf=args[1] != "TRUE").run()
                elif name == "Delete":
                    wt.get_shelf_manager().delete_shelf(int(args[0]))
            except Exception as e:
                err = "%s: %s" % (type(e).__name__, str(e)[:100])
            calls.append([act, err])
            live = mgr_proj(wt, nch, cheap=bool(fill))
            fresh = mgr_proj(WorkingTree.open(p), nch, cheap=bool(fill))
            rep = {"nch": nch, "calls": calls, "live": live, "fresh": fresh,
                   "spec": {"shelves": wsh, "tree": wtree, "last": wlast}}
            stop = True
            if err:
                sub.violation("mgr-raises:%s:%s" % (name, err.split(":")[0]), "%s raised %s" % (act, err), rep)
            elif live != fresh:
                sub.violation("mgr-reopen:%s" % name, "after %s a re-opened tree sees %s, the live one %s" % (act, fresh, live), rep)
            elif {tuple(s[1:]) for s in wsh} - {tuple(s[1:]) for s in fresh["shelves"]}:
                lost = sorted({tuple(s[1:]) for s in wsh} - {tuple(s[1:]) for s in fresh["shelves"]})
                sub.violation("mgr-shelf-lost:%s" % name, "after %s the shelves (change, serial) %s are gone: %s, specified %s" % (
                    act, lost, fresh["shelves"], wsh), rep)
            elif len({s[0] for s in fresh["shelves"]}) != len(fresh["shelves"]):
                sub.violation("mgr-duplicate-id:%s" % name, "after %s two shelves share an id: %s" % (act, fresh["shelves"]), rep)
            elif fresh["tree"] != wtree:
                sub.violation("mgr-tree:%s" % name, "after %s the tree holds changes %s, specified %s" % (act, fresh["tree"], wtree), rep)
            elif fresh["last"] != max([s[0] for s in fresh["shelves"]] or [0]):
                sub.violation("mgr-last-shelf:%s" % name, "after %s last_shelf() answers %s, the shelves are %s" % (
                    act, fresh["last"], fresh["shelves"]), rep)
                stop = False                 # go on: the next shelve shows whether something gets overwritten
            elif fresh["shelves"] != wsh:
                sub.drift("after %s the shelves are %s, the model says %s" % (act, fresh["shelves"], wsh), rep)
            else:
                stop = False
            if stop:
                break
            if fill and len(calls) == fill and (nch, prefix) not in filled:
                filled[(nch, prefix)] = os.path.join(top, "filled%d_%d" % (nch, len(filled)))
                shutil.copytree(p, filled[(nch, prefix)], symlinks=True)
        sub.count(1, traces=1)
        sub.nontrivial(("mgr", nch, tuple(a for a, _ in calls)))
        if idx == 3:
            sub.sample({"shelf-manager path": [a for a, _ in calls]})
    shutil.rmtree(top, ignore_errors=True)


def run(ctx):
    import logging
    env.init()
    logging.getLogger("brz").setLevel(logging.CRITICAL)      # "Text conflict in ...", "Contents conflict in ..."
    table_common.narrow_jvm()
    # ---- part 1: change sets x selections
    maxe = 2 if ctx.quick else 3
    cases, _ = table_common.generate(ctx, "ShelfGen", {"MaxEdits": maxe, "MaxSame": maxe + 1}, witnesses=WITNESSES, workers=4,
                                     timeout=1500)
    total = len(cases)
    extra = 0
    if not ctx.quick:
        more, _ = table_common.generate(ctx, "ShelfGen", {"MaxEdits": 4, "MaxSame": 4}, workers=8, timeout=2400, label="ShelfGen 4 edits")
        more = [k for k in more if len(k["c"]["D"]) == 4]
        more.sort(key=lambda k: (atoms_of(k["c"]["D"]), atoms_of(k["c"]["S"])))
        extra = min(len(more), 2500)
        cases += ctx.rng.sample(more, extra)
    spec_of = {(tuple(atoms_of(k["c"]["D"])), tuple(atoms_of(k["c"]["S"]))): k["spec"] for k in cases}
    core.fork_map(ctx, _replay, [(k, m) for k in cases for m in ("ui", "lib")])
    rows = ctx.collected
    ctx.collected = []
    if len(rows) != 2 * len(cases):
        ctx.machinery("replayed %d of %d runs" % (len(rows), 2 * len(cases)))
    for r in rows:
        r["_spec"] = spec_of[(tuple(atoms_of(r["c"]["D"])), tuple(atoms_of(r["c"]["S"])))]
    ctx.sample({k: v for k, v in next(r for r in rows if len(r["c"]["S"]) == 2 and r["mode"] == "ui").items() if k != "_spec"})
    for row, v in _judge(ctx, rows):
        c = row["c"]
        what = "D=%s S=%s via %s" % (atoms_of(c["D"]), atoms_of(c["S"]), row["mode"])
        if v.get("prebad"):
            ctx.machinery("fixture for %s is not the requested change set: %s" % (what, row["impl"]["pre"]))
        failed = sorted(v.get("failed", []))
        rep = {k: w for k, w in row.items() if k != "_spec"}
        if failed:
            for sig in signatures(row, failed):
                ctx.violation(sig, "%s: laws failed %s%s; after shelve %s; after unshelve %s; expected after shelve %s" % (
                    what, failed, (" (" + row["impl"]["err"] + ")") if row["impl"]["err"] else "",
                    _brief(row["impl"]["mid"]), _brief(row["impl"]["post"]), _brief(row["_spec"]["mid"])), rep)
        elif v.get("drift"):
            ctx.drift("%s: iter_shelvable offered %s, the model's units are different" % (
                what, atoms_of(row["impl"]["offered"])), rep)
    # ---- part 2: shelf manager ids / survival
    jobs = []
    # (spec, NCh, MaxSer, Fill, paths to take): all call sequences over few shelves, and the many-shelves behaviours
    # (10 shelves first, so that ids get a second digit, then everything at the ends of the shelf list)
    plans = ((("Spec", 2, 3, 0, 60), ("SpecMany", 11, 11, 10, None)) if ctx.quick else
             (("Spec", 2, 3, 0, None), ("Spec", 3, 3, 0, None), ("SpecMany", 12, 12, 10, None)))
    for spec, nch, maxser, fill, take in plans:
        for w in ("WitnessElevenShelves",) if fill else ("WitnessIdReused", "WitnessThreeShelves"):
            tlc.check(ctx, "ShelfMgr", cfg_text="SPECIFICATION %s\nCONSTANTS\n  NCh = %d\n  MaxSer = %d\n  Fill = %d\nINVARIANT %s\n" % (
                spec, nch, maxser, fill, w), expect_violation=w, label="witness " + w, workers=2)
        nodes, edges, inits, res = tlc.graph(ctx, "ShelfMgr", cfg_text=MGR_CFG % (spec, nch, maxser, fill), workers=4,
                                             label="ShelfMgr %s MC + graph %d/%d" % (spec, nch, maxser))
        paths = list(tlc.transition_cover(nodes, edges, inits, rng=ctx.rng, max_len=14 if not fill else 60))
        npaths = len(paths)
        if take is not None and len(paths) > take:
            paths = ctx.rng.sample(paths, take)
        ctx.cov.setdefault("graphs", []).append({"spec": spec, "nch": nch, "maxser": maxser, "fill": fill, "nodes": len(nodes),
                                                 "edges": len(edges), "paths": npaths, "replayed": len(paths)})
        batch = 4 if fill else 1          # many-shelves paths share their first `fill` steps: replayed once per batch
        for off in range(0, len(paths), batch):
            part = paths[off:off + batch]
            jobs.append((nch, fill, {nid: nodes[nid] for pth in part for _, nid in pth},
                         [(pth, off + j) for j, pth in enumerate(part)]))
    core.fork_map(ctx, _replay_mgr, jobs)
    ctx.cov["exhaustive"] = True
    ctx.cov["cases_enumerated"] = total
    ctx.rule("cases = every valid set of <= %d edits (one more when all edits concern the same file) over {a, b: modA modB "
             "ren del miss unver kind exec; l: tgt ren del kind; n: add addx} x every subset of the units iter_shelvable offers, enumerated by TLC (%d cases%s), each "
             "replayed through shelf_ui (scripted hunk selection) and through ShelfCreator directly; non-trivial = a "
             "proper non-empty sub-selection. Shelf manager: %s of TLC's state graph of ShelfMgr.tla (Shelve / "
             "Unshelve(apply|keep) / Delete) over 2-3 changes, plus a transition cover of the many-shelves behaviours (10 "
             "shelves first, then shelve / unshelve-newest-without-id / delete at both ends), every state (shelves with "
             "content and serial, last_shelf, tree) observed through the live and a re-opened manager" % (
                 maxe, total, " + a seeded sample of %d 4-edit cases" % extra if extra else "",
                 "a seeded sample of the transition-cover paths" if ctx.quick else "a transition cover"))
    ctx.assume("unshelve is applied to the unchanged result of the shelve; one representative per change kind")
    ctx.assume("iter_shelvable never offers a pure executable-bit change (nor an edit of a file that was unversioned with "
               "rm --keep): such a change cannot be part of any selection and the law requires it to STAY in the tree; "
               "that it cannot be shelved at all is not judged")


def _brief(p):
    return {f: "%(path)s %(kind)s %(ra)s/%(rb)s %(tgt)s%(x)s%(v)s" % dict(r, x=" +x" if r["exec"] else "",
                                                                           v="" if r["ver"] else " unversioned")
            if r["disk"] else ("missing" if r["ver"] else "absent") for f, r in p["files"].items()} | (
        {"extra": p["extra"]} if p["extra"] else {})


def replay(ctx, rep):
    """./check C15 --replay <file>: run the recorded shelve / unshelve case again on the current tree."""
    import logging
    env.init()
    logging.getLogger("brz").setLevel(logging.CRITICAL)
    row = rep["replay"]
    if "c" not in row:
        print("shelf-manager path: %s" % [a for a, _ in row["calls"]])
        return
    from breezy.workingtree import WorkingTree
    D, S = atoms_of(row["c"]["D"]), atoms_of(row["c"]["S"])
    p = os.path.join(ctx.tmp("replay"), "w")
    build_base(p)
    apply_atoms(WorkingTree.open(p), D)
    print("pending %s, shelving %s via %s" % (D, S, row["mode"]))
    print("before        %s" % _brief(abstract(project(p))))
    if row["mode"] == "ui":
        shelve_ui(p, set(D), set(S), "case")
    else:
        from vf import table as _t
        print("(lib mode needs the model's expected lines; replaying through shelf_ui instead)")
        shelve_ui(p, set(D), set(S), "case")
    print("after shelve  %s" % _brief(abstract(project(p))))
    if shelf_ids(p):
        unshelve(p, "ui")
        print("after unshelve %s" % _brief(abstract(project(p))))
    print("recorded signature: %s" % rep["signature"])
