"""C47 — path and line utilities satisfy their algebraic laws."""
from fractions import Fraction

from vf import env, table, core
from harness import table_common

META = dict(
    property_id="C47", level="model_checking", design_ref="DESIGN.md §4 C47",
    technique="declarative TLA+ definitions of containment / minimal cover / line splitting and a transcription of "
              "splitpath / joinpath, with the property's laws model-checked by TLC over complete bounded input spaces; "
              "TLC case tables replayed into the rebuilt Rust functions behind breezy.osutils; recorded results judged "
              "by the same TLA+ laws (dates: TLC supplies the input grid and judges the inverse law)",
    level_text="Exhaustive per part: all sets of <= 4 paths out of the 15 paths of <= 3 segments over {a, a-} (thorough: "
               "also all sets of <= 3 out of the 40 paths over {a, a-, b}), each probed with is_inside / is_inside_any "
               "against the whole universe; all path strings of <= 5 (7) characters over {a, ., /, \\}; all texts of <= 5 "
               "(6) bytes over {a, LF, CR} under all placements of <= 2 cuts incl. empty chunks; dates on a boundary grid of timestamps x microseconds x offsets (every "
               "whole-minute offset in thorough). The path and line functions are finite combinatorial functions, so "
               "small-scope exhaustion is the right level; for dates TLC is only the grid generator and judge.",
    level_note="Date formatting itself is not modelled (DESIGN §6): the law is the round trip observed at microsecond "
               "resolution for |t| < 2^33 s. Segment 'a-' sorts between 'a' and 'a/': the string-order hazard of "
               "minimum_path_selection. Trusted: TLC, the JSON bridge, the string <-> segment conversion of the harness.",
)

# "a-" sorts between "a" and "a/": the string-order hazard of a sort-based minimum_path_selection
# two universes for the "sel" laws: "sel" = 15 paths over {a, a-} with sets of <= 4, "selwide" (thorough only) = 40 paths
# over {a, a-, b} with sets of <= 3; both are TLA+ Part "sel"
SEGS = {"sel": ["a", "a-"], "selwide": ["a", "a-", "b"]}
MAXSET = {"sel": 4, "selwide": 3}
MAXDEPTH = 3
BOUNDS = {
    "quick": {"MaxPath": 5, "MaxText": 5, "MaxCuts": 2, "FullGrid": "FALSE"},
    "thorough": {"MaxPath": 7, "MaxText": 6, "MaxCuts": 2, "FullGrid": "TRUE"},
}
PARTS = {"quick": ("sel", "path", "text", "date"), "thorough": ("sel", "selwide", "path", "text", "date")}
WITNESSES = {"sel": ("WitnessSelSibling", "WitnessSelRoot"), "selwide": ("WitnessSelSibling", "WitnessSelRoot"),
             "path": ("WitnessPathDot", "WitnessPathDotDot", "WitnessPathNorm"),
             "text": ("WitnessTextCrLf", "WitnessTextEmpty"),
             "date": ("WitnessDateHalf", "WitnessDateNeg")}
BYTE = {"a": b"a", "LF": b"\n", "CR": b"\r"}
NAME = {97: "a", 10: "LF", 13: "CR"}
_TOTAL = {}


def _pstr(segs):
    return "/".join(segs)


def _psegs(s):
    return s.split("/") if s else []


def _tla_part(part):
    return "sel" if part == "selwide" else part


def _base_consts(part):
    """Constants of OsUtils (Gen and Trace): the TLA+ Part and the universe of the "sel" laws."""
    segs = SEGS.get(part, SEGS["sel"])
    return {"Part": '"%s"' % _tla_part(part), "Segs": "{%s}" % ", ".join('"%s"' % s for s in segs), "MaxDepth": MAXDEPTH}


def _universe(part):
    import itertools
    return [list(t) for k in range(MAXDEPTH + 1) for t in itertools.product(SEGS[part], repeat=k)]


# ---------------------------------------------------------------- one real execution per case
def _run_sel(ctx, c, universe):
    from breezy import osutils
    paths = [_pstr(p) for p in c["paths"]]
    sel = osutils.minimum_path_selection(list(paths))
    shuffled = list(paths)
    ctx.rng.shuffle(shuffled)
    any_, each = [], []
    for p in universe:
        ps = _pstr(p)
        if osutils.is_inside_any(shuffled, ps):
            any_.append(p)
        if any(osutils.is_inside(d, ps) for d in paths):
            each.append(p)
    if len(c["paths"]) >= 2 and len(sel) not in (0, len(paths)):
        ctx.nontrivial(tuple(sorted(paths)))
    return {"sel": sorted(_psegs(s) for s in sel), "any": any_, "each": each}


def _run_path(ctx, c):
    from breezy import osutils
    p = "".join(c["p"])
    try:
        segs = osutils.splitpath(p)
    except ValueError:
        return {"st": "split-error", "split": [], "joined": []}
    try:
        joined = osutils.joinpath(segs)
    except ValueError:
        return {"st": "join-error", "split": [list(s) for s in segs], "joined": []}
    if "/" in p or "." in p:
        ctx.nontrivial(p)
    return {"st": "ok", "split": [list(s) for s in segs], "joined": list(joined)}


def _run_text(ctx, c):
    from breezy import osutils
    t = b"".join(BYTE[x] for x in c["t"])
    cuts = [0] + list(c["cuts"]) + [len(t)]
    chunks = [t[cuts[i]:cuts[i + 1]] for i in range(len(cuts) - 1)]

    def q(lines):
        return [[NAME.get(b, "byte%d" % b) for b in l] for l in lines]
    if b"\n" in t and c["cuts"]:
        ctx.nontrivial((t, tuple(c["cuts"])))
    return {"lines": q(osutils.split_lines(t)), "cl": q(osutils.chunks_to_lines(chunks)),
            "cl1": q(osutils.chunks_to_lines([t]))}


def _run_date(ctx, c, row):
    from breezy import osutils
    exact = (Fraction(c["hi"] * 10 ** 6 + c["lo"]) + Fraction(c["us"], 10 ** 6)) * (-1 if c["neg"] else 1)
    t = float(exact)                      # correctly rounded; |t - exact| < 0.5 us for |t| < 2^33
    off = c["off"] * 60
    bad = {"ok": False, "neg": False, "hi": 0, "lo": 0, "us": 0, "off": 0}
    try:
        row["text"] = osutils.format_highres_date(t, off)
        t2, off2 = osutils.unpack_highres_date(row["text"])
    except Exception as e:  # noqa: BLE001 - any failure of either direction breaks the inverse law
        row["error"] = "%s: %s" % (type(e).__name__, e)
        return bad
    us_total = round(Fraction(t2) * 10 ** 6)          # exact rational arithmetic, nearest microsecond
    mag = abs(us_total)
    if off2 % 60 or mag >= 10 ** 6 * 10 ** 10:
        row["error"] = "unpacked (%r, %r) is off the grid" % (t2, off2)
        return bad
    if c["off"] % 60 or c["neg"] or c["us"]:
        ctx.nontrivial((c["neg"], c["hi"], c["lo"], c["us"], c["off"]))
    return {"ok": True, "neg": us_total < 0, "hi": mag // 10 ** 12, "lo": mag // 10 ** 6 % 10 ** 6, "us": mag % 10 ** 6,
            "off": off2 // 60}


def _signature(part, law, c):
    part = _tla_part(part)
    if part == "date":
        if c["off"] < 0 and c["off"] % 60:
            cls = "format_highres_date:negative-non-whole-hour-offset"
        elif c["neg"] and c["us"]:
            cls = "format_highres_date:negative-fractional-timestamp"
        else:
            cls = "highres_date:other-input"
        return "%s:%s" % (law, cls)
    if part == "sel":
        return "%s:path.rs:%d-paths" % (law, len(c["paths"]))
    if part == "path":
        return "%s:splitpath/joinpath:normalised-path" % law
    return "%s:lib.rs lines:%d-cuts" % (law, len(c["cuts"]))


def _show(part, c):
    if part in SEGS:
        return "paths %r" % [_pstr(p) for p in c["paths"]]
    if part == "path":
        return "path %r" % "".join(c["p"])
    if part == "text":
        return "text %r cuts %r" % (b"".join(BYTE[x] for x in c["t"]), c["cuts"])
    return "t=%s%d.%06d s, offset %d min" % ("-" if c["neg"] else "", c["hi"] * 10 ** 6 + c["lo"], c["us"], c["off"])


def _compact(part, row):
    o = row["impl"]
    if part in SEGS:
        return {k: [_pstr(p) for p in o[k]] for k in ("sel", "any", "each")}
    if part == "path":
        return {"st": o["st"], "split": ["".join(x) for x in o["split"]], "joined": "".join(o["joined"])}
    if part == "text":
        return {k: [b"".join(BYTE.get(x, b"?") for x in l) for l in o[k]] for k in ("lines", "cl", "cl1")}
    return {"formatted": row.get("text"), "unpacked": o, "error": row.get("error")}


def _replay(ctx, items):
    part = items[0][0]
    universe = _universe(part) if part in SEGS else None
    rows = []
    for _, k in items:
        c = k["c"]
        row = {"c": c}
        if part in SEGS:
            row["impl"] = _run_sel(ctx, c, universe)
        elif part == "path":
            row["impl"] = _run_path(ctx, c)
        elif part == "text":
            row["impl"] = _run_text(ctx, c)
        else:
            row["impl"] = _run_date(ctx, c, row)
        rows.append(row)
        ctx.count(1)
    for row, failed, drift in table.judge(ctx, "OsUtilsTrace", rows, constants=_base_consts(part), workers=2):
        c = row["c"]
        for law in failed:
            ctx.violation(_signature(part, law, c), "law %s fails on %s: real result %r %s" % (
                law, _show(part, c), row["impl"], row.get("text") or row.get("error") or ""), row)
        if drift and not failed:
            ctx.drift("%s: real result %r differs from the TLA+ definition" % (_show(part, c), row["impl"]), row)
    r = rows[len(rows) // 2]
    ctx.sample({"part": part, "cases_in_part": _TOTAL.get(part), "case": _show(part, r["c"]),
                "real": _compact(part, r)}, limit=1)


def _generate(ctx, part):
    consts = dict(_base_consts(part), MaxSet=MAXSET.get(part, 1), **BOUNDS[ctx.tier])
    cases, _ = table_common.generate(ctx, "OsUtilsGen", consts, witnesses=WITNESSES[part], label="OsUtilsGen " + part,
                                     workers=2 if ctx.quick else 8)
    _TOTAL[part] = len(cases)
    return [(part, k) for k in cases]


def _whole_part(ctx, parts):
    """quick tier: one worker process per part does generation, replay and judging (the parts are small)."""
    for part in parts:
        _replay(ctx, _generate(ctx, part))


def run(ctx):
    env.init()
    table_common.narrow_jvm()
    b = BOUNDS[ctx.tier]
    parts = PARTS[ctx.tier]
    if ctx.quick:
        core.fork_map(ctx, _whole_part, parts, nproc=4, chunks_per_proc=1)
    else:
        nproc = {"sel": 4, "selwide": 16, "path": 2, "text": 8, "date": 16}
        for part in parts:
            # the chunks of one part are judged by one Trace configuration: keep parts in separate fork_maps
            core.fork_map(ctx, _replay, _generate(ctx, part), nproc=nproc[part], chunks_per_proc=1)
    sel = "; ".join("every set of <= %d paths out of the %d paths of <= %d segments over {%s} (incl. the root)" % (
        MAXSET[p], len(_universe(p)), MAXDEPTH, ", ".join(SEGS[p])) for p in parts if p in SEGS)
    ctx.rule("sel: %s, each set probed with is_inside / is_inside_any against its whole universe; path: every string of "
             "<= %d chars over {a, ., /, \\}; text: every text of <= %d bytes over {a, LF, CR} x every non-decreasing "
             "placement of <= %d cuts (empty chunks included); date: 19 boundary timestamps (both signs) x microsecond "
             "values x whole-minute offsets (full grid: %s). All enumerated by TLC. Non-trivial = selection drops some but "
             "not all paths / path with a separator or dot / text with LF and at least one cut / date with odd offset, "
             "fraction or sign" % (sel, b["MaxPath"], b["MaxText"], b["MaxCuts"], b["FullGrid"]))
    ctx.cov["exhaustive"] = True
    ctx.assume("timestamps are compared at microsecond resolution; |t| < 2^33 s so that a double carries microseconds")
    ctx.assume("path segments are opaque to the containment functions apart from the separator")
