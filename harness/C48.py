"""C48 — ignore patterns match according to their documented semantics."""
import glob
import json
import os

from vf import env, table, core

META = dict(
    property_id="C48", level="model_checking", design_ref="DESIGN.md §4 C48",
    technique="TLA+ definition of the documented pattern semantics (recursive match relation over pattern tokens, "
              "basename / extension / fullpath classes, '!' / '!!' precedence) model-checked by TLC over a bounded "
              "grammar; TLC-generated table of ignore lists replayed into the real Globster, ExceptionGlobster, "
              "_OrderedGlobster and WorkingTree.is_ignored for every name of the grammar, with never-matching filler "
              "patterns inserted around the 99-pattern grouping limit; recorded results judged by the TLA+ laws",
    level_text="Exhaustive over the bounded grammar: every well-formed pattern of <= 3 (thorough 4) tokens over "
               "{a b . * ? / **/ [ab]} and RE: patterns over {a b / . .*}, all pairs / triples of prefixed entries over "
               "smaller pools, against every path of <= 4 characters over {a b . /} plus the three-level paths. TLC "
               "proves the laws on the spec's own prediction and that the extension class equals the documented "
               "basename meaning; every list is executed on the real classes; TLC evaluates the same laws on the "
               "recorded results. The matchers are pure functions of (patterns, name), so small-scope exhaustion is "
               "the right level.",
    level_note="Only pattern forms with unambiguous documented meaning are in the grammar (no backslashes, no "
               "negated or ranged groups, no '**' inside a component, no absolute patterns, RE: limited to literals, "
               "'.' and '.*'). Filler patterns use the letter z, which no name contains. Which of several matching "
               "patterns is reported is only compared as drift. Trusted: TLC, the JSON bridge, the rendering of "
               "token sequences by concatenation.",
)

QUICK = dict(MaxTok=3, MaxRE=2, MaxName=4, PairTok=1, Pair2Tok=1, PairRE=1, TripleSize=3, Parts=64)
THOROUGH = dict(MaxTok=4, MaxRE=3, MaxName=4, PairTok=2, Pair2Tok=1, PairRE=1, TripleSize=5, Parts=64)
FILL_COUNTS = (98, 99, 100, 200)
UNKNOWN = 99
_NAMES = []          # [(chars, string)] in the order of Glob!NameSeq (index + 1), set before forking
_IDX = {}            # string -> index in NameSeq


def render(tokens):
    return "".join(tokens)


def entry_text(e):
    return e["pre"] + render(e["pat"])


FILL = {1: "%s*.zz%d", 2: "%szz%d", 3: "%szz%d/zz"}      # class rank (Glob!KR) -> never-matching pattern of that class


def fillers(n, combos):
    """n never-matching patterns for every (prefix, class rank) in combos, interleaved."""
    return [FILL[kr] % (pre, i) for i in range(n) for pre, kr in combos]


def insert(items, pos, extra):
    return items[:pos] + extra + items[pos:]


class Case:
    def __init__(self, case):
        self.L = case["L"]
        self.norm = [render(n) for n in case["norm"]]
        self.pre = [e["pre"] for e in self.L]
        self.plain = [render(e["pat"]) for e in self.L]
        self.full = [entry_text(e) for e in self.L]
        self.combos = sorted(set(zip(self.pre, case["kr"])))          # (prefix, class) of the real patterns
        self.kinds = sorted({("", kr) for kr in case["kr"]})

    def idx_plain(self, ret):
        """canonical index of a string returned by Globster / _OrderedGlobster (prefixes do not count)."""
        if ret is None:
            return 0
        for i, n in enumerate(self.norm):
            if n == ret:
                return i + 1
        return UNKNOWN

    def idx_exc(self, ret):
        """canonical index of a string returned by ExceptionGlobster / is_ignored."""
        if ret is None:
            return 0
        if not isinstance(ret, str):
            return UNKNOWN
        order = ("!!",) if ret.startswith("!!") else ("", "!")
        text = ret[2:] if ret.startswith("!!") else ret
        for pre in order:
            for i, n in enumerate(self.norm):
                if self.pre[i] == pre and n == text:
                    return i + 1
        return UNKNOWN


def _observe(make, to_idx, names=None):
    """{name string: index} for the names where the matcher reports something; exceptions count as Unknown."""
    out = {}
    names = [s for _, s in _NAMES] if names is None else names
    try:
        m = make()
    except Exception:                                     # noqa: BLE001 - any failure of the real code is an outcome
        return {s: UNKNOWN for s in names}
    for s in names:
        try:
            r = to_idx(m(s))
        except Exception:                                 # noqa: BLE001
            r = UNKNOWN
        if r:
            out[s] = r
    return out


def _hits(cols):
    """merge per-observer {name: idx} into the sparse hit list of the Trace module."""
    keys = set()
    for d in cols.values():
        keys |= set(d)
    return [dict({"n": _IDX[s]}, **{f: d.get(s, 0) for f, d in cols.items()}) for s in sorted(keys, key=_IDX.get)]


def _run_case(sub, k, case, treedir):
    from breezy.globbing import ExceptionGlobster, Globster, _OrderedGlobster
    from breezy.workingtree import WorkingTree
    c = Case(case)

    def base(plain, full):
        return {"eg": _observe(lambda: ExceptionGlobster(full).match, c.idx_exc),
                "g": _observe(lambda: Globster(plain).match, c.idx_plain),
                "og": _observe(lambda: _OrderedGlobster(plain).match, c.idx_plain)}

    cols = base(c.plain, c.full)
    # tree level: the list is the .bzrignore of a real working tree (user and runtime ignores are empty)
    with open(os.path.join(treedir, ".bzrignore"), "w", encoding="utf-8") as f:
        f.write("".join(t + "\n" for t in c.full))

    def tree_matcher():
        wt = WorkingTree.open(treedir)
        return wt.is_ignored
    cols["tr"] = _observe(tree_matcher, c.idx_exc)
    chk = k % len(_NAMES)
    row = {"k": k, "L": c.L, "nn": len(_NAMES), "chk": {"n": chk + 1, "name": _NAMES[chk][0]},
           "obs": ["eg", "g", "og", "tr"], "hits": _hits(cols)}
    # grouping: n never-matching fillers of every (prefix, class) that occurs in the list, inserted before / between
    # / after the real patterns, so that every real pattern moves across the 99-pattern group boundary; observed on
    # (a rotating sample of <= ~40 of) the names reported by some matcher and on every 8th other name
    hit = set()
    for d in cols.values():
        hit |= set(d)
    step = 1 + len(hit) // 32
    hits_sorted = sorted(hit)
    keep = {s for j, s in enumerate(hits_sorted) if (j + k) % step == 0}
    on = [s for j, (_, s) in enumerate(_NAMES) if s in keep or (s not in hit and (j + k) % 8 == 0)]
    row["fon"] = [_IDX[s] for s in on]
    groups = {}
    positions = range(len(c.L) + 1)
    nvar = 0
    for n in FILL_COUNTS:
        for pos in positions:
            label = "n=%d,pos=%d" % (n, pos)
            nvar += 1
            v = {"eg": _observe(lambda: ExceptionGlobster(insert(c.full, pos, fillers(n, c.combos))).match,
                                c.idx_exc, on),
                 "g": _observe(lambda: Globster(insert(c.plain, pos, fillers(n, c.kinds))).match, c.idx_plain, on)}
            # _OrderedGlobster has one regex per pattern (no grouping): one rotating variant per list
            if (k + nvar) % (len(FILL_COUNTS) * len(positions)) == 0:
                v["og"] = _observe(lambda: _OrderedGlobster(insert(c.plain, pos, fillers(n, c.kinds[:1]))).match,
                                   c.idx_plain, on)
            else:
                v["og"] = {s: i for s, i in cols["og"].items() if s in on}
            h = _hits(v)
            key = json.dumps(h, sort_keys=True)
            groups.setdefault(key, {"labels": [], "hits": h})["labels"].append(label)
    row["fills"] = list(groups.values())
    row["nvar"] = nvar
    return row


def _replay(sub, chunk):
    from breezy import ignores
    from breezy import controldir
    treedir = os.path.join(sub.workdir, "tree")
    os.makedirs(treedir)
    controldir.ControlDir.create_standalone_workingtree(treedir, format=controldir.format_registry.make_controldir("2a"))
    if ignores.get_runtime_ignores() or ignores.get_user_ignores():
        sub.machinery("user / runtime ignores are not empty: %r %r" % (
            ignores.get_runtime_ignores(), ignores.get_user_ignores()))
    rows = [_run_case(sub, k, case, treedir) for k, case in chunk]
    sub.count(len(rows) * len(_NAMES))
    out = os.path.join(os.path.dirname(sub.workdir), "c48rows_%d_%d.json" % (os.getpid(), chunk[0][0]))
    with open(out, "w") as f:
        json.dump(rows, f)


def _kinds(c):
    def kind(t):
        t = t.rstrip("/")
        if t.startswith("RE:"):
            return "regex"
        if "/" in t:
            return "fullpath"
        return "extension" if t.startswith("*.") else "basename"
    return "+".join(sorted({kind(render(e["pat"])) for e in c}))


def run(ctx):
    global _NAMES, _IDX
    env.init()
    from breezy import ignores
    ignores._set_user_ignores([])                # the scratch BRZ_HOME must not contribute default patterns
    consts = dict(QUICK if ctx.quick else THOROUGH)
    data = table.generate(ctx, "GlobGen", consts, witnesses=("WitnessAll",), timeout=900)
    names, cases = data["names"], data["cases"]
    if not names or not cases:
        ctx.machinery("empty case table")
    _NAMES = [(list(n), render(n)) for n in names]
    _IDX = {s: j + 1 for j, (_, s) in enumerate(_NAMES)}
    core.fork_map(ctx, _replay, list(enumerate(cases)))
    rows = []
    for f in glob.glob(os.path.join(ctx.workdir, "c48rows_*.json")):
        with open(f) as fp:
            rows.extend(json.load(fp))
        os.unlink(f)
    rows.sort(key=lambda r: r["k"])
    if [r["k"] for r in rows] != list(range(len(cases))):
        ctx.machinery("replay returned %d rows for %d cases" % (len(rows), len(cases)))
    nvar = 0
    for r, case in zip(rows, cases):
        nvar += r.pop("nvar")
        # non-trivial: the list ignores some name of the grammar and does not ignore some other
        if 0 < len([h for h in case["exp"] if h["eg"]]) < len(names):
            ctx.nontrivial(json.dumps(case["L"], sort_keys=True))
    ctx.cov["filler_variants"] = nvar
    ctx.cov["names"] = len(names)
    ctx.cov["lists"] = len(cases)
    ctx.cov["exhaustive"] = True
    nm = [t for _, t in _NAMES]
    for r in (rows[len(rows) // 3], rows[2 * len(rows) // 3], rows[-1]):
        ctx.sample({"patterns": [entry_text(e) for e in r["L"]],
                    "reported": {nm[h["n"] - 1]: {f: h[f] for f in ("eg", "g", "og", "tr")} for h in r["hits"][:6]}})
    ctx.rule("ignore lists enumerated by TLC: every well-formed pattern of <= %(MaxTok)s tokens over {a b . * ? / **/ "
             "[ab]} and RE: + <= %(MaxRE)s of {a b / . .*}; both orders of two prefixed entries ('', '!', '!!') over "
             "patterns of <= %(PairTok)s and <= %(Pair2Tok)s tokens; triples of prefixed entries over a pool of "
             "%(TripleSize)s patterns; each list matched against all paths of <= %(MaxName)s characters over {a b . /} "
             "and the three-level one-character paths, plain and with 98/99/100/200 never-matching fillers of every "
             "class and prefix before, between and after; non-trivial = the list ignores some but not all names"
             % consts)
    ctx.assume("names contain no newline, backslash or non-ASCII character; patterns are inside the documented grammar")
    gconsts = {k: consts[k] for k in ("MaxTok", "MaxRE", "MaxName")}

    def proj(hits, on=None):
        return sorted((h["n"], h["eg"], h["g"], h["og"]) for h in hits
                      if (h["eg"] or h["g"] or h["og"]) and (on is None or h["n"] in on))

    for row, failed, drift in table.judge(ctx, "GlobTrace", rows, constants=gconsts, timeout=1500, workers=4, chunk=30000):
        pats = [entry_text(e) for e in row["L"]]
        exp = {render(h["name"]): h for h in cases[row["k"]]["exp"]}
        got = {nm[h["n"] - 1]: h for h in row["hits"]}
        diff = [(n, {f: got.get(n, {}).get(f, 0) for f in row["obs"]},
                 "predicted", {f: exp.get(n, {}).get(f, 0) for f in ("eg", "g", "og")})
                for n in sorted(set(exp) | set(got))
                if any(got.get(n, {}).get(f, 0) != exp.get(n, {}).get(f, 0) for f in ("eg", "g", "og"))
                or got.get(n, {}).get("tr", 0) != got.get(n, {}).get("eg", 0)][:6]
        if "coverage" in failed:
            ctx.machinery("row %s: names evaluated by the harness and names of the spec disagree" % row["k"])
        for law in failed:
            if law == "chunk":
                lab = [g["labels"] for g in row["fills"] if proj(g["hits"]) != proj(row["hits"], row["fon"])]
                counts = sorted({int(l.split(",")[0][2:]) for ls in lab for l in ls})
                ctx.violation("law:chunk:fillers>=%d:%s" % (counts[0] if counts else 0, _kinds(row["L"])),
                              "result for patterns %s changes when never-matching fillers are inserted: %s" % (
                                  pats, [ls[:3] for ls in lab][:3]), row)
            else:
                ctx.violation("law:%s:%s" % (law, _kinds(row["L"])),
                              "law %s fails for patterns %s (name, observed index per matcher): %s" % (law, pats, diff),
                              row)
        if drift and not failed:
            ctx.drift("reported pattern differs from the implementation-shaped prediction for %s: %s" % (pats, diff), row)
