"""C23 — checkouts and their master branches stay in step."""
import json
import os
import shutil

from vf import env, tlc, table, core, sched
from vf.tlaval import parse_state, to_py

META = dict(
    property_id="C23", level="model_checking", design_ref="DESIGN.md §4 C23",
    technique="TLA+ state machine of a master and two heavyweight checkouts (bound commit split into CheckBound / "
              "BuildRevision / SetMasterTip / SetLocalTip with a fault after any phase; commit --local, commits in the "
              "master and in a third branch, update, pull - also pull -r N from the third branch -, bind, unbind) model-checked by TLC with the clauses of C23 as invariants; a "
              "transition cover of TLC's state graph and TLC-simulated behaviours replayed on real on-disk heavyweight "
              "checkouts with transport faults injected inside Commit._update_branches; observations judged by TLC",
    level_text="TLC explores every sequence of the actions over a bounded number of revisions and proves on the model: a "
               "successful bound commit leaves master and checkout at the new revision, a commit against a moved or "
               "diverged master is refused with no tip changed, a commit cut off between the two tip writes never "
               "leaves the checkout ahead of its master, update / pull level the checkout with the master, local-only "
               "commits touch only the local branch, and the design's InStep invariant. Every edge of the state graph "
               "(quick: a random part of the cover) is executed on real branches and working trees; every transport "
               "operation of the tip-update phase is failed once; after every call the tips, binding, tree parents and "
               "who raised are recorded and judged by TLC with the same law text and compared with the model's state.",
    level_note="Faults are TransportErrors raised instead of one transport operation of the master (all operations) or "
               "of the local branch's control files while Commit._update_branches runs (a wrapper around that method "
               "marks the phase; /repo is not edited). Working trees never conflict (every commit adds its own file). "
               "Commits in the master are made by a tree that is updated first. Trusted: TLC, the JSON bridge.",
)

INV = ("LawsHold", "InStepAlways", "Composite", "TreeFollows")
WIT = ("WitnessMasterAhead", "WitnessRefusedDiverged", "WitnessUpdateKeepsLocalWork", "WitnessPullPartial",
       "WitnessLocalAheadByLocalCommit", "WitnessPullStop")
REFUSALS = ("BoundBranchOutOfDate", "OutOfDateTree", "DivergedBranches")


def cfg(maxrev, cs, invariants, unbindable=None, third=True):
    sett = lambda xs: "{%s}" % ", ".join('"%s"' % c for c in xs)
    return ("SPECIFICATION Spec\nCONSTANTS\n  MaxRev = %d\n  Cs = %s\n  Fs = %s\n  Unbindable = %s\n" % (
        maxrev, sett(cs), sett(["F"] if third else []), sett(cs if unbindable is None else unbindable))
            + "".join("INVARIANT %s\n" % i for i in invariants))


# ----------------------------------------------------------------------------- the tip-update phase, fault plans
class Phase:
    """Where the running commit is inside Commit._update_branches, and which transport operation has to fail.

    stage: 'built' (nothing written yet) -> 'masterset' (master's last-revision written) -> 'localset' (the local one
    too).  plan: None | ('phase', stage, j): fail the j-th operation of that stage, at the latest the write that ends
    it | ('index', k): fail the k-th operation of the phase."""
    active = False
    plan = None
    local = None
    stage = None
    pending = None
    count = 0
    in_stage = 0
    injected = None      # stage at which the fault was injected
    ops = []

    @classmethod
    def begin(cls):
        cls.active, cls.stage, cls.pending, cls.count, cls.in_stage, cls.injected, cls.ops = True, "built", None, 0, 0, None, []

    @classmethod
    def end(cls):
        if cls.pending:
            cls.stage, cls.pending = cls.pending, None
        cls.active = False


def significant(op, path):
    P = Phase
    if not P.active or path is None or sched.World.current is None or sched.World.current.me() is None:
        return False
    if "/lock" in path:                 # the lock protocol under faults is the subject of C26 / C27
        return False
    if P.pending:                       # the previous operation was a tip write and it was performed
        P.stage, P.pending, P.in_stage = P.pending, None, 0
    closes = None
    if op == "put_bytes" and path == "M/.bzr/branch/last-revision":
        closes = "masterset"
    elif op == "put_bytes" and path == P.local + "/.bzr/branch/last-revision":
        closes = "localset"
    P.count += 1
    P.in_stage += 1
    P.ops.append((op, path, P.stage))
    fail = False
    if P.plan and P.injected is None:
        if P.plan[0] == "index":
            fail = P.count == P.plan[1]
        elif P.plan[1] == P.stage:
            fail = P.in_stage == P.plan[2] or (closes is not None)
    if fail:
        w = sched.World.current
        me = w.me()
        w.faults[(me, w.procs[me]["seq"] + 1)] = sched.transport_error
        P.injected = P.stage
    else:
        P.pending = closes
    return True


def install_phase_marker():
    from breezy import commit as _c
    if getattr(_c.Commit._update_branches, "_vf", False):
        return
    orig = _c.Commit._update_branches

    def _update_branches(self, *a, **k):
        Phase.begin()
        try:
            return orig(self, *a, **k)
        finally:
            Phase.end()
    _update_branches._vf = True
    _c.Commit._update_branches = _update_branches


# ----------------------------------------------------------------------------- real world
def rev_num(r):
    if r in (b"null:", None):
        return 0
    return int(r[1:]) if r.startswith(b"r") and r[1:].isdigit() else 98


_TEMPLATES = {}


def template(workdir, cs):
    """The initial world (master with r1, the checkouts level with it), built once per process and copied per behaviour."""
    from breezy import controldir
    key = (os.getpid(), tuple(cs), workdir)
    if key not in _TEMPLATES:
        t = os.path.join(workdir, "template-%d-%s" % (os.getpid(), "".join(cs)))
        shutil.rmtree(t, ignore_errors=True)
        os.makedirs(t)
        fmt = controldir.format_registry.make_controldir("2a")
        mt = controldir.ControlDir.create_standalone_workingtree(t + "/M", format=fmt)
        Real.add_file(t + "/M", mt, 1, "M")
        mt.commit("r1", rev_id=b"r1")
        for c in cs:
            mt.branch.create_checkout(t + "/" + c, lightweight=False)
        mt.controldir.sprout(t + "/F")                     # the third branch: independent, never bound
        _TEMPLATES[key] = t
    return _TEMPLATES[key]


class Real:
    def __init__(self, base, cs):
        from breezy.branch import Branch
        self.base, self.cs = base, list(cs)
        shutil.copytree(template(os.path.dirname(base), cs), base, symlinks=True)
        self.w = sched.World("file://" + base + "/", significant=significant)
        for c in self.cs:           # bound to THIS world's master, through the fault-injecting transport
            br = Branch.open(base + "/" + c)
            with br.lock_write():
                br.set_bound_location(self.w.url("M"))
        self.nrev = 1
        self.graph = [[]]
        self.nproc = 0

    @staticmethod
    def add_file(path, wt, n, who):
        name = "n%d-%s" % (n, who)
        if not os.path.exists(os.path.join(path, name)):
            with open(os.path.join(path, name), "w") as f:
                f.write("file of r%d made in %s\n" % (n, who))
            wt.add([name])

    def observe(self, out="", who=None):
        from breezy.branch import Branch
        from breezy.workingtree import WorkingTree
        o = {"tip": {}, "bound": {}, "basis": {}, "pend": {}, "out": out, "np": []}
        opened = {}
        for b in ["M", "F"] + self.cs:
            if b in ("M", "F"):
                br = Branch.open(self.base + "/" + b)
            else:
                wt = WorkingTree.open(self.base + "/" + b)
                br = wt.branch
                ps = [rev_num(p) for p in wt.get_parent_ids()]
                o["basis"][b], o["pend"][b] = (ps[0] if ps else 0), ps[1:]
                o["bound"][b] = br.get_bound_location() is not None
            o["tip"][b] = rev_num(br.last_revision())
            opened[b] = br
        # did a revision come into existence?  (only the acting branch's repository can have got one)
        if who is not None:
            nid = b"r%d" % (self.nrev + 1)
            repo = opened[who].repository
            with repo.lock_read():
                if repo.has_revision(nid):
                    o["np"] = [[rev_num(p) for p in repo.get_revision(nid).parent_ids]]
                    self.nrev += 1
                    self.graph.append(o["np"][0])
        return o

    def run_gated(self, fn):
        self.nproc += 1
        name = "p%d" % self.nproc
        self.w.spawn(name, fn)
        guard = 0
        while not self.w.done(name):
            self.w.step(name)
            guard += 1
            if guard > 20000:
                raise core.MachineryError("commit does not finish")
        r = self.w.result(name)
        del self.w.procs[name]
        self.w.log.clear()
        if r[0] == "ok":
            return None
        if r[0] == "exc":
            return r[1]
        return "killed"

    def act(self, a):
        """Perform one action; returns (out, stage at which a fault was injected or None)."""
        from breezy.branch import Branch
        from breezy.workingtree import WorkingTree
        op, c = a["op"], a["c"]
        path = self.base + "/" + c
        new = b"r%d" % (self.nrev + 1)
        exc = None
        Phase.plan, Phase.injected = None, None
        try:
            if op == "commitM":
                mt = WorkingTree.open(path)
                mt.update()
                self.add_file(path, mt, self.nrev + 1, "M")
                mt.commit("commit in master", rev_id=new)
            elif op == "commitF":
                ft = WorkingTree.open(path)
                self.add_file(path, ft, self.nrev + 1, "F")
                ft.commit("commit in the third branch", rev_id=new)
            elif op in ("commit", "commitLocal", "commitUnbound"):
                wt = WorkingTree.open(path)
                self.add_file(path, wt, self.nrev + 1, c)
                if op == "commit" and a.get("plan"):
                    Phase.plan, Phase.local = tuple(a["plan"]), c
                    wt.branch._transport = self.w.transport(c + "/.bzr/branch/")
                    exc = self.run_gated(lambda: wt.commit("bound commit", rev_id=new))
                else:
                    wt.commit("commit", rev_id=new, local=(op == "commitLocal"))
            elif op == "update":
                WorkingTree.open(path).update()
            elif op == "pull":
                src = Branch.open(self.w.url("M") if a["src"] == "M" else self.base + "/" + a["src"])
                WorkingTree.open(path).pull(src, stop_revision=(b"r%d" % a["stop"]) if a.get("stop") else None)
            elif op == "bind":
                WorkingTree.open(path).branch.bind(Branch.open(self.w.url("M")))
            elif op == "unbind":
                WorkingTree.open(path).branch.unbind()
            else:
                raise core.MachineryError("unknown op %s" % op)
        except core.MachineryError:
            raise
        except Exception as e:          # noqa
            exc = type(e).__name__
        finally:
            Phase.plan = None
        injected = Phase.injected
        if exc is None:
            return "ok", injected
        if injected is not None:
            return "fault", injected
        return (exc if exc in REFUSALS else "error:" + exc), injected

    def close(self):
        try:
            self.w.close()
        finally:
            shutil.rmtree(self.base, ignore_errors=True)


def execute(cs, acts, base):
    """acts: spec actions [op, c, src, fault]; a commit may carry 'plan' (fault plan).  Returns (acts as executed, obs)."""
    rw = Real(base, cs)
    try:
        obs = [rw.observe()]
        done = []
        for a in acts:
            a = dict(a)
            if a["op"] == "commit" and a.get("fault") and not a.get("plan"):
                a["plan"] = ["phase", a["fault"], a.get("j", 1)]
            out, injected = rw.act(a)
            obs.append(rw.observe(out, a["c"]))
            # the action as it really happened: the phase at which the fault struck (none if the plan never fired)
            done.append({"op": a["op"], "c": a["c"], "src": a.get("src", ""), "stop": a.get("stop", 0),
                         "fault": injected if (injected and out == "fault") else "",
                         "note": "swallowed" if (injected and out == "ok") else ("not-injected" if (a.get("plan") and not injected and out == "ok") else "")})
            if done[-1]["note"] == "not-injected":
                done[-1]["plan"], done[-1]["phase_ops"] = a["plan"], [o for o in Phase.ops if o[2] != "built"][-4:] + [len(Phase.ops), out]
            if out.startswith("error:"):
                break
        return done, obs, rw.graph
    finally:
        rw.close()



class scratch:
    """Directory for the real worlds: RAM-backed when the machine has /dev/shm (commits fsync), else the check's workdir."""

    def __init__(self, sub):
        self.sub = sub

    def __enter__(self):
        import tempfile
        self.made = None
        if os.path.isdir("/dev/shm") and os.access("/dev/shm", os.W_OK):
            self.made = tempfile.mkdtemp(prefix="vf-C23-", dir="/dev/shm")
            return self.made
        return self.sub.workdir

    def __exit__(self, *a):
        if self.made:
            shutil.rmtree(self.made, ignore_errors=True)


def replay_paths(sub, chunk):
    install_phase_marker()
    rows = []
    with scratch(sub) as root:
        for idx, cs, acts in chunk:
            done, obs, graph = execute(cs, acts, os.path.join(root, "w%d" % idx))
            rows.append({"c": {"cs": cs, "acts": done}, "impl": obs, "asked": acts})
            sub.count(1)
    sub.cov.setdefault("_collect", []).extend(rows)


def count_phase_ops(sub, chunk):
    """dry run: how many transport operations has the tip-update phase of the LAST action (a bound commit)?"""
    install_phase_marker()
    with scratch(sub) as root:
        for idx, cs, acts in chunk:
            acts = [dict(a) for a in acts]
            acts[-1]["plan"] = ["index", 10 ** 9]
            rw = Real(os.path.join(root, "d%d" % idx), cs)
            try:
                for a in acts:
                    out, _ = rw.act(a)
                    rw.observe(out, a["c"])
                if out != "ok":
                    sub.machinery("dry run of fault sweep %d ended with %s" % (idx, out))
                sub.cov.setdefault("_collect", []).append({"idx": idx, "ops": list(Phase.ops)})
            finally:
                rw.close()


# ----------------------------------------------------------------------------- spec -> actions
def acts_of(states):
    """[(action label, state dict)] -> the completed actions (those whose target state is between actions)."""
    out = []
    for _, st in states[1:]:
        if st["pc"]["ph"] == "idle":
            a = st["last"]["a"]
            out.append({"op": a["op"], "c": a["c"], "src": a["src"], "fault": a["fault"], "stop": a["stop"]})
    return out


def cover_walks(edges, inits, max_len, rng):
    """Init-rooted walks that together take every edge reachable from the initial states: follow untaken edges, when
    stuck go to the nearest state that still has one (or start a new walk).  Yields [(action, node)...]."""
    import collections
    out = collections.defaultdict(list)
    for a, act, b in edges:
        out[a].append((act, b))
    for n in out:
        rng.shuffle(out[n])
    untaken = {n: list(es) for n, es in out.items()}
    left = sum(len(v) for v in untaken.values())

    def nearest(src):
        """shortest edge sequence from src to a node with untaken edges"""
        prev, q = {src: None}, collections.deque([src])
        while q:
            n = q.popleft()
            if untaken.get(n):
                p = []
                while prev[n] is not None:
                    pn, act = prev[n]
                    p.append((act, n))
                    n = pn
                return p[::-1]
            for act, b in out.get(n, ()):
                if b not in prev:
                    prev[b] = (n, act)
                    q.append(b)
        return None
    init = inits[0]
    while left:
        walk, cur = [("Init", init)], init
        while True:
            if untaken.get(cur) and len(walk) < max_len:
                act, b = untaken[cur].pop()
                left -= 1
                walk.append((act, b))
                cur = b
                continue
            conn = nearest(cur) if len(walk) < max_len else None
            if conn is None or len(walk) + len(conn) >= max_len:
                break
            walk.extend(conn)
            cur = conn[-1][1] if conn else cur
            if not conn:
                break
        if len(walk) == 1:
            conn = nearest(init)
            if conn is None:
                break               # the rest is not reachable from init
            walk.extend(conn)
            cur = walk[-1][1]
            while untaken.get(cur):
                act, b = untaken[cur].pop()
                left -= 1
                walk.append((act, b))
                cur = b
        yield walk


def A(op, c, src="", stop=0):
    return {"op": op, "c": c, "src": src, "fault": "", "stop": stop}


DIRECTED = [  # pull -r N from the third branch (always replayed)
    [A("commitF", "F"), A("commitF", "F"), A("pull", "C1", "F", 2), A("pull", "C2", "M"), A("pull", "C1", "F")],
    [A("commitF", "F"), A("commitF", "F"), A("commitF", "F"), A("pull", "C1", "F", 3), A("commit", "C1"), A("pull", "C2", "F", 2),
     A("update", "C2")],
    [A("commitF", "F"), A("commitF", "F"), A("commitLocal", "C1"), A("pull", "C1", "F", 2), A("update", "C1"), A("pull", "C1", "F", 2)],
    [A("commitF", "F"), A("commitF", "F"), A("unbind", "C1"), A("pull", "C1", "F", 2), A("bind", "C1"), A("pull", "C1", "F")],
]
SWEEP = [  # pre-histories for the exhaustive fault sweep of one bound commit by C1
    [],
    [{"op": "commitM", "c": "M", "src": "", "fault": "", "stop": 0}, {"op": "update", "c": "C1", "src": "", "fault": "", "stop": 0}],
    [{"op": "commitLocal", "c": "C1", "src": "", "fault": "", "stop": 0}, {"op": "commitM", "c": "M", "src": "", "fault": "", "stop": 0},
     {"op": "update", "c": "C1", "src": "", "fault": "", "stop": 0}],           # a merge commit: local work pending
    [{"op": "commit", "c": "C2", "src": "", "fault": "", "stop": 0}, {"op": "pull", "c": "C1", "src": "M", "fault": "", "stop": 0}],
]


def run(ctx):
    env.init()
    install_phase_marker()
    q = ctx.quick
    cs = ["C1", "C2"]
    # ---- E1: model checking + anti-vacuity
    for w in WIT:
        tlc.check(ctx, "BoundBranchMC", cfg_text=cfg(3, cs, (w,)), expect_violation=w, label="witness " + w, workers=2)
    if not q:
        tlc.check(ctx, "BoundBranchMC", cfg_text=cfg(4, cs, INV, third=False), label="MC 4 revisions, two checkouts",
                  workers=16, timeout=3000)
        tlc.check(ctx, "BoundBranchMC", cfg_text=cfg(4, ["C1"], INV), label="MC 4 revisions, one checkout + third branch",
                  workers=16, timeout=3000)
    jobs = []
    # two state graphs are covered edge by edge: two checkouts without the third branch, one checkout with it
    for label, gcs, third, take in (("two checkouts, C1 unbindable", cs, False, 35), ("one checkout + third branch", ["C1"], True, 20)):
        nodes, edges, inits, res = tlc.graph(ctx, "BoundBranchMC", cfg_text=cfg(3, gcs, INV, ["C1"], third), workers=16,
                                             label="MC + graph 3 revisions, " + label)
        paths = list(cover_walks(edges, inits, 80, ctx.rng))
        info = {"config": label, "nodes": len(nodes), "edges": len(edges), "cover_walks": len(paths),
                "walk_steps": sum(len(p) - 1 for p in paths)}
        parsed = {}

        def st(nid):
            if nid not in parsed:
                parsed[nid] = to_py(parse_state(nodes[nid]))
            return parsed[nid]
        n0 = len(jobs)
        ctx.rng.shuffle(paths)
        extra = 15 if (q and third) else 0          # quick: besides the random walks, some that pull -r N
        for k, p in enumerate(paths):
            acts = acts_of([(a, st(n)) for a, n in p])
            if not acts:
                continue
            if q and k >= take:
                if not extra or not any(a["stop"] for a in acts):
                    continue
                extra -= 1
            for a in acts:
                if a["fault"]:
                    a["j"] = 1 if a["fault"] == "localset" else 1 + ctx.rng.randrange(4)
            jobs.append((gcs, acts))
        info["replayed_paths"] = len(jobs) - n0
        ctx.cov.setdefault("graphs", []).append(info)
    # ---- E3: longer random behaviours of the model
    behs, sres = tlc.simulate(ctx, "BoundBranchMC", cfg_text=cfg(6, cs, INV), num=40 if q else 300, depth=30,
                              seed=ctx.seed + 1, label="simulate 6 revisions")
    if sres.get("violated"):
        ctx.machinery("simulation of BoundBranchMC violates %s" % sres["violated"])
    nsim = 0
    for b in behs:
        acts = acts_of([(a, to_py(s)) for a, s in b])
        if acts:
            for a in acts:
                if a["fault"]:
                    a["j"] = 1 if a["fault"] == "localset" else 1 + ctx.rng.randrange(4)
            jobs.append((cs, acts))
            nsim += 1
    if not nsim:
        ctx.machinery("no simulated behaviours")
    ctx.cov["simulated_behaviours"] = nsim
    jobs += [(cs, [dict(a) for a in acts]) for acts in DIRECTED]
    # ---- the fault sweep: every transport operation of the tip-update phase fails once
    commit_c1 = {"op": "commit", "c": "C1", "src": "", "fault": "", "stop": 0}
    sweeps = SWEEP[:2] if q else SWEEP
    core.fork_map(ctx, count_phase_ops, [(i, cs, pre + [commit_c1]) for i, pre in enumerate(sweeps)])
    counts = {d["idx"]: d["ops"] for d in ctx.collected}
    del ctx.collected[:]
    nfault = 0
    for i, pre in enumerate(sweeps):
        ops = counts.get(i)
        if not ops or not any(o[2] == "masterset" for o in ops) or not any(o[2] == "localset" for o in ops):
            ctx.machinery("fault sweep %d: tip-update phase not recognised in %s" % (i, ops))
        ctx.cov.setdefault("phase_ops", []).append({"pre": [a["op"] for a in pre], "ops": len(ops),
                                                    "stages": {s: sum(1 for o in ops if o[2] == s) for s in ("built", "masterset", "localset")}})
        follow = [{"op": "update", "c": "C1", "src": "", "fault": "", "stop": 0}, dict(commit_c1)]      # and recover
        for k in range(1, len(ops) + 1):
            jobs.append((cs, pre + [dict(commit_c1, plan=["index", k])] + follow))
            nfault += 1
    ctx.cov["fault_points"] = nfault
    # ---- replay, judged by TLC
    core.fork_map(ctx, replay_paths, [(i, jcs, acts) for i, (jcs, acts) in enumerate(jobs)])
    rows = ctx.collected
    if len(rows) != len(jobs):
        ctx.machinery("replayed %d of %d behaviours" % (len(rows), len(jobs)))
    steps = swallowed = 0
    for r in rows:
        steps += len(r["c"]["acts"])
        ctx.nontrivial(json.dumps(r["c"]["acts"]))
        if any(a.get("note") == "not-injected" for a in r["c"]["acts"]):
            ctx.drift("a planned fault was never injected although the commit went through its tip-update phase", {"asked": r["asked"], "done": r["c"]["acts"]})
        swallowed += sum(1 for a in r["c"]["acts"] if a.get("note") == "swallowed")
    ctx.cov["real_steps"] = steps
    ctx.cov["faults_swallowed_by_the_code"] = swallowed
    for r in (rows[0], rows[len(rows) // 2], rows[-1]):
        ctx.sample({"acts": [(a["op"], a["c"], a["src"], a["fault"] or a["stop"] or "") for a in r["c"]["acts"]],
                    "observed": [(o["tip"], o["out"]) for o in r["impl"]]})
    for row, failed, drift in table.judge(ctx, "BoundBranchTrace", [{"c": {"cs": r["c"]["cs"], "acts": [{k: a[k] for k in ("op", "c", "src", "fault", "stop")} for a in r["c"]["acts"]]},
                                                                "impl": r["impl"]} for r in rows], chunk=3000):
        acts = [(a["op"], a["c"], a["src"], a["fault"] or a["stop"] or "") for a in row["c"]["acts"]]
        for f in failed:
            law, op = f.split("@")
            ctx.violation("%s:%s" % (law, op), "law %s fails at a %s step of %s: observed %s" % (
                law, op, acts, [(o["tip"], o["out"]) for o in row["impl"]]), row)
        errs = [o["out"] for o in row["impl"] if o["out"].startswith("error:")]
        if errs and not failed:
            ctx.drift("an action raised %s (no clause of C23 concerned) along %s" % (errs[0], acts), row)
        elif drift and not failed:
            ctx.drift("observed worlds differ from the model along %s" % (acts,), row)
    ctx.cov["exhaustive"] = not q
    ctx.rule("behaviours = transition cover of TLC's state graph of BoundBranchMC with 3 revisions (every edge = one "
             "action or commit phase in one abstract state) for two checkouts and for one checkout plus a third branch "
             "with pull -r N (quick: 35 + 20 random walks of the covers), TLC-simulated "
             "behaviours with 6 revisions, and for %d pre-histories a bound commit with each transport operation of "
             "Commit._update_branches failed once, followed by update + commit; distinct = action sequence" % len(sweeps))


def replay(ctx, rep):
    env.init()
    install_phase_marker()
    row = rep["replay"]
    acts = [dict(a, plan=(["phase", a["fault"], 1] if a.get("fault") else None)) for a in row["c"]["acts"]]
    done, obs, _ = execute(row["c"]["cs"], acts, os.path.join(ctx.workdir, "replay"))
    print(json.dumps({"acts": done, "observed_now": obs, "recorded": row["impl"]}, indent=1))
    rows = [{"c": {"cs": row["c"]["cs"], "acts": [{k: a[k] for k in ("op", "c", "src", "fault", "stop")} for a in done]}, "impl": obs}]
    for _, failed, drift in table.judge(ctx, "BoundBranchTrace", rows):
        for f in failed:
            law, op = f.split("@")
            ctx.violation("%s:%s" % (law, op), "replayed: law %s fails at a %s step" % (law, op), rows[0])
