"""C41 — testaments are deterministic and sensitive to every attested field."""
import copy
import json

from vf import env, tlc, table, core
from harness import attest_common as ac

META = dict(
    property_id="C41", level="model_checking", design_ref="DESIGN.md §4 C41",
    technique="TLA+ definition of the attested record of a revision (paths, contents, executable bits, symlink targets, "
              "message, committer, timestamp, time zone, parent set, revision properties) with the equal/different laws "
              "for Testament, StrictTestament and StrictTestament3; TLC enumerates base records, ALL single-field "
              "perturbation pairs and the storage variants, checks the pair space on the specification and exports it; "
              "every record is committed for real (fixed revision id, parents, timestamps) in 2a / pack-0.92 / swapped "
              "insertion order / fetched across formats, and TLC judges the hashes of the six real testament texts per pair",
    level_text="Exhaustive over the bounded pair space: every field of every base record is replaced by every other value "
               "of its domain (domains chosen adversarially for a line-oriented text format: single / double / leading / trailing "
               "blanks and tabs in paths, link targets, messages and property values, backslashes, non-ASCII, empty / multi-line / differently terminated texts, binary and empty contents, negative and "
               "sub-hour zones, 32-bit-overflowing timestamps), so every pair differs in exactly one attested field; each "
               "base record is also stored in four ways. The text format itself is executed, not modelled (DESIGN 6): the "
               "specification contributes the attested-field definition, the pair space and the laws, TLC checks that the "
               "perturbations change exactly one attested value and judges every recorded pair.",
    level_note="Attested timestamp = whole seconds (the module documents integer timestamps), attested parents = the set "
               "(testaments list parents sorted). Messages and property values are restricted to XML-representable text "
               "(pack-0.92 rewrites other control characters when storing the revision, before any testament is made). "
               "Parents have empty trees, so last-changed revisions of files (strict forms) do not depend on the parent list; "
               "the last-changed revision of the tree root (StrictTestament3) is defined by the format a revision was "
               "committed in (rich root or not) and is modelled as such: native 2a and native pack-0.92 commits must agree "
               "on it only where the formats define the same value, a revision fetched across formats must keep it. "
               "Revision id and file ids are identities and stay fixed. Trusted: the commit path as executed, sha1, TLC, "
               "the JSON bridge.",
)

# token tables: VALUES[field][token]; sizes, path names and parent lists are cross-checked with the specification
VALUES = {
    "f.path": ["a", "b c", "z", "b  c", "b c ", "b\tc"],
    "f.content": [b"A\n", b"A\nB\n", b"A", b"\x00\xff\n"],
    "f.exec": [False, True],
    "g.path": ["d/g", "d/h", "d\\g", "g"],
    "g.content": [b"G\n", b"", b"G\r\n"],
    "g.exec": [False, True],
    "l.path": ["l", "d/l"],
    "l.target": ["a", "x y", "x/y", "x\\y", "é", "x  y", "x y ", "x\ty"],
    "msg": ["m", "m\n", "m\nsecond", "m\u2028second", "", "\u00e9 \u00fc", "m ", " m", "m\t", "\tm", "\nm"],
    "committer": ["C <c@e.com>", "Cé <c@e.com>", "C  <c@e.com>"],
    "ts": [1000000000, 1000000001, 0, 2 ** 31 + 5],
    "tz": [0, 3600, -1800, 60],
    "parents": [["p1"], [], ["p2"], ["p1", "p2"], ["p2", "p1"]],
    "props": [{}, {"p": "v"}, {"p": "v\n"}, {"p": "v\nw"}, {"p": "v", "q": ""}, {"q": "v"}, {"p": "é"},
              {"p": "v "}, {"p": "v\t"}, {"p": " v"}, {"p": "\nv"}, {"p": "v\n\nw"}],
}
VARIANTS = ("2a", "pack-0.92", "2a-swapped", "fetched")
WITNESSES = ("WitnessAlias", "WitnessExec", "WitnessRoot", "WitnessBackslash")


def gen_cfg(base_vary, inv=("LawsHoldOnSpec",)):
    return table.cfg({"BaseVary": "{%s}" % ", ".join('"%s"' % f for f in base_vary),
                      "Variants": "{%s}" % ", ".join('"%s"' % v for v in VARIANTS)}, inv)


def rec_key(rec):
    return tuple(sorted(rec.items()))


def concrete(rec):
    """Attested record (tokens) -> (dag, trees, meta) with revision rX on top of the empty-tree roots p1, p2."""
    v = {f: VALUES[f][t] for f, t in rec.items()}
    tree = {"d": ("d", "directory", None, False),
            "f": (v["f.path"], "file", v["f.content"], v["f.exec"]),
            "g": (v["g.path"], "file", v["g.content"], v["g.exec"]),
            "l": (v["l.path"], "symlink", v["l.target"], False)}
    meta = {"rX": dict(message=v["msg"], committer=v["committer"], timestamp=v["ts"], timezone=v["tz"],
                       revprops=v["props"] or None)}
    return v["parents"], tree, meta


def texts_of(rec, variant):
    """Commit the record in the given storage variant and hash the six testament texts of rX."""
    from breezy import ui
    parents, tree, meta = concrete(rec)
    roots = [("p2", []), ("p1", [])] if variant == "2a-swapped" else [("p1", []), ("p2", [])]
    dag = roots + [("rX", parents)]
    trees = {"p1": {}, "p2": {}, "rX": tree}
    fmt = "pack-0.92" if variant in ("pack-0.92", "fetched") else "2a"
    srv, url = ac.memory_url()
    try:
        b = ac.build(dag, trees, fmt, url=url, meta=meta)
        repo = b.repository
        if variant == "fetched":
            ui.ui_factory.suppressed_warnings.add("cross_format_fetch")
            repo = ac.new_repo("2a", url + "copy")
            repo.fetch(b.repository, revision_id=b"rX")
        with repo.lock_read():
            rev = repo.get_revision(b"rX")
            stored = (rev.message, rev.committer, rev.timestamp, rev.timezone,
                      {k: x for k, x in rev.properties.items() if k != "branch-nick"}, [p.decode() for p in rev.parent_ids])
            want = (meta["rX"]["message"], meta["rX"]["committer"], meta["rX"]["timestamp"], meta["rX"]["timezone"],
                    meta["rX"]["revprops"] or {}, parents)
            if stored != want:          # the fixture, not the testament: the revision is not the record we meant to store
                raise core.MachineryError("stored revision %r differs from the record %r (%s)" % (stored, want, variant))
            rt = repo.revision_tree(b"rX")
            with rt.lock_read():
                got = {}
                for path, ie in rt.iter_entries_by_dir():
                    if path:
                        got[path] = (ie.kind, rt.get_file_text(path) if ie.kind == "file" else
                                     rt.get_symlink_target(path) if ie.kind == "symlink" else None,
                                     bool(ie.kind == "file" and ie.executable))
            if got != {p: (k, c, bool(x)) for p, k, c, x in tree.values()}:
                raise core.MachineryError("stored tree %r differs from the record's %r (%s)" % (got, tree, variant))
            try:
                return ac.testament_hashes(repo, b"rX")
            except Exception as e:
                return {k: "error:%s" % type(e).__name__ for k in ("t1l", "t1s", "t2l", "t2s", "t3l", "t3s")}
    finally:
        srv.stop_server()


def build_jobs(sub, chunk):
    out = sub.cov.setdefault("_collect", [])
    for rec, variant in chunk:
        out.append((rec_key(rec), variant, texts_of(rec, variant)))
        sub.count(1)


def _norm(x):
    return x.replace("\\", "/") if isinstance(x, str) else x


def pair_class(fld, a, b):
    """Input class of a pair of concrete values (for narrow violation signatures)."""
    va, vb = VALUES[fld][a], VALUES[fld][b]
    if isinstance(va, dict):
        if sorted(va) == sorted(vb) and all(va[k].splitlines() == vb[k].splitlines() for k in va):
            return "line-terminators-only"
        return "plain"
    if isinstance(va, str):
        if va.replace("\\", "/") == vb.replace("\\", "/"):
            return "backslash-vs-slash"
        if va.splitlines() == vb.splitlines():
            return "line-terminators-only"
    return "plain"


def field_group(fld):
    return "path" if fld.endswith(".path") else fld


def run(ctx):
    env.init()
    import breezy.bzr.testament  # noqa: F401  (imported before forking)
    base_vary = ("g.path", "parents") if ctx.quick else ("g.path", "l.path", "msg")
    data, _ = tlc.json_cases(ctx, "TestamentGen", cfg_text=gen_cfg(base_vary), label="TestamentGen", workers=4, timeout=3000)
    for w in WITNESSES:
        tlc.check(ctx, "TestamentGen", cfg_text=gen_cfg(("g.path",), (w,)), expect_violation=w, label="witness " + w, workers=4)
    # the specification's tables and the harness's must be the same
    if {f: len(v) for f, v in VALUES.items()} != dict(data["dom"]):
        ctx.machinery("token domains differ: spec %s" % data["dom"])
    if any(list(data["paths"][f]) != VALUES[f] for f in data["paths"]) or [list(p) for p in data["parents"]] != VALUES["parents"]:
        ctx.machinery("path / parent tables differ from the specification's")
    pairs, variants = data["pairs"], data["variants"]
    if not pairs or not variants:
        ctx.machinery("TLC exported no cases")
    wanted = {}
    for c in pairs + variants:
        for rec, v in ((c["a"], c["va"]), (c["b"], c["vb"])):
            wanted.setdefault((rec_key(rec), v), (rec, v))
    core.fork_map(ctx, build_jobs, [wanted[k] for k in sorted(wanted)], chunks_per_proc=8)
    texts = {(k, v): h for k, v, h in ctx.collected}
    if len(texts) != len(wanted):
        ctx.machinery("built %d of %d revisions" % (len(texts), len(wanted)))
    rows = []
    for c in pairs + variants:
        rows.append({"c": {"a": c["a"], "b": c["b"], "va": c["va"], "vb": c["vb"]},
                     "impl": {"a": texts[(rec_key(c["a"]), c["va"])], "b": texts[(rec_key(c["b"]), c["vb"])]},
                     "fld": c["fld"]})
        ctx.nontrivial((rec_key(c["a"]), rec_key(c["b"]), c["va"], c["vb"]))
    ctx.cov["pairs"], ctx.cov["variant_cases"], ctx.cov["revisions_built"] = len(pairs), len(variants), len(wanted)
    ctx.cov["exhaustive"] = True
    ctx.rule("base records = all values of %s with every other field at its first value; pairs = every base record x every "
             "field x every two different values of that field's domain; variant cases = every base "
             "record (also without parents and as a merge) stored as 2a vs pack-0.92 / 2a with the parents inserted in the "
             "other order / pack-0.92 fetched into 2a, and pack-0.92 vs the latter two; all enumerated by TLC; every pair is non-trivial (two distinct executions)" % (base_vary,))
    ctx.assume("timestamps are whole seconds and parents a set (documented testament format 1); message / property text is "
               "XML-representable")
    for r in (rows[0], rows[len(rows) // 2], rows[-1]):
        ctx.sample({"c": r["c"], "fld": r["fld"], "impl": r["impl"],
                    "values": {f: repr(VALUES[f][r["c"][s][f]]) for s in "ab" for f in ([r["fld"]] if r["fld"] else [])}})
    # binding self-test: corrupted observations must be rejected by the Trace module, each by its law
    slim = [{"c": r["c"], "impl": r["impl"]} for r in rows]
    by_id = {id(s): r for s, r in zip(slim, rows)}
    probes = []
    sens = next((s for s, r in zip(slim, rows) if r["fld"] and not r["fld"].endswith("exec")
                 and all(s["impl"]["a"][k] != s["impl"]["b"][k] for k in s["impl"]["a"])), None)
    det = next((s for s, r in zip(slim, rows) if not r["fld"] and s["impl"]["a"] == s["impl"]["b"]), None)
    ex = next((s for s, r in zip(slim, rows) if r["fld"].endswith("exec")), None)
    if sens is None or det is None or ex is None:
        ctx.machinery("binding self-test: no suitable recorded pair")
    p = copy.deepcopy(sens); p["impl"]["b"] = dict(p["impl"]["a"]); probes.append((p, "sensitive"))
    p = copy.deepcopy(det); p["impl"]["b"]["t3l"] = "0" * 20; p["impl"]["b"]["t3s"] = "1" * 20; probes.append((p, "deterministic"))
    p = copy.deepcopy(det); p["impl"]["b"]["t1l"] = "0" * 20; probes.append((p, "shortlong"))
    p = copy.deepcopy(ex); p["impl"]["b"] = dict(p["impl"]["a"]); probes.append((p, "execstrict"))
    p = copy.deepcopy(ex); p["impl"]["b"] = {k: "x" + h for k, h in p["impl"]["a"].items()}; probes.append((p, "execplain"))
    expected = {id(q): law for q, law in probes}
    caught = set()
    for srow, failed, drift in table.judge(ctx, "TestamentTrace", slim + [q for q, _ in probes], workers=4, timeout=3000):
        if id(srow) in expected:
            if expected[id(srow)] in failed:
                caught.add(id(srow))
            continue
        r = by_id[id(srow)]
        c, fld = r["c"], r["fld"]
        for law in failed:
            if fld:
                sig = "%s:%s:%s" % (law, field_group(fld), pair_class(fld, c["a"][fld], c["b"][fld]))
                what = "%s: %r vs %r" % (fld, VALUES[fld][c["a"][fld]], VALUES[fld][c["b"][fld]])
            else:
                sig = "%s:storage:%s-vs-%s" % (law, c["va"], c["vb"])
                what = "same record stored as %s and %s" % (c["va"], c["vb"])
            same = sorted(k for k in r["impl"]["a"] if r["impl"]["a"][k] == r["impl"]["b"][k])
            ctx.violation(sig, "law %s fails for %s; texts equal for %s" % (law, what, same or "none"),
                          {"c": c, "fld": fld, "impl": r["impl"],
                           "values": {f: [repr(VALUES[f][c["a"][f]]), repr(VALUES[f][c["b"][f]])] for f in VALUES}})
    missed = [law for q, law in probes if id(q) not in caught]
    if missed:
        ctx.machinery("binding self-test: corrupted observations not rejected by laws %s" % missed)
    ctx.cov["binding_selftest_probes"] = len(probes)


def replay(ctx, rep):
    """Re-execute one recorded pair on the current tree and print the real testament texts' hashes."""
    env.init()
    r = rep["replay"]
    c = r["c"]
    ha, hb = texts_of(c["a"], c["va"]), texts_of(c["b"], c["vb"])
    fld = r.get("fld")
    if fld:
        print("field %s: %r vs %r" % (fld, VALUES[fld][c["a"][fld]], VALUES[fld][c["b"][fld]]))
    else:
        print("same record stored as %s vs %s" % (c["va"], c["vb"]))
    for k in sorted(ha):
        print("  %s  %s  %s  %s" % (k, ha[k], hb[k], "equal" if ha[k] == hb[k] else "different"))
    ctx.count(1, traces=1)
    ctx.nontrivial("replay")
    ctx.sample({"a": ha, "b": hb})
    ctx.rule("replay of one recorded pair")
