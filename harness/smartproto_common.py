"""Shared binding for C29 / C30: smart protocol wire round trip and read-size hints (specs/SmartProto*.tla).

spec -> code : SmartProtoGen model-checks the transcribed next_read_size over all shapes and all partial reads and exports,
               per (shape, decoding target), the part structure and the segmentations to try.
code         : the REAL encoders produce the bytes for harness-chosen (hostile) payloads of the shape's lengths; the
               bytes are checked against the spec's part structure (drift), cut at the TLC segmentation and fed to the
               REAL decoders ("push": accept_bytes per segment) or offered to the REAL readers through an in-memory
               pipe that returns at most the rest of the current segment ("pull": ConventionalResponseHandler,
               SmartClientRequestProtocolOne/Two, SmartServerPipeStreamMedium).
code -> spec : every run is one row judged by SmartProtoTrace with the laws of the property.
"""
import json
import os
import random
import struct
from concurrent.futures import ThreadPoolExecutor

from vf import core, env, table, tlc

HINT_ERR = 99999           # recorded when next_read_size() itself raises
WITNESSES = ("WitnessSplitPrefix", "WitnessTight", "WitnessTrailing", "WitnessPartialChunk", "WitnessPartialTrailer")
C29_LAWS = ("decoded", "unused", "events")
_PROP = [None]
_W = [None]


# ----------------------------------------------------------------------------- payload values
ANY = b"done\nEND\n0\n\x00\x01a\nff\nERR\nchunked\ne\x00s\x00\x00\x00\x01b\nsuccess\nfailed\n1:l\x01\n\nbzr "
V12 = bytes(c for c in ANY if c not in (1, 10))          # v1/v2 tuple encoding cannot carry 0x01 / "\n"
POOL = {0: [b""], 1: [b"\n", b"\x01", b"\x00", b"e", b"0", b"a", b"S", b"E"],
        2: [b"0\n", b"a\n", b"\x01\n", b"ok", b"oE", b"\x00\x00"], 3: [b"END", b"ERR", b"ff\n", b"\n\n\n", b"1:e"],
        4: [b"END\n", b"ERR\n", b"done", b"0\n0\n", b"\x00\x00\x00\x00", b"\x00\x00\x00\x01"],
        5: [b"done\n", b"0\nEND", b"error", b"e\x00\x00\x00\x00"], 7: [b"failed\n", b"0\ndone\n"],
        8: [b"chunked\n", b"success\n"], 10: [b"done\ndone\n", b"0\nEND\nERR\n"], 12: [b"chunked\nEND\n", b"norepository"],
        16: [b"Software version"], 17: [b"bzr response 2\n0\n"]}
V1_ERROR_CODES = (b"NoSuchFile", b"FileExists", b"LockFailed")     # 10 bytes each (V1ErrArgs in SmartProtoGen)


def _ok(dom, b):
    return dom == "any" or (b"\x01" not in b and b"\n" not in b)


def pick(n, dom, rng):
    alpha = ANY if dom == "any" else V12
    off = rng.randrange(len(alpha))
    cands = [p for p in POOL.get(n, ()) if _ok(dom, p)]
    cands.append(bytes(alpha[(off + i) % len(alpha)] for i in range(n)))
    return rng.choice(cands)


class Vals:
    """Concrete payload for a shape: lengths from the spec, values from the hostile pools."""

    def __init__(self, s, rng, version):
        dom = "any" if s["ver"] == 3 else "v12"
        self.args = [pick(n, dom, rng) for n in s["args"]]
        if s["ver"] == 1 and s["kind"] == "error":
            self.args[0] = rng.choice(V1_ERROR_CODES)
        if s["ver"] == 3 and s["dir"] == "resp":
            self.hdr = [(b"Software version", version)]          # fixed by ProtocolThreeResponder
        else:
            self.hdr = []
            for k, v in s["hdr"]:
                key = pick(k, "any", rng)
                while key in [x[0] for x in self.hdr]:
                    key = pick(k, "any", rng)
                self.hdr.append((key, pick(v, "any", rng)))
        self.offs = [tuple(o) for o in s["offs"]]
        self.body = pick(s["n"], "any", rng) if s["kind"] == "bytes" else None
        self.chunks = [pick(n, "any", rng) for n in s["cs"]]
        self.err = [pick(n, "any", rng) for n in s["err"]]
        if s["kind"] == "streamerr" and s["dir"] == "req":
            self.err = [b"error"]                                 # what ProtocolThreeRequester sends
        self.trail = pick(s["trail"], "any", rng)


def hx(b):
    return b.hex() if isinstance(b, (bytes, bytearray)) else "!" + repr(b)


def hxs(q):
    return [hx(x) for x in q]


# ----------------------------------------------------------------------------- real objects (built after env.init)
class World:
    def __init__(self):
        import breezy
        from breezy.bzr.smart import medium, message, protocol, request, vfs
        from dromedary import errors as terr
        from fastbencode import bencode
        self.protocol, self.message, self.request, self.medium, self.vfs, self.terr = protocol, message, request, medium, vfs, terr
        self.bencode = bencode
        self.version = breezy.__version__.encode("utf-8")
        self.log = []                 # chronological decode-side events of the current run
        self.expect_body = False
        w = self
        self.lit = {"marker3": protocol.MESSAGE_VERSION_THREE, "marker_req2": protocol.REQUEST_VERSION_TWO,
                    "marker_resp2": protocol.RESPONSE_VERSION_TWO, "success": b"success\n", "failed": b"failed\n",
                    "kind_s": b"s", "kind_b": b"b", "kind_o": b"o", "kind_e": b"e", "status_S": b"S", "status_E": b"E",
                    "chunked": b"chunked\n", "ERR": b"ERR\n", "END": b"END\n", "done": b"done\n"}

        class RecCommand(request.SmartServerRequest):
            """Stands for any server command: records what the real request handler delivers."""

            def do(self, *args):
                w.log.append(("do", args))
                return None if w.expect_body else request.SuccessfulSmartServerResponse((b"ok",))

            def do_chunk(self, chunk):
                w.log.append(("chunk", chunk))
                return request.SmartServerRequest.do_chunk(self, chunk)

            def do_body(self, body):
                w.log.append(("body", body))
                return request.SuccessfulSmartServerResponse((b"ok",))

        class Commands:
            """Replaces request.request_handlers while a server-side decoder runs: every verb is the recorder."""

            def get(self, verb):
                w.log.append(("verb", verb))
                return RecCommand

        class RecHandler:
            """Message-handler proxy: logs every part the real ProtocolThreeDecoder delivers, then delegates."""

            def __init__(self, inner):
                self.inner = inner

            def headers_received(self, headers):
                w.log.append(("h", headers))
                return self.inner.headers_received(headers)

            def byte_part_received(self, byte):
                w.log.append(("o", byte))
                return self.inner.byte_part_received(byte)

            def bytes_part_received(self, b):
                w.log.append(("b", b))
                return self.inner.bytes_part_received(b)

            def structure_part_received(self, structure):
                w.log.append(("s", structure))
                return self.inner.structure_part_received(structure)

            def end_received(self):
                w.log.append(("e", None))
                return self.inner.end_received()

            def protocol_error(self, exception):
                w.log.append(("protocol_error", "%s(%s)" % (type(exception).__name__, str(exception)[:200])))
                return self.inner.protocol_error(exception)

        class PipeRequest(medium.SmartClientStreamMediumRequest):
            def finished_reading(self):
                self._medium.fin_calls += 1
                return medium.SmartClientStreamMediumRequest.finished_reading(self)

        class PipeMedium(medium.SmartClientStreamMedium):
            """Client medium over an in-memory pipe: _read_bytes(n) returns at most the rest of the current segment."""

            def __init__(self, data=b"", seg=(), msglen=0):
                medium.SmartClientStreamMedium.__init__(self, "bzr://vf/")
                self.sent = []
                self.pipe = SegPipe(data, seg, msglen)
                self.fin_calls = 0

            def _accept_bytes(self, b):
                self.sent.append(b)

            def _flush(self):
                pass

            def _read_bytes(self, count):
                return self.pipe.read(count)

            def get_request(self):
                return PipeRequest(self)

            def disconnect(self):
                pass

        self.RecCommand, self.Commands, self.RecHandler, self.PipeMedium = RecCommand, Commands, RecHandler, PipeMedium

    class _Patched:
        def __init__(self, w):
            self.w = w

        def __enter__(self):
            self.saved = self.w.request.request_handlers
            self.w.request.request_handlers = self.w.Commands()

        def __exit__(self, *a):
            self.w.request.request_handlers = self.saved

    def server_commands(self):
        return World._Patched(self)


def world():
    if _W[0] is None:
        env.init()
        _W[0] = World()
    return _W[0]


class SegPipe:
    """In-memory pipe: read(n) returns min(n, rest of the current segment) bytes; logs (asked, remaining of the
    current message before the read, got)."""

    def __init__(self, data, seg, msglen):
        self.data, self.msglen, self.pos = data, msglen, 0
        self.ends = []
        p = 0
        for k in seg:
            p += k
            self.ends.append(p)
        self.reads = []
        self.logging = True

    def read(self, n=-1):
        end = next((e for e in self.ends if e > self.pos), len(self.data))
        k = min(n, end - self.pos) if n is not None and n >= 0 else end - self.pos
        got = self.data[self.pos:self.pos + max(k, 0)]
        if self.logging:
            self.reads.append((n, max(0, self.msglen - self.pos), len(got)))
        self.pos += len(got)
        return got

    def close(self):
        pass


# ----------------------------------------------------------------------------- real encoders
class StreamBroke(Exception):
    pass


def encode(w, s, v):
    """-> (wire bytes, offset of the body encoding inside them or None), produced by the real encoders."""
    P, R = w.protocol, w.request
    kind, args = s["kind"], tuple(v.args)
    writes = []
    if s["dir"] == "req":
        m = w.PipeMedium()
        writes = m.sent
        if s["ver"] == 3:
            r = P.ProtocolThreeRequester(m.get_request())
            r.set_headers(dict(v.hdr))
        else:
            r = (P.SmartClientRequestProtocolOne if s["ver"] == 1 else P.SmartClientRequestProtocolTwo)(m.get_request())
        if kind == "none":
            r.call(*args)
        elif kind == "bytes":
            r.call_with_body_bytes(args, v.body)
        elif kind == "readv":
            r.call_with_body_readv_array(args, list(v.offs))
        elif kind == "stream":
            r.call_with_body_stream(args, iter(list(v.chunks)))
        elif kind == "streamerr":
            def gen():
                yield from v.chunks
                raise StreamBroke()
            try:
                r.call_with_body_stream(args, gen())
            except StreamBroke:
                pass
            else:
                raise core.MachineryError("call_with_body_stream swallowed the stream's exception")
        npre = 1 if s["ver"] == 1 else 2
    else:
        if kind == "error":
            resp = R.FailedSmartServerResponse(args)
        elif kind == "bytes":
            resp = R.SuccessfulSmartServerResponse(args, v.body)
        elif kind == "stream":
            resp = R.SuccessfulSmartServerResponse(args, body_stream=iter(list(v.chunks)))
        elif kind == "streamerr":
            resp = R.SuccessfulSmartServerResponse(
                args, body_stream=iter(list(v.chunks) + [R.FailedSmartServerResponse(tuple(v.err))]))
        else:
            resp = R.SuccessfulSmartServerResponse(args)
        if s["ver"] == 3:
            P.ProtocolThreeResponder(writes.append).send_response(resp)
        else:
            cls = P.SmartServerRequestProtocolOne if s["ver"] == 1 else P.SmartServerRequestProtocolTwo
            cls(None, writes.append)._send_response(resp)
        npre = 1 if s["ver"] == 1 else 3
    data = b"".join(writes)
    body_at = None
    if s["ver"] < 3 and kind in ("bytes", "readv", "stream", "streamerr"):
        body_at = len(b"".join(writes[:npre]))        # the encoders write the body encoding with separate calls
    return data, body_at


def check_structure(w, wire, data):
    """Real encoder output against the spec's part structure; returns a description of the first mismatch or None."""
    pos = 0
    for i, t in enumerate(wire):
        n, what = t["n"], t["what"]
        if t["t"] == "lit":
            lit = w.lit.get(what)
            if lit is None or len(lit) != n or data[pos:pos + n] != lit:
                return "part %d (%s): expected literal %r, real bytes %r" % (i, what, lit, data[pos:pos + n])
            pos += n
        elif t["t"] == "lp":
            if len(data) < pos + 4 or struct.unpack("!L", data[pos:pos + 4])[0] != n:
                return "part %d (%s): spec payload length %d, real prefix %r" % (i, what, n, data[pos:pos + 4])
            pos += 4 + n
        elif t["t"] == "line":
            line = data[pos:pos + n]
            if len(line) != n or not line.endswith(b"\n") or line.count(b"\n") != 1:
                return "part %d (%s): spec says a %d-byte line, real bytes %r" % (i, what, n, line)
            if what in ("declen", "hexlen"):
                try:
                    val = int(line[:-1], 10 if what == "declen" else 16)
                except ValueError:
                    val = -1
                if i + 1 >= len(wire) or val != wire[i + 1]["n"]:
                    return "part %d (%s): real length line %r, spec next part %s" % (i, what, line, wire[i + 1:i + 2])
            pos += n
        else:
            pos += n
    if pos != len(data):
        return "spec message length %d, real encoder wrote %d bytes" % (pos, len(data))
    return None


def real_skip(w, s, tg, data, body_at):
    """Where the target's input starts inside the real bytes, from real constants / the encoder's own writes."""
    if tg == "v3" and s["dir"] == "req":
        return len(w.protocol.MESSAGE_VERSION_THREE)
    if tg == "v12srv" and s["ver"] == 2:
        return len(w.protocol.REQUEST_VERSION_TWO)
    if tg in ("lp", "chunked"):
        return body_at
    return 0


# ----------------------------------------------------------------------------- what was encoded, as the target sees it
def blank():
    return {"args": [], "status": "-", "body": "-", "chunks": [], "err": [], "errflag": "n", "offs": [], "hdr": [],
            "next": [], "exc": "-"}


def body_bytes(w, s, v):
    if s["kind"] == "bytes":
        return v.body
    if s["kind"] == "readv":
        return b"\n".join(b"%d,%d" % o for o in v.offs)
    return None


def encoded_view(w, s, tg, v):
    e = blank()
    kind = s["kind"]
    body = body_bytes(w, s, v)
    if tg == "lp":
        e["body"] = hx(body)
        return e
    if tg == "chunked":
        e["chunks"] = hxs(v.chunks)
        if kind == "streamerr":
            e["err"], e["errflag"] = hxs(v.err), "y"
        return e
    e["args"] = hxs(v.args)
    if s["ver"] == 3:
        e["hdr"] = sorted([hx(k), hx(x)] for k, x in v.hdr)
    if s["dir"] == "req":                       # server side
        if s["ver"] == 3:
            parts = [body] if body is not None else list(v.chunks) if kind in ("stream", "streamerr") else []
            e["chunks"] = hxs(parts)
            e["body"] = hx(b"".join(parts)) if parts else "-"
        elif body is not None:
            e["body"] = hx(body)
        if kind == "readv":
            e["offs"] = [list(o) for o in v.offs]
        if kind == "streamerr":
            e["err"], e["errflag"] = hxs(v.err), "y"
    else:                                       # client side
        e["status"] = "E" if kind == "error" else "S"
        if kind == "bytes":
            e["body"] = hx(body)
        if kind in ("stream", "streamerr"):
            e["chunks"] = hxs(v.chunks)
        if kind == "streamerr":
            e["err"], e["errflag"] = hxs(v.err), "y"
    return e


# ----------------------------------------------------------------------------- observation helpers
def blen(w, x):
    try:
        return len(w.bencode(list(x) if isinstance(x, tuple) else x))
    except Exception:
        return HINT_ERR


def events_of(w, log, kinds):
    ev = []
    for k, x in log:
        if k not in kinds:
            continue
        if k in ("h", "s"):
            ev.append([k, blen(w, x)])
        elif k == "o":
            ev.append([k, len(x) if isinstance(x, bytes) else HINT_ERR])
        elif k in ("b", "chunk", "body", "piece"):
            ev.append([k, len(x) if isinstance(x, bytes) else HINT_ERR])
        elif k == "e":
            ev.append([k, 0])
        elif k == "do":
            ev.append([k, 1 + len(x)])
        elif k == "err":
            ev.append([k, len(x)])
    return ev


def server_decoded(w, s, log, d):
    """Fill d from what the server side saw (command callbacks, and message-handler parts for v3)."""
    verbs = [x for k, x in log if k == "verb"]
    dos = [x for k, x in log if k == "do"]
    if verbs and dos:
        d["args"] = hxs((verbs[0],) + tuple(dos[0]))
    bodies = [x for k, x in log if k == "body"]
    if s["ver"] == 3:
        parts = [x for k, x in log if k == "b"]
        d["chunks"] = hxs(parts)
        d["body"] = hx(b"".join(parts)) if parts and all(isinstance(p, bytes) for p in parts) else "-"
        hs = [x for k, x in log if k == "h"]
        if hs and isinstance(hs[0], dict):
            d["hdr"] = sorted([hx(k), hx(x)] for k, x in hs[0].items())
        ss = [x for k, x in log if k == "s"]
        if len(ss) > 1:
            d["err"], d["errflag"] = hxs(ss[1]), "y"
        body = b"".join(parts) if parts else None
    else:
        body = bodies[0] if bodies else None
        d["body"] = hx(body) if body is not None else "-"
    if s["kind"] == "readv" and isinstance(body, bytes):
        try:
            d["offs"] = [list(o) for o in w.vfs.ReadvRequest._deserialise_offsets(None, body)]
        except Exception as e:
            d["exc"] = exc_text("offsets", e)


def exc_text(where, e):
    """'<where>: <ExceptionClass>(<message>)'; a message-handler failure wrapped by the decoder is named by its cause."""
    inner = getattr(e, "exc_value", None)
    if isinstance(inner, BaseException):
        e = inner
    return "%s: %s(%s)" % (where, type(e).__name__, str(e)[:200])


def seg_of(cuts, total):
    pts = [0] + list(cuts) + [total]
    return [b - a for a, b in zip(pts, pts[1:])]


def hint_of(target):
    try:
        h = target.next_read_size()
        return h if isinstance(h, int) and 0 <= h < HINT_ERR else HINT_ERR
    except Exception:
        return HINT_ERR


# ----------------------------------------------------------------------------- push runs
def run_push(w, s, tg, trail, view, seg):
    """Cut view+trailing at seg, accept_bytes each piece into the real decoder; returns obs."""
    P = w.protocol
    w.log = log = []
    w.expect_body = s["kind"] in ("bytes", "readv", "stream", "streamerr")
    stream = view + trail
    L = len(view)
    d = blank()
    out = []
    h = None
    if tg == "v3" and s["dir"] == "req":
        dec = P.build_server_protocol_three(None, out.append, "/")
        dec.message_handler = dec.request_handler = w.RecHandler(dec.message_handler)
    elif tg == "v3":
        h = w.message.ConventionalResponseHandler()
        dec = P.ProtocolThreeDecoder(w.RecHandler(h), expect_version_marker=True)
        m = w.PipeMedium()
        req = m.get_request()
        req.finished_writing()
        h.setProtoAndMediumRequest(dec, req)
    elif tg == "v12srv":
        dec = (P.SmartServerRequestProtocolOne if s["ver"] == 1 else P.SmartServerRequestProtocolTwo)(None, out.append)
    elif tg == "lp":
        dec = P.LengthPrefixedBodyDecoder()
    else:
        dec = P.ChunkedBodyDecoder()
    by_flag = tg in ("lp", "chunked")
    hints, fins, rems = [], [], []

    def observe(pos):
        hint = hint_of(dec)
        hints.append(hint)
        fins.append(bool(dec.finished_reading) if by_flag else hint == 0)
        rems.append(max(0, L - pos))

    observe(0)
    pos = 0
    pieces = []
    for k in seg:
        if d["exc"] == "-":
            try:
                dec.accept_bytes(stream[pos:pos + k])
                if tg == "lp":
                    x = dec.read_pending_data()
                    pieces.append(x)
                    log.append(("piece", x))
                elif tg == "chunked":
                    while True:
                        x = dec.read_next_chunk()
                        if x is None:
                            break
                        if isinstance(x, bytes):
                            pieces.append(x)
                            log.append(("chunk", x))
                        else:
                            d["err"], d["errflag"] = hxs(x.args), "y"
                            log.append(("err", x.args))
            except Exception as e:
                d["exc"] = exc_text("accept_bytes", e)
        pos += k
        observe(pos)
    try:
        unused = dec.unused_data
        if tg == "v3" and s["dir"] == "req":
            server_decoded(w, s, log, d)
            ev = events_of(w, log, ("h", "s", "b", "o", "e", "do", "chunk", "body"))
        elif tg == "v12srv":
            server_decoded(w, s, log, d)
            ev = events_of(w, log, ("do", "chunk", "body"))
        elif tg == "lp":
            d["body"] = hx(b"".join(pieces))
            ev = events_of(w, log, ("piece",))
        elif tg == "chunked":
            d["chunks"] = hxs(pieces)
            ev = events_of(w, log, ("chunk", "err"))
        else:
            client_decoded(w, s, h, d)
            ev = events_of(w, log, ("h", "s", "b", "o", "e"))
    except Exception as e:
        d["exc"] = exc_text("result", e)
        unused, ev = b"", []
    if any(k == "protocol_error" for k, _ in log) and d["exc"] == "-":
        d["exc"] = "protocol_error: %s" % [x for k, x in log if k == "protocol_error"][0]
    return {"len": L, "hints": hints, "fins": fins, "rems": rems, "dec": d, "unused": hx(unused), "trail": hx(trail),
            "ev": ev}


def client_decoded(w, s, h, d):
    """Use the public ResponseHandler API of a v3 ConventionalResponseHandler / v1-v2 client protocol object."""
    kind = s["kind"]
    try:
        tup = h.read_response_tuple(expect_body=kind in ("bytes", "stream", "streamerr"))
        d["status"] = "S"
    except w.terr.ErrorFromSmartServer as e:
        tup = e.error_tuple
        d["status"] = "E"
    d["args"] = hxs(tup)
    headers = getattr(h, "headers", None)
    if isinstance(headers, dict) and s["ver"] == 3:
        d["hdr"] = sorted([hx(k), hx(x)] for k, x in headers.items())
    if d["status"] == "E":
        return
    if kind == "bytes":
        d["body"] = hx(h.read_body_bytes())
    elif kind in ("stream", "streamerr"):
        chunks = []
        try:
            for x in h.read_streamed_body():
                if isinstance(x, bytes):
                    chunks.append(x)
                else:                                  # v2: the error arrives as the last item
                    d["err"], d["errflag"] = hxs(x.args), "y"
        except w.terr.ErrorFromSmartServer as e:       # v3: raised after the last chunk
            d["err"], d["errflag"] = hxs(e.error_tuple), "y"
        d["chunks"] = hxs(chunks)


# ----------------------------------------------------------------------------- pull runs
def run_pull(w, s, tg, trail, view, seg, second=None):
    """The REAL reader pulls from an in-memory pipe that returns short reads per seg; returns obs."""
    P = w.protocol
    w.log = log = []
    w.expect_body = s["kind"] in ("bytes", "readv", "stream", "streamerr")
    L = len(view)
    d = blank()
    fin = False
    ev = []
    if tg == "pipe":
        second_bytes, second_args = second
        trail = second_bytes[:s["trail"]]
        data = view + second_bytes
        pipe = SegPipe(data, list(seg) + [len(second_bytes) - s["trail"]], L)
        srv = w.medium.SmartServerPipeStreamMedium(pipe, _Sink(), None, timeout=5)
        try:
            p = srv._build_protocol()
            if s["ver"] == 3:
                p.message_handler = p.request_handler = w.RecHandler(p.message_handler)
            srv._serve_one_request_unguarded(p)
            fin = hint_of(p) == 0 and not srv.finished
            server_decoded(w, s, log, d)
            ev = events_of(w, log, ("do", "chunk", "body"))
            if any(k == "protocol_error" for k, _ in log):
                d["exc"] = "protocol_error: %s" % [x for k, x in log if k == "protocol_error"][0]
        except Exception as e:
            d["exc"] = exc_text("serve", e)
        consumed = pipe.pos
        pushed = srv._push_back_buffer or b""
        unused = (pushed + data[consumed:])[:len(trail)]      # the bytes that follow what the server took
        pipe.logging = False
        w.log = log2 = []
        w.expect_body = False
        try:                                    # the bytes after the message are the next request
            p2 = srv._build_protocol()
            srv._serve_one_request_unguarded(p2)
            verbs = [x for k, x in log2 if k == "verb"]
            dos = [x for k, x in log2 if k == "do"]
            d["next"] = hxs((verbs[0],) + tuple(dos[0])) if verbs and dos else []
        except Exception as e:
            d["next"] = ["!%r" % (e,)]
    else:
        data = view + trail
        m = w.PipeMedium(data, seg, L)
        pipe = m.pipe
        req = m.get_request()
        try:
            if tg == "v3":
                req.finished_writing()
                h = w.message.ConventionalResponseHandler()
                dec = P.ProtocolThreeDecoder(w.RecHandler(h), expect_version_marker=True)
                h.setProtoAndMediumRequest(dec, req)
                client_decoded(w, s, h, d)
                fin = bool(h.finished_reading) and m.fin_calls == 1
                ev = events_of(w, log, ("h", "s", "b", "o", "e"))
            else:
                cp = (P.SmartClientRequestProtocolOne if s["ver"] == 1 else P.SmartClientRequestProtocolTwo)(req)
                cp.call(b"verb")
                client_decoded(w, s, cp, d)
                fin = m.fin_calls == 1
        except Exception as e:
            d["exc"] = exc_text("read", e)
        consumed = pipe.pos
        pushed = m._push_back_buffer or b""
        unused = pushed + data[consumed:]
    return {"len": L, "asks": [r[0] for r in pipe.reads], "rems": [r[1] for r in pipe.reads], "fin": fin,
            "consumed": consumed - len(pushed), "dec": d, "unused": hx(unused), "trail": hx(trail), "ev": ev}


class _Sink:
    def write(self, b):
        return len(b)

    def flush(self):
        pass

    def close(self):
        pass


# ----------------------------------------------------------------------------- one case -> rows
def slim(prop, mode, obs, enc):
    if prop == "C29":
        return {"len": obs["len"], "enc": enc, "dec": obs["dec"], "unused": obs["unused"], "trail": obs["trail"],
                "ev": obs["ev"]}
    if mode == "push":
        return {k: obs[k] for k in ("len", "hints", "fins", "rems")}
    return {k: obs[k] for k in ("len", "asks", "rems", "fin", "consumed")}


def run_case(ctx, prop, case, block=12):
    """All (mode, segmentation) runs of one (shape, target) case -> rows for SmartProtoTrace."""
    w = world()
    s, tg = case["s"], case["tg"]
    rng = random.Random(ctx.seed * 1000003 + case["id"])
    total = case["len"] + s["trail"]
    bounds = set()
    p = 0
    for t in case["toks"]:
        p += t["n"] + (4 if t["t"] == "lp" else 0)
        bounds.add(p)
    rows = []
    v = view = enc = second = None
    for j, cuts in enumerate(case["cuts"]):
        if j % block == 0:                                # fresh hostile payload every few segmentations
            v = Vals(s, rng, w.version)
            data, body_at = encode(w, s, v)
            bad = check_structure(w, case["wire"], data)
            skip = real_skip(w, s, tg, data, body_at)
            if bad or skip != case["skip"]:
                ctx.drift("real encoder output does not have the spec's part structure for %s: %s" % (
                    shape_class(s), bad or "target input starts at %s, spec says %s" % (skip, case["skip"])),
                    {"s": s, "tg": tg, "wire": data})
            view = data[skip or 0:]
            enc = encoded_view(w, s, tg, v)
            if tg == "pipe":
                s2 = dict(s, kind="none", args=[6, 1], hdr=[], offs=[], cs=[], err=[], n=0)
                v2 = Vals(s2, rng, w.version)
                v2.args = [b"second", pick(1, "v12", rng)]
                second = (encode(w, s2, v2)[0], v2.args)
                enc = dict(enc, next=hxs(v2.args))
        seg = seg_of(cuts, total)
        for mode in case["modes"]:
            with w.server_commands():
                obs = run_push(w, s, tg, v.trail, view, seg) if mode == "push" else run_pull(w, s, tg, v.trail, view, seg, second)
            rows.append({"s": s, "tg": tg, "mode": mode, "seg": seg, "obs": slim(prop, mode, obs, enc),
                         "_wire": hx(view), "_trail": obs["trail"], "_exc": obs["dec"]["exc"],
                         "_second": [hx(second[0]), hxs(second[1])] if second else None})
            ctx.count(1)
            if any(c not in bounds for c in cuts):
                ctx.nontrivial("%d/%s/%s" % (case["id"], mode, ",".join(map(str, cuts))))
    return rows


def shape_class(s):
    """Input class used in signatures: version, direction, body kind; streams that carry no chunk are their own class."""
    k = s["kind"]
    if k in ("stream", "streamerr") and not s["cs"]:
        k += "-0chunks"
    return "v%d-%s-%s" % (s["ver"], s["dir"], k)


def worker(ctx, chunk):
    """fork_map worker: run the real code on its cases, let TLC judge the rows (plus a few corrupted copies), report."""
    prop = _PROP[0]
    rows = []
    for case in chunk:
        rows.extend(run_case(ctx, prop, case))
    fakes = []
    for r in rows:
        if r["_exc"] == "-" and len(fakes) < 6 and (not fakes or fakes[-1]["tg"] != r["tg"]):
            f = corrupt(prop, r)
            if f:
                fakes.append(f)
    judge(ctx, prop, rows + fakes)
    if fakes:
        ctx.assume(SELFTEST_OK)


def judge(ctx, prop, rows):
    if not rows:
        return
    clean = [{k: x for k, x in r.items() if not k.startswith("_")} for r in rows]
    index = {id(c): r for c, r in zip(clean, rows)}
    real = [r for r in rows if "_selftest" not in r]
    for i in (0, len(real) // 2):
        ctx.sample({k: real[i][k] for k in ("s", "tg", "mode", "seg", "obs", "_wire")})
    rejected = set()
    for crow, failed, drift in table.judge(ctx, "SmartProtoTrace", clean, constants={"Prop": '"%s"' % prop}, workers=2):
        row = index[id(crow)]
        s = row["s"]
        if "_selftest" in row:
            if row["_selftest"] in failed:
                rejected.add(id(row))
            continue
        exc = row["_exc"]
        if failed and exc != "-":
            # one root cause, one signature: the real decoder raised on a well-formed message of this class
            etype = exc.split(": ", 1)[1].split("(", 1)[0] if ": " in exc else exc
            ctx.violation("decoder_raises:%s:%s:%s" % (etype, row["tg"], shape_class(s)),
                          "real decoder raised on a well-formed %s message, target %s (%s) cut %s; failed laws %s; %s" % (
                              shape_class(s), row["tg"], row["mode"], row["seg"], sorted(failed), exc), row)
            continue
        for law in failed:
            ctx.violation("%s:%s/%s:%s" % (law, row["tg"], row["mode"], shape_class(s)),
                          "law %s fails for %s target %s (%s) cut %s: %s" % (
                              law, shape_class(s), row["tg"], row["mode"], row["seg"], row["obs"]), row)
        if drift and not failed:
            ctx.drift("real run differs from the transcription for %s target %s (%s) cut %s" % (
                shape_class(s), row["tg"], row["mode"], row["seg"]), row)
    fakes = [r for r in rows if "_selftest" in r]
    for r in fakes:
        if id(r) not in rejected:
            ctx.machinery("binding self-test: a corrupted row was not rejected with law %s: %s" % (r["_selftest"], r["obs"]))
    ctx.count(0, traces=-len(fakes))          # corrupted copies are not evidence


def replay(ctx, rep):
    """./check Cnn --replay <file>: feed the recorded bytes, cut as recorded, to the real code again and print what it
    does now next to what was recorded."""
    w = world()
    r = rep["replay"]
    s, tg, mode, seg = r["s"], r["tg"], r["mode"], r["seg"]
    view, trail = bytes.fromhex(r["_wire"]), bytes.fromhex(r["_trail"])
    second = (bytes.fromhex(r["_second"][0]), [bytes.fromhex(x) for x in r["_second"][1]]) if r.get("_second") else None
    with w.server_commands():
        obs = run_push(w, s, tg, trail, view, seg) if mode == "push" else run_pull(w, s, tg, trail, view, seg, second)
    print("signature:", rep["signature"])
    print("shape %s target %s mode %s reads %s" % (s, tg, mode, seg))
    print("bytes   :", view, "+ trailing", trail)
    print("recorded:", json.dumps(r["obs"], sort_keys=True))
    print("now     :", json.dumps({k: obs[k] for k in r["obs"] if k in obs}, sort_keys=True))
    print("decoded now:", json.dumps(obs["dec"], sort_keys=True))


# ----------------------------------------------------------------------------- binding self-test
SELFTEST_OK = ("binding self-test passed in every worker: corrupted copies of recorded rows (hint / read request over by one "
               "byte where it was tight, a decoded byte flipped, unused data dropped) were rejected by SmartProtoTrace "
               "with the matching law")


def corrupt(prop, row):
    """A copy of a recorded row with one observation falsified, and the law that must reject it (or None)."""
    o = row["obs"]
    bad = json.loads(json.dumps(o))
    if prop == "C30" and row["mode"] == "push":
        tight = [i for i, (h, r) in enumerate(zip(o["hints"], o["rems"])) if h == r and r > 0]
        if not tight:
            return None
        bad["hints"][tight[0]] += 1
        law = "hint_le_remaining"
    elif prop == "C30":
        tight = [i for i, (a, r) in enumerate(zip(o["asks"], o["rems"])) if a == r]
        if not tight:
            return None
        bad["asks"][tight[0]] += 1
        law = "never_ask_beyond"
    elif o["dec"]["args"] and o["dec"]["args"][0]:
        a0 = o["dec"]["args"][0]
        bad["dec"]["args"][0] = a0[:-1] + ("0" if a0[-1] != "0" else "1")
        law = "decoded"
    elif o["unused"]:
        bad["unused"] = ""
        law = "unused"
    else:
        return None
    return dict(row, obs=bad, _selftest=law)


# ----------------------------------------------------------------------------- TLC: design check + case export
def generate(ctx, consts):
    """What table.generate does (model-check LawsHoldOnSpec + export, then the witness runs), with the independent TLC
    runs started concurrently.  Every run of SmartProtoGen also evaluates ASSUME WitnessesReached (anti-vacuity in one
    TLC start: a TLC start costs ~12 CPU-seconds here); the thorough tier additionally has TLC violate each Witness*
    invariant."""
    d = tlc.stage(ctx.workdir)
    out = os.path.join(ctx.workdir, "smartproto_cases.json")

    def cfgfile(name, invariants):
        with open(os.path.join(d, name), "w") as f:
            f.write(table.cfg(consts, invariants))
        return name

    jobs = [("SmartProtoGen", dict(cfg=cfgfile("SmartProtoGen_mc.cfg", ("LawsHoldOnSpec",)), env={"VF_OUT": out},
                                   workers=8, timeout=800))]
    if not ctx.quick:      # quick relies on ASSUME WitnessesReached (same predicates, evaluated in the run above)
        jobs += [("witness " + wn, dict(cfg=cfgfile("SmartProtoGen_%s.cfg" % wn, (wn,)), workers=2, timeout=600))
                 for wn in WITNESSES]
    with ThreadPoolExecutor(len(jobs)) as ex:
        results = list(ex.map(lambda j: tlc.run(ctx, "SmartProtoGen", **j[1]), jobs))
    for (label, _), res in zip(jobs, results):
        want = label.split(" ", 1)[1] if label.startswith("witness ") else None
        if res["violated"] != want:
            ctx.machinery("SmartProtoGen %s: expected %s, TLC reports %s\n%s" % (
                label, want or "no violation (the model itself is wrong otherwise)", res["violated"], res["output"][-2000:]))
        ctx.add_tlc(res, label)
    if not os.path.exists(out):
        ctx.machinery("SmartProtoGen wrote no case file:\n" + results[0]["output"][-2000:])
    with open(out) as f:
        cases = json.load(f)
    os.unlink(out)
    return cases


# ----------------------------------------------------------------------------- entry point for C29.py / C30.py
def run(ctx, prop):
    w = world()
    consts = {"Tier": '"quick"' if ctx.quick else '"thorough"', "VerLen": str(len(w.version))}
    cases = generate(ctx, consts)
    for i, c in enumerate(cases):
        c["id"] = i
    _PROP[0] = prop
    nseg = sum(len(c["cuts"]) * len(c["modes"]) for c in cases)
    ctx.cov["cases"] = len(cases)
    ctx.cov["targets"] = sorted({c["tg"] for c in cases})
    ctx.cov["shape_classes"] = sorted({shape_class(c["s"]) for c in cases})
    ctx.cov["segmentations"] = nseg
    ctx.rule("TLC enumerates message shapes (version x request/response x body kind with part lengths x trailing bytes; "
             "bounds in SmartProtoGen per tier) and decoding targets; per case every composition of the stream when it "
             "has <= AllMax cut positions, else no cut, single cuts around and pairs of cuts on/around part boundaries "
             "(token ends and ends of 4-byte length prefixes), byte-by-byte and cut-at-every-boundary; payload bytes drawn (seeded) from hostile pools within each wire format's domain. "
             "Non-trivial = a segmentation with a cut strictly inside a part.")
    ctx.assume("messages are well-formed: every byte stream is the output of the real encoder for the shape")
    ctx.assume("v1/v2 argument bytes exclude 0x01 and newline (not representable in the tuple encoding); v3 arguments, "
               "headers, bodies, chunks and error arguments are arbitrary bytes")
    ctx.assume("server side: the real SmartServerRequestHandler dispatches every verb to a recording SmartServerRequest "
               "subclass (request.request_handlers is replaced for the duration of a run only)")
    ctx.assume("the pipe is an in-memory object whose read(n) returns at most the rest of the current segment; "
               "'would block' = a read request larger than what remains of the current message")
    core.fork_map(ctx, worker, sorted(cases, key=lambda c: -len(c["cuts"])), nproc=5 if ctx.quick else 16, chunks_per_proc=1)
    if SELFTEST_OK not in ctx.assumptions:
        ctx.machinery("no worker ran the binding self-test")
    if ctx.cov["traces_validated_against_impl"] != nseg:
        ctx.machinery("judged %d runs, expected %d" % (ctx.cov["traces_validated_against_impl"], nseg))
    return cases
