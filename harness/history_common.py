"""Shared binding code of the History family (C21, C22, C25): the bounded universe of histories comes from TLC
(specs/HistoryGenLib.tla), is materialised as real branches here, and observations go back to the Trace modules.

Abstract revisions are numbers 1..n (creation order), 0 = null:, 99 = the ghost.  A graph `par` is a list of parent
lists (par[r-1] = parents of r, first = left-hand parent).
"""
import os

from vf import core, table, tlc

NULL = b"null:"
GHOST = 99
ERR = -1
UNKNOWN = -2
FORMATS = {"2a": "2a", "pack": "pack-0.92", "remote": "2a"}


def rid(k):
    if k == 0:
        return NULL
    return b"g%d" % k if k >= GHOST else b"r%d" % k


def num(revid, n=None):
    """revision id -> abstract number (n + 1 for the id 'new' committed by an operation)."""
    if revid is None:
        return UNKNOWN
    if revid == NULL:
        return 0
    if revid[:3] == b"new" and n is not None:
        return n + 1
    try:
        if revid[:1] == b"r":
            return int(revid[1:])
        if revid[:1] == b"g":
            return int(revid[1:])
    except ValueError:
        pass
    return UNKNOWN


def lefthand(par, r):
    out = []
    while 1 <= r <= len(par):
        out.append(r)
        ps = par[r - 1]
        r = ps[0] if ps else 0
    return out[::-1]


def ancestry(par, r):
    out, todo = set(), [r]
    while todo:
        x = todo.pop()
        if 1 <= x <= len(par) and x not in out:
            out.add(x)
            todo.extend(par[x - 1])
    return out


def heads_of(par):
    used = {p for ps in par for p in ps}
    return [r for r in range(1, len(par) + 1) if r not in used]


def exc_name(e):
    """Exception class; an error the smart server could not translate is named by what the server said."""
    n = type(e).__name__
    if n == "UnknownErrorFromSmartServer":
        try:
            return e.error_tuple[1].decode()
        except Exception:
            return n
    return n


def preload():
    """Import what the fixtures need in the parent, so that forked replay workers inherit it."""
    import breezy.tests  # noqa: F401  (world.build_dag takes BranchBuilder from there)
    import breezy.uncommit  # noqa: F401
    import breezy.log  # noqa: F401
    import breezy.revisionspec  # noqa: F401


class Hist:
    """One abstract graph materialised once (BranchBuilder) on a MemoryTransport; branches with any tip are then
    cheap: a new branch + repository, the tip's ancestry fetched, the tip set."""

    def __init__(self, ctx, par, fmt="2a", files=()):
        from breezy import controldir
        from dromedary import memory
        from vf import world
        self.ctx, self.par, self.fmt, self.n = ctx, par, fmt, len(par)
        self.srv = memory.MemoryServer()
        self.srv.start_server()
        self.url = self.srv.get_url()
        self.cdfmt = controldir.format_registry.make_controldir(fmt)
        self.count = 0
        # world.build_dag materialises the graph (BranchBuilder); every revision rewrites file "f", and the files of
        # the content model (ver[r] = revision whose content file g<j> has in r, 0 = absent) follow `files`
        trees = {}
        for r in range(1, self.n + 1):
            want = {"f": ("file", b"f@%d\n" % r, False)}
            for j, ver in enumerate(files, 1):
                if ver[r - 1]:
                    want["g%d" % j] = ("file", b"g%d@%d\n" % (j, ver[r - 1]), False)
            trees["r%d" % r] = want
        dag = [("r%d" % r, [rid(p).decode() for p in ps]) for r, ps in enumerate(par, 1)]
        b0 = controldir.ControlDir.create_branch_convenience(self.url + "src", format=self.cdfmt, force_new_tree=False)
        self.src0 = world.build_dag(dag, trees=trees, branch=b0)
        # binding self-check: the real graph is the abstract one
        with self.src0.repository.lock_read():
            pm = self.src0.repository.get_parent_map([rid(r) for r in range(1, self.n + 1)])
        got = [[num(p) for p in pm.get(rid(r), ()) if p != NULL] for r in range(1, self.n + 1)]
        if got != [list(ps) for ps in par]:
            ctx.machinery("built graph %s differs from the abstract graph %s" % (got, par))
        self.heads = heads_of(par)
        self._cache = {}
        self._shared_area = None

    def close(self):
        if self._shared_area is not None:
            self._shared_area.close()
        self.srv.stop_server()

    def revno(self, r):
        return len(lefthand(self.par, r))

    def area(self, tips=(), everything=False):
        """A scratch area for one case: its own MemoryServer with a shared repository holding the ancestry of `tips`
        (everything: the whole graph); branches created in it are cheap and the whole area is dropped afterwards."""
        return Area(self, tips, everything)

    def shared(self, tip):
        """A branch at tip that operations only read (sources, masters of `update`, `ancestor:` operands)."""
        if tip not in self._cache:
            if self._shared_area is None:
                self._shared_area = Area(self, (), True)
            self._cache[tip] = self._shared_area.branch(tip)
        return self._cache[tip]


class Area:
    def __init__(self, hist, tips, everything):
        from breezy import transport as T
        from dromedary import memory
        self.h = hist
        self.srv = memory.MemoryServer()
        self.srv.start_server()
        self.url = self.srv.get_url()
        self.root = T.get_transport_from_url(self.url)
        self.repo = hist.cdfmt.initialize_on_transport(self.root).create_repository(shared=True)
        for x in (hist.heads if everything else tips):
            if x:
                self.repo.fetch(hist.src0.repository, revision_id=rid(x))
        self.count = 0
        self._remote = None

    def branch(self, tip):
        """A new branch (in the area's repository) with the given tip."""
        self.count += 1
        self.root.mkdir("b%d" % self.count)
        b = self.h.cdfmt.initialize_on_transport(self.root.clone("b%d" % self.count)).create_branch()
        if tip:
            with b.lock_write():
                b.set_last_revision_info(self.h.revno(tip), rid(tip))
        return b

    def open(self, b, kind="2a"):
        """The same branch through a new object: a local one, or a RemoteBranch served in-process."""
        from breezy import branch as B
        name = b.user_url[len(self.url):]
        if kind == "remote":
            if self._remote is None:
                from vf import world
                self._remote = world.inproc_remote_transport(self.root)[0]
            return B.Branch.open_from_transport(self._remote.clone(name))
        return B.Branch.open_from_transport(self.root.clone(name))

    def close(self):
        self.srv.stop_server()


# ----------------------------------------------------------------------------- TLC side
def gen_cfg(minrev, maxrev, maxpar, ghosts, stride=1, offset=0):
    return {"MinRev": minrev, "MaxRev": maxrev, "MaxPar": maxpar, "NGhosts": ghosts, "Stride": stride,
            "Offset": offset % max(stride, 1)}


def generate(ctx, module, plan, workers=8):
    """plan: list of (label, constants, invariants, export?, witnesses?).  Model-checks every configuration (laws on the
    spec), exports the sampled cases of those marked for export; `witnesses`: the run must also establish the module's
    WitnessesReached (anti-vacuity; a failed ASSUME is a TLC error = machinery failure).  Returns the exported rows."""
    cases = []
    for entry in plan:
        label, consts, invariants, export, witnesses = entry[:5]
        env = {"VF_WITNESSES": "1"} if witnesses else {}
        if len(entry) > 5:
            if entry[5].get("graphs"):           # seeded random larger graphs replace the enumeration
                env["VF_GRAPHS"] = write_graphs(ctx, entry[5]["graphs"])
            if entry[5].get("extra"):            # long graphs added to the enumeration (heads as tips, always exported)
                env["VF_EXTRA"] = write_graphs(ctx, entry[5]["extra"])
        if export:
            got = table.generate(ctx, module, consts, invariants=invariants, label="%s %s" % (module, label),
                                 workers=workers, timeout=3000, env=env)
            if not got:
                ctx.machinery("generator %s %s exported nothing" % (module, label))
            cases.extend(got)
        else:
            tlc.check(ctx, module, cfg_text=table.cfg(consts, invariants), label="%s MC %s" % (module, label),
                      workers=workers, timeout=3000, env=env)
    return cases


def random_graphs(rng, count, lo, hi, maxpar=3, ghost_p=0.15):
    """Seeded random graphs with lo..hi revisions and at most two heads: a random DAG (<= maxpar ordered parents, now
    and then the ghost as a merged parent) restricted to the ancestry of one or two of its revisions, renumbered."""
    out, seen, tries = [], set(), 0
    while len(out) < count and tries < count * 200:
        tries += 1
        n0 = rng.randint(lo, hi + 4)
        par = []
        for i in range(1, n0 + 1):
            k = min(rng.choice([0, 1, 1, 1, 2, 2, 2, 3][:5 + maxpar]), i - 1, maxpar)
            ps = rng.sample(range(1, i), k)
            if ps and len(ps) < maxpar and rng.random() < ghost_p:
                ps.append(GHOST)
            par.append(ps)
        tips = {n0} | ({rng.randint(1, n0)} if rng.random() < 0.6 else set())
        keep = sorted(set().union(*(ancestry(par, t) for t in tips)))
        if not lo <= len(keep) <= hi:
            continue
        ren = {r: i for i, r in enumerate(keep, 1)}
        g = tuple(tuple(ren.get(p, GHOST) for p in par[r - 1]) for r in keep)
        if g not in seen:
            seen.add(g)
            out.append([list(ps) for ps in g])
    return out


def long_graph(rng, n):
    """A seeded random history of n revisions with one head: a mainline with side branches that are forked from it,
    extended, merged into one another (nested merges) and merged back."""
    par, main, mainline, sides = [[]], 1, [1], []
    while len(par) < n:
        r = len(par) + 1
        left = n - len(par)
        x = rng.random()
        if sides and (left <= len(sides) or x < 0.22):
            s = sides.pop(rng.randrange(len(sides)))
            par.append([main, s])
            main = r
            mainline.append(r)
        elif x < 0.42 and left > len(sides) + 1:
            par.append([rng.choice(mainline[-6:])])
            sides.append(r)
        elif sides and x < 0.62 and left > len(sides):
            i = rng.randrange(len(sides))
            par.append([sides[i]])
            sides[i] = r
        elif len(sides) >= 2 and x < 0.70 and left > len(sides):
            a = sides.pop(rng.randrange(len(sides)))
            i = rng.randrange(len(sides))
            par.append([sides[i], a])
            sides[i] = r
        else:
            par.append([main])
            main = r
            mainline.append(r)
    if sides or heads_of(par) != [n]:
        return long_graph(rng, n)
    return par


def write_graphs(ctx, graphs):
    import json
    path = os.path.join(ctx.workdir, "graphs_%d.json" % len(os.listdir(ctx.workdir)))
    with open(path, "w") as f:
        json.dump(graphs, f)
    return path


def group_by_graph(cases):
    groups = {}
    for k in cases:
        groups.setdefault(tuple(tuple(ps) for ps in k["c"]["par"]), []).append(k)
    return [groups[g] for g in sorted(groups)]


def judge(ctx, module, rows, workers=1):
    """Feed recorded rows to a History*Trace module; returns [(row, verdict_record)] for the rows it flags."""
    import json
    import time
    fin = os.path.join(ctx.workdir, "rows_%d_%d.json" % (os.getpid(), int(time.time() * 1e6)))
    with open(fin, "w") as f:
        json.dump(rows, f)
    data, _res = tlc.json_cases(ctx, module, cfg_text=table.cfg(None), env={"VF_IN": fin}, label=module,
                                workers=workers, timeout=3000)
    os.unlink(fin)
    if data["n"] != len(rows):
        ctx.machinery("trace module %s consumed %s of %d rows" % (module, data["n"], len(rows)))
    ctx.count(0, traces=len(rows))
    return [(rows[b["row"] - 1], b) for b in data["bad"]]


def _judge_chunk(sub, items):
    for module, rows in items:
        sub.cov.setdefault("_collect", []).extend(("bad", x) for x in judge(sub, module, rows))


def judge_parallel(ctx, module, rows, chunk=300):
    """judge() over forked workers (a Trace module evaluates one constant expression: one TLC thread per chunk)."""
    if not rows:
        ctx.machinery("no rows recorded for %s" % module)
    chunks = [(module, rows[i:i + chunk]) for i in range(0, len(rows), chunk)]
    before = len(ctx.collected)
    core.fork_map(ctx, _judge_chunk, chunks, nproc=min(8, os.cpu_count() or 4))
    out = [x[1] for x in ctx.collected[before:] if x[0] == "bad"]
    del ctx.collected[before:]
    return out


def judge_with_selftest(ctx, module, rows, corrupted, chunk=300):
    """judge_parallel plus a binding self-test: `corrupted` = [(expected_law, row)] are deliberately falsified copies of
    good rows; the Trace module must flag each with the expected law, else the judging itself is broken (exit 2)."""
    marked = [dict(r, selftest=law) for law, r in corrupted]
    if not marked:
        ctx.machinery("no row suitable for the binding self-test of %s" % module)
    out, caught = [], set()
    for row, v in judge_parallel(ctx, module, marked + rows, chunk=chunk):
        if "selftest" in row:
            laws = {f[1] if isinstance(f, list) else f for f in v["failed"]}
            if row["selftest"] in laws:
                caught.add(row["selftest"])
        else:
            out.append((row, v))
    missing = {law for law, _ in corrupted} - caught
    if missing:
        ctx.machinery("binding self-test: %s did not flag falsified rows for %s" % (module, sorted(missing)))
    ctx.cov["traces_validated_against_impl"] -= len(marked)
    ctx.cov["selftest_rows_rejected"] = len(marked)
    return out


def collect_rows(ctx, before):
    """Rows handed back by replay workers since index `before` of ctx.collected."""
    rows = [x[1] for x in ctx.collected[before:] if x[0] == "row"]
    del ctx.collected[before:]
    return rows
