"""C37 — conditional git ref updates honour the expected old value."""
import copy
import io
import json
import os
import re
import shutil

from vf import env, tlc, core, sched
from vf.tlaval import parse_state, to_py

META = dict(
    property_id="C37", level="model_checking", design_ref="DESIGN.md §4 C37",
    technique="TLA+ spec of TransportRefsContainer's conditional updates (one action per transport operation on a ref "
              "file, the missing comparison as a named deviation) model-checked by TLC; TLC's state graph (every "
              "sequential case) and TLC-sampled / counter-example two-updater schedules replayed on real containers "
              "under a deterministic scheduler; every recorded execution judged by TLC (GitRefsTrace)",
    level_text="TLC proves the compare-and-swap property for the lock+compare design over all interleavings of two "
               "updaters and shows which deviation of the code costs which clause. The complete sequential table "
               "(ref absent/loose/packed/both x direct or through the symbolic ref x expected none/zero/equal/"
               "shadowed/different x set/remove/add x cold or warm packed-refs cache) is TLC's state graph for one "
               "updater; each case runs on real TransportRefsContainer objects over memory and local-disk transports, "
               "two-updater schedules run single-stepped with vf.sched, and TLC decides the C37 invariants on the "
               "recorded disk states, reads, writes and return values.",
    level_note="One ref (refs/heads/m) plus HEAD as symbolic ref to it; values are four fixed shas (the code only "
               "compares and copies them). Interleaving granularity = transport operation; the packed-refs rewrite "
               "(open_write_stream+write+close) is one step, so its truncate window is not explored. Updaters are "
               "threads, each with its own container. Trusted: dromedary transports, dulwich's RefsContainer.follow "
               "and packed-refs parser, TLC.",
)

VAL = {"v1": b"1" * 40, "v2": b"2" * 40, "v3": b"3" * 40, "v4": b"4" * 40, "zero": b"0" * 40}
TOK = {v: k for k, v in VAL.items()}
REF = "refs/heads/m"
FILES = {"HEAD": "HEAD", REF: "m", "packed-refs": "packed"}
NAME = {"m": REF.encode(), "HEAD": b"HEAD"}
IDLE = {"op": "idle", "name": "m", "old": "none", "new": "v3", "warm": False, "site": "-"}
SITE = {"set": "set_if_equals", "remove": "remove_if_equals", "add": "add_if_new"}
ALLOLD = ["none", "zero", "v1", "v2", "v3"]

S_NOCMP = "cas-no-compare:%s:expected-differs-from-current"
S_RACE = "cas-race:%s:ref-changed-between-read-and-write"
S_PACKED = "success-without-effect:remove_if_equals/_remove_packed_ref:packed-entry-left-behind"


def _patch_stream():
    # vf.sched._Stream lacks the context-manager protocol that `with transport.open_write_stream(..) as f` needs
    if not hasattr(sched._Stream, "__enter__"):
        sched._Stream.__enter__ = lambda self: self
        sched._Stream.__exit__ = lambda self, *a: self.close() and False


def _significant(op, path):
    if path is None or op in ("mkdir", "stream_write", "stream_close"):
        return False
    return path in FILES or path.endswith(".lock")


def _tla(v):
    if isinstance(v, bool):
        return "TRUE" if v else "FALSE"
    if isinstance(v, (list, tuple, set)):
        return "{" + ", ".join(_tla(x) for x in v) + "}"
    return '"%s"' % v if isinstance(v, str) else str(v)


def cfg_text(params, invariants=(), view=True, spec="Spec"):
    t = "SPECIFICATION %s\n" % spec + ("VIEW View\n" if view else "")
    t += "CONSTANTS\n" + "".join("  %s = %s\n" % (k, _tla(v)) for k, v in params.items())
    return t + "".join("INVARIANT %s\n" % i for i in invariants)


def params(procs, variant, ops=("set", "remove", "add"), olds=ALLOLD, warms=(False, True), names=("m", "HEAD"),
           remove_head=False):
    return {"Procs": list(procs), "CmpOps": list(variant["CmpOps"]), "Lock": variant["Lock"],
            "RereadPacked": variant["RereadPacked"], "Ops": list(ops), "Olds": list(olds), "Warms": list(warms),
            "Names": list(names), "RemoveHead": remove_head}


IDEAL = {"CmpOps": ["set", "remove"], "Lock": True, "RereadPacked": True}
COMPARE = {"CmpOps": ["set", "remove"], "Lock": False, "RereadPacked": True}
PINNED = {"CmpOps": [], "Lock": False, "RereadPacked": False}
PROPERTY = ("TypeOK", "LockDiscipline", "CasSound", "CasSoundSeq", "CasAtomic", "FailNoWrite", "CasComplete",
            "EffectApplied")


# ----------------------------------------------------------------------------- the real-code side
class Scenario:
    """One disk state + one TransportRefsContainer per updater, single-stepped through vf.sched."""

    def __init__(self, init, jobs, backing_url=None):
        from breezy.git.transportgit import TransportRefsContainer
        from dulwich.refs import write_packed_refs
        _patch_stream()
        self.jobs = jobs
        self.w = sched.World(backing_url, significant=_significant)
        t = self.w.raw()
        t.mkdir("refs")
        t.mkdir("refs/heads")
        if init["loose"] != "absent":
            t.put_bytes(REF, VAL[init["loose"]] + b"\n")
        if init["packed"] != "absent":
            f = io.BytesIO()
            write_packed_refs(f, {REF.encode(): VAL[init["packed"]]})
            t.put_bytes("packed-refs", f.getvalue())
        if init["head"] == "sym":
            t.put_bytes("HEAD", b"ref: " + REF.encode() + b"\n")
        self.init = dict(init)
        self.events = []
        self.exc = {}
        self.c = {}
        for p, j in jobs.items():
            if j["op"] == "idle":
                continue
            self.c[p] = TransportRefsContainer(self.w.transport())
            if j["warm"]:
                self.c[p].get_packed_refs()
        for p, j in jobs.items():
            if j["op"] != "idle":
                self.w.spawn(p, self._prog(p, j))
                self._returned(p, dict(init))       # an updater that returns without touching a ref file

    def _prog(self, p, j):
        c = self.c[p]
        old = None if j["old"] == "none" else VAL[j["old"]]

        def prog():
            if j["op"] == "set":
                return c.set_if_equals(NAME[j["name"]], old, VAL[j["new"]])
            if j["op"] == "remove":
                return c.remove_if_equals(NAME[j["name"]], old)
            return c.add_if_new(NAME[j["name"]], VAL[j["new"]])
        return prog

    def project(self):
        return project(self.w.raw())

    def live(self):
        return [p for p in self.c if not self.w.done(p)]

    def step(self, p):
        """p performs its pending transport operation; returns (op, file) and records the events."""
        es = [e for e in self.w.step(p) if e["p"] == p]
        d = self.project()
        first = None
        for e in es:
            opk = {"get": "get", "get_bytes": "get", "put_bytes": "put", "put_bytes_non_atomic": "put", "put_file": "put",
                   "delete": "delete", "open_write_stream": "rewrite" if e["path"] == "packed-refs" else "put"}.get(
                       e["op"], e["op"])
            f = FILES.get(e["path"], "lock" if e["path"].endswith(".lock") else e["path"])
            k = "o" if f not in ("HEAD", "m", "packed") else "w" if e["op"] in sched.MUTATING else "r"
            if f == "lock":
                opk = {"put": "lock", "delete": "unlock"}.get(opk, opk)
            self.events.append(dict(d, p=p, k=k, f=f if k != "o" else "-", res="-", v0=_V0))
            first = first or (opk, f)
        self._returned(p, d)
        return first

    def _returned(self, p, d):
        if self.w.done(p):
            r = self.w.result(p)
            res = "exc" if r[0] != "ok" else "T" if r[1] is True else "F" if r[1] is False else "exc"
            self.events.append(dict(d, p=p, k="ret", f="-", res=res, v0=_V0))
            if r[0] != "ok":
                self.exc[p] = list(r[1:])

    def result(self, p):
        for e in reversed(self.events):
            if e["p"] == p and e["k"] == "ret":
                return e["res"]
        return "none"

    def trace(self):
        jobs = {p: dict(self.jobs.get(p, IDLE)) for p in ("x", "y")}
        for j in jobs.values():
            j.setdefault("site", SITE.get(j["op"], "-"))
        return {"init": self.init, "jobs": jobs, "events": self.events}

    def close(self):
        self.w.close()


_V0 = {"head": "unread", "loose": "unread", "packed": "unread"}
_packed_line = re.compile(rb"^([0-9a-f]{40}) (\S+)$", re.M)


def project(t, ref=REF, tok=None):
    """Raw transport -> the spec's disk variables."""
    tok = tok or TOK

    def tk(v):
        return tok.get(v, "?" + v.decode("latin1")[:12])
    d = {}
    try:
        h = t.get_bytes("HEAD").rstrip(b"\n")
        d["head"] = "sym" if h == b"ref: " + ref.encode() else tk(h)
    except Exception:
        d["head"] = "absent"
    try:
        d["loose"] = tk(t.get_bytes(ref).rstrip(b"\n"))
    except Exception:
        d["loose"] = "absent"
    d["packed"] = "absent"
    try:
        for sha, name in _packed_line.findall(t.get_bytes("packed-refs")):
            if name == ref.encode():
                d["packed"] = tk(sha)
    except Exception:
        pass
    return d


_ctr = [0]


def backing(ctx, kind):
    """(url, dir-to-remove) of a fresh backing store."""
    if kind == "memory":
        return None, None
    _ctr[0] += 1
    d = os.path.join(ctx.workdir, "gr%d_%d" % (os.getpid(), _ctr[0]))
    os.makedirs(d)
    return "file://" + d + "/", d


def replay(ctx, beh, kind, label):
    """Replay one spec behaviour [(action, state)] on the real code; returns the recorded execution."""
    s0 = to_py(beh[0][1])
    init = {k: s0[k] for k in ("head", "loose", "packed")}
    jobs = {p: dict(j) for p, j in s0["job"].items()}
    for j in jobs.values():
        j["site"] = SITE.get(j["op"], "-")
    url, tmpd = backing(ctx, kind)
    sc = Scenario(init, jobs, url)
    schedule = []
    try:
        for act, st in beh[1:]:
            sp = to_py(st)
            p, op, f = sp["step"]
            schedule.append([p, op, f])
            if p not in sc.c or sc.w.done(p):
                ctx.drift("%s: spec step %s but the real updater has already returned" % (label, [p, op, f]),
                          {"init": init, "jobs": jobs, "schedule": schedule})
                continue
            got = sc.step(p)
            if got != (op, f):
                ctx.drift("%s: spec operation %s, real operation %s" % (label, [op, f], got),
                          {"init": init, "jobs": jobs, "schedule": schedule})
            real = sc.project()
            want = {k: sp[k] for k in ("head", "loose", "packed")}
            if real != want:
                ctx.drift("%s: after %s disk is %s, spec says %s" % (label, [p, op, f], real, want),
                          {"init": init, "jobs": jobs, "schedule": schedule})
            if sc.result(p) != sp["result"][p]:
                ctx.drift("%s: after %s updater %s has result %s, spec says %s" % (
                    label, [p, op, f], p, sc.result(p), sp["result"][p]), {"init": init, "jobs": jobs, "schedule": schedule})
        # whatever the spec's behaviour left unfinished runs to completion: the verdict is on real executions
        for p in list(sc.c):
            n = 0
            while not sc.w.done(p):
                sc.step(p)
                schedule.append([p, "-", "-"])
                n += 1
                if n > 50:
                    ctx.machinery("updater %s does not finish" % p)
        tr = sc.trace()
        tr["schedule"] = schedule
        tr["transport"] = kind
        tr["label"] = label
        if sc.exc:
            tr["exceptions"] = sc.exc
        return tr
    finally:
        sc.close()
        if tmpd:
            shutil.rmtree(tmpd, ignore_errors=True)


def random_run(ctx, rng, kind):
    """E3: jobs and schedule chosen in python (not derived from the spec)."""
    init = {"head": rng.choice(["absent", "sym"]), "loose": rng.choice(["absent", "v1"]),
            "packed": rng.choice(["absent", "v2"])}
    jobs = {}
    for p, new in (("x", "v3"), ("y", "v4")):
        op = rng.choice(["set", "set", "remove", "add"])
        name = "HEAD" if init["head"] == "sym" and op != "remove" and rng.random() < 0.5 else "m"
        jobs[p] = {"op": op, "name": name, "old": "none" if op == "add" else rng.choice(ALLOLD + ["v4"]), "new": new,
                   "warm": rng.random() < 0.5, "site": SITE[op]}
    url, tmpd = backing(ctx, kind)
    sc = Scenario(init, jobs, url)
    sched_ = []
    try:
        while sc.live():
            p = rng.choice(sc.live())
            sc.step(p)
            sched_.append(p)
        tr = sc.trace()
        tr.update(schedule=sched_, transport=kind, label="random")
        return tr
    finally:
        sc.close()
        if tmpd:
            shutil.rmtree(tmpd, ignore_errors=True)


# ----------------------------------------------------------------------------- TLC judges recorded executions
_accept = re.compile(r'<<"ACCEPT", (\d+)>>')
_viol = re.compile(r'<<"VIOL", (\d+), "(\w+)", "(\w+)">>')
TRACE_PARAMS = params(("x", "y"), PINNED)


def judge(ctx, traces, label="trace validation", workers=4):
    """-> {tid(1-based): [(invariant, updater), ...]} for every trace; machinery error if one was not consumed."""
    out = {}
    for off in range(0, len(traces), 4000):
        part = traces[off:off + 4000]
        _ctr[0] += 1
        fin = os.path.join(ctx.workdir, "grtraces_%d_%d.json" % (os.getpid(), _ctr[0]))
        with open(fin, "w") as f:
            json.dump([{k: t[k] for k in ("init", "jobs", "events")} for t in part], f)
        res = tlc.run(ctx, "GitRefsTrace", cfg_text=cfg_text(TRACE_PARAMS, view=False, spec="TraceSpec"),
                      env={"VF_IN": fin}, workers=workers)
        ctx.add_tlc(res, label)
        os.unlink(fin)
        acc = {int(t): [] for t in _accept.findall(res["output"])}
        for t, inv, p in _viol.findall(res["output"]):
            acc.setdefault(int(t), []).append((inv, p))
        if len(acc) != len(part):
            ctx.machinery("GitRefsTrace consumed %d of %d recorded executions:\n%s" % (
                len(acc), len(part), res["output"][-1500:]))
        for t, v in acc.items():
            out[off + t] = v
    return out


def signature(tr, inv, p):
    j = tr["jobs"][p]
    site = j.get("site") or SITE.get(j["op"], j["op"])
    if inv == "CasSoundSeq":
        return ("add-overwrote-existing:%s:ref-exists" % site) if j["op"] == "add" else S_NOCMP % site
    if inv == "CasAtomic":
        return S_RACE % site
    if inv == "EffectApplied":
        last = None
        for e in tr["events"]:
            if e["p"] == p and e["k"] == "w":
                last = e
        if j["op"] == "remove" and last is not None and last["packed"] != "absent" and (
                last["loose"] == "absent" if j["name"] == "m" else False):
            return S_PACKED
        return "success-without-effect:%s:other" % site
    if inv == "FailNoWrite":
        return "failed-but-wrote:%s:%s" % (site, "exception" if any(
            e["p"] == p and e["res"] == "exc" for e in tr["events"]) else "returned-false")
    if inv == "CasComplete":
        return "refused-on-match:%s:expected-equals-current" % site
    return "trace-invariant:%s:%s" % (inv, site)


def report(ctx, traces, verdicts):
    for tid, bad in sorted(verdicts.items()):
        tr = traces[tid - 1]
        for inv, p in bad:
            j = tr["jobs"][p]
            ctx.violation(signature(tr, inv, p),
                          "%s violated by %s(%s, old=%s) on disk %s [%s, %s transport]: returned %s, disk afterwards %s" % (
                              inv, SITE.get(j["op"], j["op"]), j["name"], j["old"], tr["init"], tr.get("label"),
                              tr.get("transport"), next((e["res"] for e in reversed(tr["events"]) if e["p"] == p and
                                                         e["k"] == "ret"), "?"),
                              {k: tr["events"][-1][k] for k in ("head", "loose", "packed")} if tr["events"] else None),
                          {"invariant": inv, "updater": p, "trace": tr})


def _chunk(sub, chunk):
    """Replay a chunk of (behaviour, transport kind, label) jobs and let TLC judge the recorded executions."""
    traces = []
    for beh, kind, label in chunk:
        traces.append(replay(sub, beh, kind, label))
        sub.count(1, traces=1)
        tr = traces[-1]
        if label.startswith("table"):
            j = tr["jobs"]["x"]
            sub.nontrivial(("table", kind, json.dumps(tr["init"], sort_keys=True), j["op"], j["name"], j["old"], j["warm"]))
        elif len({s[0] for s in tr["schedule"]}) > 1:
            sub.nontrivial((label, kind, json.dumps([tr["init"], tr["jobs"], tr["schedule"]], sort_keys=True)))
    if traces:
        report(sub, traces, judge(sub, traces, label="judge replayed executions", workers=2 if len(chunk) < 3000 else 4))


# ----------------------------------------------------------------------------- which deviations does this tree have
def detect_variant(ctx):
    def one(init, job):
        sc = Scenario(init, {"x": dict(job, new="v3", warm=False, site="-")})
        try:
            while sc.live():
                sc.step("x")
            return sc.result("x"), sc.project(), [(e["k"], e["f"]) for e in sc.events]
        finally:
            sc.close()
    v = {"CmpOps": [], "Lock": False, "RereadPacked": False}
    base = {"head": "absent", "loose": "v1", "packed": "absent"}
    r, d, ev = one(base, {"op": "set", "name": "m", "old": "v2"})
    if r == "F" and d == base:
        v["CmpOps"].append("set")
    locks = any(k == "o" for k, f in ev)
    r, d, ev = one(base, {"op": "remove", "name": "m", "old": "v2"})
    if r == "F" and d == base:
        v["CmpOps"].append("remove")
    r, d, ev = one({"head": "absent", "loose": "absent", "packed": "v2"}, {"op": "remove", "name": "m", "old": "none"})
    if d["packed"] == "absent":
        v["RereadPacked"] = True
    return v, locks


def graph_behaviours(ctx, prm, label):
    nodes, edges, inits, res = tlc.graph(ctx, "GitRefs", cfg_text=cfg_text(prm, view=False), label=label)
    cache = {}

    def st(n):
        if n not in cache:
            cache[n] = parse_state(nodes[n])
        return cache[n]
    return nodes, edges, inits, st


def run(ctx):
    env.init()
    _patch_stream()
    variant, locks = detect_variant(ctx)
    ctx.cov["implementation_variant"] = dict(variant, takes_lock_file=locks)
    pinned = variant == PINNED
    small = dict(olds=["none", "v1", "v3"], warms=[False])
    # ---- E1: the design.  lock + compare + re-read: every clause, all interleavings of two updaters
    tiny = dict(ops=["set"], olds=["v1", "v3"], warms=[False], names=["m"])
    tlc.check(ctx, "GitRefs", cfg_text=cfg_text(params(("x", "y"), IDEAL, **(small if ctx.quick else {})), PROPERTY),
              label="MC lock+compare design, 2 updaters", timeout=1500)
    for w, space in (("WitnessBothDone", tiny),) + (() if ctx.quick else (("WitnessRefused", small),
                                                                          ("WitnessRemovedPacked", small))):
        tlc.check(ctx, "GitRefs", cfg_text=cfg_text(params(("x", "y"), IDEAL, **space), (w,)), expect_violation=w,
                  label="witness " + w)
    #      compare-before-write without a lock: right for one updater, not atomic for two
    tlc.check(ctx, "GitRefs", cfg_text=cfg_text(params(("x",), COMPARE, remove_head=True), PROPERTY),
              label="MC compare-before-write, 1 updater")
    tlc.check(ctx, "GitRefs", cfg_text=cfg_text(params(("x", "y"), COMPARE, **tiny), ("CasAtomic",)),
              expect_violation="CasAtomic", label="compare-before-write, 2 updaters: not atomic")
    if not ctx.quick:
        tlc.check(ctx, "GitRefs", cfg_text=cfg_text(params(("x", "y"), COMPARE),
                                                    ("CasSoundSeq", "FailNoWrite", "CasComplete", "EffectApplied")),
                  label="MC compare-before-write, 2 updaters: the other clauses", timeout=1500)
    #      the named deviations of the pinned tree and the clause each one costs; where this tree has the deviation
    #      the run is on this tree's variant and TLC's counter-example is replayed on the real code
    jobs = []
    for inv, present, other, name in (
            ("CasSoundSeq", set(variant["CmpOps"]) != {"set", "remove"}, dict(PINNED, RereadPacked=True),
             "SetIfEqualsNoCompare / RemoveIfEqualsNoCompare"),
            ("EffectApplied", not variant["RereadPacked"], dict(COMPARE, RereadPacked=False), "RemovePackedSkippedCold")):
        res = tlc.check(ctx, "GitRefs", cfg_text=cfg_text(params(("x",), variant if present else other, remove_head=True),
                                                          (inv,)), expect_violation=inv,
                        label="%s costs %s%s" % (name, inv, " (this tree)" if present else ""))
        if present:
            jobs.append((res["trace"], "memory", "counter-example " + inv))
    # ---- E2: the sequential table = TLC's state graph for one updater of the variant this tree implements
    prm = params(("x",), variant, remove_head=True)
    nodes, edges, inits, st = graph_behaviours(ctx, prm, "graph: sequential table")
    out = {}
    for a, act, b in edges:
        out.setdefault(a, []).append((act, b))
    ncase = 0
    for i in inits:
        beh, n = [("Init", st(i))], i
        while out.get(n):
            if len(out[n]) != 1:
                ctx.machinery("sequential behaviour of GitRefs is not deterministic at %s" % nodes[n])
            act, n = out[n][0]
            beh.append((act, st(n)))
        ncase += 1
        for kind in ("memory", "local"):
            jobs.append((beh, kind, "table"))
    if ncase < 150:
        ctx.machinery("sequential table has only %d cases" % ncase)
    ctx.cov["sequential_cases"] = ncase
    ctx.cov["exhaustive"] = True
    # ---- E2: two updaters.  TLC's counter-example for atomicity on this tree's variant, TLC-sampled schedules,
    #          and (thorough) a transition cover of the whole two-updater graph of a reduced job space
    two = params(("x", "y"), variant)
    res = tlc.run(ctx, "GitRefs", cfg_text=cfg_text(params(("x", "y"), variant, ops=["set"], olds=["v1"], warms=[False],
                                                           names=["m"]), ("CasAtomic",)), allow_violation=True)
    ctx.add_tlc(res, "two CAS from the same old value")
    if res["violated"] == "CasAtomic":
        jobs.append((res["trace"], "memory", "counter-example CasAtomic"))
        jobs.append((res["trace"], "local", "counter-example CasAtomic"))
    elif not variant["Lock"] and not locks:
        ctx.machinery("spec without lock does not violate CasAtomic")
    behs, _ = tlc.simulate(ctx, "GitRefs", cfg_text=cfg_text(two, view=False), num=200 if ctx.quick else 2500, depth=16,
                           seed=ctx.seed + 1, label="simulate 2 updaters")
    for i, b in enumerate(behs):
        jobs.append((b, "memory" if i % 4 else "local", "schedule"))
    if behs:
        ctx.sample({"schedule": [to_py(s["step"]) for _, s in behs[0][1:]], "jobs": to_py(behs[0][0][1]["job"])})
    if not ctx.quick:
        red = params(("x", "y"), variant, olds=["none", "v1", "v3"], warms=[False, True], names=["m", "HEAD"])
        nodes2, edges2, inits2, res2 = tlc.graph(ctx, "GitRefs", cfg_text=cfg_text(red, view=False),
                                                 label="graph: 2 updaters, reduced job space", timeout=1500)
        c2 = {}
        paths = list(tlc.transition_cover(nodes2, edges2, inits2, rng=ctx.rng))
        cap = 60000
        ctx.cov["two_updater_graph"] = {"nodes": len(nodes2), "edges": len(edges2), "cover_paths": len(paths),
                                        "replayed": min(cap, len(paths))}
        for pth in paths[:cap]:
            beh = []
            for act, nid in pth:
                if nid not in c2:
                    c2[nid] = parse_state(nodes2[nid])
                beh.append((act, c2[nid]))
            jobs.append((beh, "memory", "cover"))
    if ctx.quick:
        _chunk(ctx, jobs)
    else:
        core.fork_map(ctx, _chunk, jobs, chunks_per_proc=1)
    # ---- E3: jobs and schedules chosen in python, fetch_refs with a stale snapshot; judged by TLC
    traces = [random_run(ctx, ctx.rng, "memory" if i % 3 else "local") for i in range(150 if ctx.quick else 4000)]
    for kind in ("memory", "local"):
        traces.append(fetch_refs_stale(ctx, kind))
    ctx.count(len(traces), traces=len(traces))
    for t in traces[:60]:
        ctx.nontrivial(("e3", json.dumps([t["init"], t["jobs"], t["schedule"]], sort_keys=True)))
    doctored = selftest_cases()
    verdicts = judge(ctx, traces + doctored, label="judge random executions + fetch_refs + binding self-test")
    selftest_check(ctx, doctored, [verdicts.pop(len(traces) + i + 1) for i in range(len(doctored))])
    report(ctx, traces, verdicts)
    ctx.sample({"fetch_refs_stale": {k: traces[-1][k] for k in ("init", "jobs")},
                "events": [(e["p"], e["k"], e["f"], e["loose"], e["res"]) for e in traces[-1]["events"]][-8:],
                "verdict": verdicts[len(traces)]})
    ctx.rule("sequential table = every initial state of specs/GitRefs.tla for one updater (ref absent/loose/packed/both "
             "x name m or HEAD->m x op set/remove/add x old none/zero/v1/v2/v3 x cold/warm cache), each on memory and "
             "local disk; schedules = TLC -simulate behaviours of two updaters (+ transition cover of the reduced "
             "two-updater graph in thorough) + TLC's counter-examples + python-random jobs/schedules + fetch_refs with "
             "a stale snapshot; non-trivial = distinct table case, or schedule in which both updaters take steps")
    ctx.assume("updaters are threads with their own TransportRefsContainer; exactly one runs at a time; interleaving "
               "points are transport operations on HEAD, refs/heads/m, packed-refs")
    ctx.assume("remove_if_equals on the symbolic ref itself and old=zero-sha on an absent ref may succeed or be refused "
               "(the property does not fix either)")


# ----------------------------------------------------------------------------- fetch_refs with a stale old value
def fetch_refs_stale(ctx, kind):
    """InterToLocalGitRepository.fetch_refs: the target ref moves between the snapshot of the old refs and the
    conditional update.  Updater x = the set_if_equals issued by fetch_refs (expected old = the snapshot's value),
    updater y = the concurrent unconditional update."""
    from breezy import controldir, transport as T
    from breezy.branchbuilder import BranchBuilder
    from breezy.repository import InterRepository
    from dromedary import memory
    _patch_stream()
    import logging
    lg, lvl = logging.getLogger("brz"), logging.getLogger("brz").level
    lg.setLevel(logging.ERROR)           # "Pushing from a Bazaar to a Git repository ..." is not of interest here
    srv = memory.MemoryServer()
    srv.start_server()
    url, tmpd = backing(ctx, kind)
    w = sched.World(url, significant=_significant)
    ref = b"refs/heads/m"
    try:
        t = T.get_transport(srv.get_url() + "src")
        t.ensure_base()
        bb = BranchBuilder(t, format="2a")
        bb.start_series()
        bb.build_snapshot(None, [("add", ("", b"root-id", "directory", None)), ("add", ("a", b"a-id", "file", b"A\n"))],
                          revision_id=b"r0")
        bb.build_snapshot([b"r0"], [("modify", ("a", b"B\n"))], revision_id=b"r1")
        bb.finish_series()
        src = bb.get_branch().repository
        fmt = controldir.format_registry.make_controldir("git-bare")
        controldir.ControlDir.create(w.backing_url, format=fmt)
        tgt = controldir.ControlDir.open(w.url()).open_repository()
        inter = InterRepository.get(src, tgt)
        with src.lock_read():
            inter.fetch_refs(lambda old: {ref: (None, b"r0")}, lossy=True)
        raw = w.raw()
        v1 = raw.get_bytes(REF).rstrip(b"\n")
        tok = {v1: "v1", VAL["v2"]: "v2"}
        def proj():
            d = project(raw, tok=tok)
            d["head"] = "absent"        # the repository's HEAD names another branch: irrelevant to refs/heads/m
            return d
        init = proj()
        events, state = [], {"snap": None, "call": None}
        refs = inter.target_refs
        orig = refs.set_if_equals

        def spy(name, old, new, *a, **k):
            tok.setdefault(new, "v3")
            events.append(dict(proj(), p="x", k="begin", f="-", res="-",
                               v0=dict(_V0, packed=proj()["packed"] if refs._packed_refs is not None else "unread")))
            state["call"] = [name, old, new]
            n0 = len(w.log)
            r = orig(name, old, new, *a, **k)
            for e in w.log[n0:]:
                f = FILES.get(e["path"])
                if f:
                    state.setdefault("ops", []).append((("w" if e["op"] in sched.MUTATING else "r"), f))
            state["ret"] = r
            return r
        refs.set_if_equals = spy

        def update(old):
            state["snap"] = old.get(ref, (None, None))[0]
            # the second updater, between snapshot and update
            from breezy.git.transportgit import TransportRefsContainer
            TransportRefsContainer(raw).set_if_equals(ref, None, VAL["v2"])
            events.append(dict(proj(), p="y", k="w", f="m", res="-", v0=_V0))
            events.append(dict(proj(), p="y", k="ret", f="-", res="T", v0=_V0))
            return {ref: (None, b"r1")}
        with src.lock_read():
            inter.fetch_refs(update, lossy=True)
        # x's transport operations inside the conditional update were performed in this thread (ungated): rebuild its
        # events from the log; reads saw the disk as y left it, the write (if any) produced the final disk
        after_y = {k: events[-1][k] for k in ("head", "loose", "packed")}
        final = proj()
        for k, f in state.get("ops", []):
            events.append(dict(after_y if k == "r" else final, p="x", k=k, f=f, res="-", v0=_V0))
        if state["call"] is None:
            # no conditional update was issued at all: judge what fetch_refs did to the ref
            events.append(dict(after_y, p="x", k="begin", f="-", res="-", v0=_V0))
            if final != after_y:
                events.append(dict(final, p="x", k="w", f="m", res="-", v0=_V0))
            state["ret"] = final != after_y
        events.append(dict(final, p="x", k="ret", f="-", res="T" if state["ret"] is True else "F" if state["ret"] is False
                           else "exc", v0=_V0))
        passed = state["call"] is not None and state["call"][1] == state["snap"]
        jobs = {"x": {"op": "set", "name": "m", "old": tok.get(state["snap"], "none"), "new": "v3", "warm": False,
                      "site": "set_if_equals" if passed else "fetch_refs"},
                "y": {"op": "set", "name": "m", "old": "none", "new": "v2", "warm": False, "site": "set_if_equals"}}
        return {"init": init, "jobs": jobs, "events": events, "schedule": ["x:snapshot", "y", "x:update"],
                "transport": kind, "label": "fetch_refs with a stale snapshot",
                "call": [state["call"], state["snap"]]}
    finally:
        lg.setLevel(lvl)
        w.close()
        srv.stop_server()
        if tmpd:
            shutil.rmtree(tmpd, ignore_errors=True)


# ----------------------------------------------------------------------------- binding self-test
def selftest_cases():
    """A clean execution (synthetic, so that the self-test does not depend on the code under test) and two doctored
    copies that TLC must judge bad."""
    d = {"head": "absent", "loose": "v4", "packed": "absent"}
    good = {"init": {"head": "absent", "loose": "v1", "packed": "absent"},
            "jobs": {"x": dict(IDLE), "y": {"op": "set", "name": "m", "old": "none", "new": "v4", "warm": False,
                                            "site": "set_if_equals"}},
            "events": [dict(d, p="y", k="w", f="m", res="-", v0=_V0), dict(d, p="y", k="ret", f="-", res="T", v0=_V0)]}
    bad1 = copy.deepcopy(good)          # the unconditional update becomes conditional on a value the ref never held
    bad1["jobs"]["y"]["old"] = "zero"
    bad2 = copy.deepcopy(good)          # a refusal that wrote
    for e in bad2["events"]:
        if e["p"] == "y" and e["k"] == "ret":
            e["res"] = "F"
    return [good, bad1, bad2]


def selftest_check(ctx, doctored, v):
    if v[0] or not any(i in ("CasSoundSeq", "CasAtomic") and p == "y" for i, p in v[1]) or ("FailNoWrite", "y") not in v[2]:
        ctx.machinery("binding self-test: clean / doctored executions judged %s" % v)
