"""Helpers shared by the case-table checks C45, C47, C50 (pure functions judged by TLA+ laws)."""
import os
import re

from vf import table, tlc, tlaval

_viol = re.compile(r"Error: Invariant (\w+) is violated(?: by the initial state:)?\s*\n(.*?)\n\s*\n", re.S)


def narrow_jvm():
    """The replay workers start many small TLC JVMs side by side: keep each one to two GC / JIT threads."""
    os.environ["JAVA_TOOL_OPTIONS"] = "-XX:ParallelGCThreads=2 -XX:CICompilerCount=2"


def witnesses(ctx, module, constants, names, workers=2, label="witnesses"):
    """Anti-vacuity: ONE TLC run (-continue) in which every invariant in `names` must be violated.

    Same meaning as table.generate(witnesses=...) (one TLC start per witness), at the price of one JVM start.
    Returns {name: first violating state (dict)}; a witness that is not reached is a machinery failure."""
    res = tlc.run(ctx, module, cfg_text=table.cfg(constants, tuple(names)), allow_violation=True, workers=workers,
                  extra=("-continue",))
    ctx.add_tlc(res, label + " " + ",".join(names))
    found = {}
    for name, body in _viol.findall(res["output"] + "\n\n"):
        if name not in found:
            body = re.sub(r"^State \d+:[^\n]*\n", "", body.strip())
            try:
                found[name] = tlaval.parse_state(body)
            except ValueError:
                found[name] = {"_raw": body}
    missing = [n for n in names if n not in found]
    if missing:
        ctx.machinery("vacuity guard: %s did not reach witness(es) %s with %s" % (module, missing, constants))
    return found


def generate(ctx, module, constants, invariants=("LawsHoldOnSpec",), witnesses=(), workers=4, label=None, timeout=3600):
    """table.generate in ONE TLC run: enumerate the cases, check `invariants` on every one (must hold),
    reach every invariant of `witnesses` (must be violated; -continue lets TLC go on after a witness is found, so
    the invariants are still checked on the complete case space), export the case table.

    Returns (cases, {witness: first violating state})."""
    import json
    import time
    out = os.path.join(ctx.workdir, "cases_%s_%d.json" % (module, int(time.time() * 1e6)))
    res = tlc.run(ctx, module, cfg_text=table.cfg(constants, tuple(invariants) + tuple(witnesses)),
                  allow_violation=True, workers=workers, extra=("-continue",) if witnesses else (), env={"VF_OUT": out},
                  timeout=timeout)
    ctx.add_tlc(res, label or module)
    found = {}
    for name, body in _viol.findall(res["output"] + "\n\n"):
        if name not in found:
            body = re.sub(r"^State \d+:[^\n]*\n", "", body.strip())
            try:
                found[name] = tlaval.parse_state(body)
            except ValueError:
                found[name] = {"_raw": body}
    broken = [n for n in invariants if n in found]
    if broken:
        ctx.machinery("spec %s violates %s with %s -- the model itself is wrong: %s" % (
            module, broken, constants, found[broken[0]]))
    missing = [n for n in witnesses if n not in found]
    if missing:
        ctx.machinery("vacuity guard: %s did not reach witness(es) %s with %s" % (module, missing, constants))
    if "states generated" not in res["output"] or not os.path.exists(out):
        ctx.machinery("generator %s did not complete / wrote no case file:\n%s" % (module, res["output"][-2000:]))
    with open(out) as f:
        cases = json.load(f)
    os.unlink(out)
    if not cases:
        ctx.machinery("generator %s exported no cases with %s" % (module, constants))
    return cases, {w: found[w] for w in witnesses}
