"""C21 — pull and push never silently drop history (tip rules, revno rule, append_revisions_only)."""
from vf import env, core
from harness import history_common as hc

META = dict(
    property_id="C21", level="model_checking", design_ref="DESIGN.md §4 C21",
    technique="TLA+ transcription of _update_revisions/_basic_push/_revision_relations/set_last_revision_info+"
              "_check_history_violation/generate_revision_history/update/uncommit (History.tla) model-checked by TLC "
              "over every revision graph and every covering pair of tips up to the bound; the TLC-enumerated cases "
              "are replayed on real branches (2a, pack-0.92, RemoteBranch over an in-process smart medium) and the "
              "recorded outcomes are judged by TLC with the same laws",
    level_text="TLC enumerates all graphs (<= 2 parents, ordered; optionally one ghost as a merged parent) and all pairs "
               "(target tip t, source tip s) that cover the graph, with every operation of OpsOf: pull / push x "
               "the overwrite argument forms (False, True, {history}, {tags}, {history, tags}) x append-only, every stop revision in the source's ancestry, bound target, update from a "
               "master, generate_revision_history (with / without last_rev), set_last_revision_info, uncommit, commit. "
               "The property's tip / revno / append-only rules are stated declaratively (ancestry, left-hand history) "
               "and proved by TLC on the mechanism-shaped transcription (heads, left-hand walk); each exported case is "
               "then executed on real branches built from the graph and TLC evaluates the same rules on what the "
               "branch records afterwards (fresh open and live object).",
    level_note="Shape only: trees and tags are incidental. Ghosts only as non-left-hand parents (a left-hand ghost has "
               "no revno). Replay is exhaustive up to the replay bound and a seeded stride sample above it; the spec "
               "side is exhaustive to the model-checking bound. GitBranch is not bound (no revision-id preserving way "
               "to materialise a given graph). Trusted: BranchBuilder/commit to build fixtures, vcsgraph (Rust) graph "
               "algorithms, TLC, the JSON bridge.",
)

# the forms of the overwrite argument (History!OwForms): what the command line passes for --overwrite / --overwrite-tags
OVERWRITE = {0: False, 1: True, 2: {"history"}, 3: {"tags"}, 4: {"history", "tags"}}
OW_NAMES = {1: "overwrite", 2: "overwrite-history", 3: "overwrite-tags-only", 4: "overwrite-history-tags"}


def _stop(x):
    return hc.rid(x) if x else None


def run_op(h, area, kind, t, s, op):
    """One operation on a fresh target branch with tip t (in the case's area); returns the outcome tuple."""
    from breezy.uncommit import uncommit
    k, ow, ao, stop, lr, bound = op
    ow, ao, lr, bound = OVERWRITE[ow], bool(ao), bool(lr), bool(bound)
    tgt = area.branch(t)
    src = h.shared(s)
    master = None
    if ao:
        tgt.set_append_revisions_only(True)
    if bound:
        master = area.branch(t)
        tgt.bind(master)
    if k == "update":
        tgt.bind(src)
    obj = area.open(tgt, kind) if kind == "remote" else tgt
    exc = ""
    try:
        if k == "pull":
            obj.pull(src, overwrite=ow, stop_revision=_stop(stop))
        elif k == "push":
            src.push(obj, overwrite=ow, stop_revision=_stop(stop))
        elif k == "update":
            obj.update()
        elif k == "genhist":
            obj.fetch(src, hc.rid(s))
            with obj.lock_write():
                obj.generate_revision_history(hc.rid(s), last_rev=hc.rid(t) if lr else None, other_branch=src)
        elif k == "setlast":
            if s:
                obj.fetch(src, hc.rid(s))
            with obj.lock_write():
                obj.set_last_revision_info(h.revno(s), hc.rid(s))
        elif k == "uncommit":
            uncommit(obj, revno=h.revno(s) + 1)
        elif k == "commit":
            mt = obj.create_memorytree()
            with mt.lock_write():
                if not t:
                    mt.add([""], ["directory"], ids=[b"root-id"])
                mt.commit("new", rev_id=b"new-%d" % area.count)
        else:
            h.ctx.machinery("unknown operation %r" % (op,))
    except core.MachineryError:
        raise
    except Exception as e:  # noqa: BLE001  (the exception class is the observation)
        exc = hc.exc_name(e)
    crevno, ctip = obj.last_revision_info()
    fresh = area.open(tgt)
    revno, tip = fresh.last_revision_info()
    mtip = mrevno = -1
    if master is not None:
        mrevno, mt_ = area.open(master).last_revision_info()
        mtip = hc.num(mt_, h.n)
    np = []
    if tip[:3] == b"new":
        np = [hc.num(p) for p in fresh.repository.get_revision(tip).parent_ids]
    return [hc.num(tip, h.n), revno, exc, hc.num(ctip, h.n), crevno, mtip, mrevno, np]


def _klass(par, t, s, op):
    """Input class of an operation for violation signatures (roles, no ids)."""
    q = op[3] or s
    if q == 0:
        rel = "source-empty"
    elif t == 0:
        rel = "target-empty"
    elif q == t:
        rel = "same"
    elif q in hc.ancestry(par, t):
        rel = "ancestor"
    elif t in hc.ancestry(par, q):
        rel = "lefthand-descendant" if t in hc.lefthand(par, q) else "merged-descendant"
    else:
        rel = "diverged"
    flags = [n for n, on in ((OW_NAMES.get(op[1]), op[1]), ("append-only", op[2]), ("stop", op[3]), ("last_rev", op[4]),
                             ("bound", op[5]), ("ghost", any(p == hc.GHOST for ps in par for p in ps))) if on]
    return "%s:%s%s" % (op[0], rel, "".join("+" + f for f in flags))


def _replay(sub, groups):
    for kind, group in groups:
        par = [list(ps) for ps in group[0]["c"]["par"]]
        h = hc.Hist(sub, par, hc.FORMATS[kind])
        try:
            for case in group:
                c = case["c"]
                area = h.area([c["t"]])
                try:
                    # a RemoteBranch is never bound from the client's point of view (no get_bound_location / update)
                    ops = [op for op in case["ops"] if not (kind == "remote" and (op[5] or op[0] == "update"))]
                    out = [run_op(h, area, kind, c["t"], c["s"], op) for op in ops]
                finally:
                    area.close()
                sub.cov.setdefault("_collect", []).append(("row", {"c": c, "kind": kind, "ops": ops, "out": out}))
                sub.count(len(out))
                for op in ops:
                    k = _klass(par, c["t"], c["s"], op)
                    if "same" not in k and "empty" not in k:
                        sub.nontrivial((kind, tuple(map(tuple, par)), c["t"], c["s"], tuple(op)))
        finally:
            h.close()


def _falsified(rows):
    """Binding self-test rows: a wrong revno, a silently moved tip on divergence, an append-only tip replaced."""
    import copy
    out = []
    for r in rows:
        for k, (op, o) in enumerate(zip(r["ops"], r["out"])):
            if len(out) == 0 and o[2] == "":
                x = copy.deepcopy(r)
                x["out"][k][1] += 1
                x["out"][k][4] += 1
                out.append(("revno", x))
            elif len(out) == 1 and op[0] == "pull" and op[1] in (0, 3) and o[2] == "DivergedBranches":
                x = copy.deepcopy(r)
                x["out"][k][0] = x["out"][k][3] = op[3] or r["c"]["s"]
                x["out"][k][1] = x["out"][k][4] = len(hc.lefthand(r["c"]["par"], x["out"][k][0]))
                out.append(("tip", x))
            elif len(out) == 2 and op[0] == "setlast" and op[2] and o[2] == "AppendRevisionsOnlyViolation":
                x = copy.deepcopy(r)
                x["out"][k][0] = x["out"][k][3] = r["c"]["s"]
                x["out"][k][1] = x["out"][k][4] = len(hc.lefthand(r["c"]["par"], r["c"]["s"]))
                out.append(("appendonly", x))
        if len(out) == 3:
            break
    return out


def run(ctx):
    env.init()
    hc.preload()
    off = ctx.seed
    L, LF = ("LawsHoldOnSpec",), ("LawsHoldOnSpec", "FastAgreesWithDag")
    if ctx.quick:
        plan = [("<=4 revisions, ghost", hc.gen_cfg(1, 4, 2, 1, 4, off), LF, True, True),
                ("5 revisions", hc.gen_cfg(5, 5, 2, 0, 60, off), L, True, False)]
        remote_every, pack_every = 12, 8
    else:
        plan = [("<=4 revisions, ghost", hc.gen_cfg(1, 4, 2, 1), LF, True, True),
                ("5 revisions", hc.gen_cfg(5, 5, 2, 0, 4, off), L, True, False),
                ("5 revisions, ghost", hc.gen_cfg(5, 5, 2, 1, 24, off), L, True, False),
                ("<=4 revisions, 3 parents, ghost", hc.gen_cfg(3, 4, 3, 1, 3, off), L, True, False),
                ("6 revisions", hc.gen_cfg(6, 6, 2, 0, 120, off), L, True, False)]
        remote_every, pack_every = 10, 5
    cases = hc.generate(ctx, "HistoryC21Gen", plan)
    groups = hc.group_by_graph(cases)
    jobs = [("2a", g) for g in groups]
    jobs += [("remote", g) for g in groups[ctx.seed % remote_every::remote_every]]
    jobs += [("pack", g) for g in groups[(ctx.seed + 1) % pack_every::pack_every]]
    before = len(ctx.collected)
    core.fork_map(ctx, _replay, jobs)
    rows = hc.collect_rows(ctx, before)
    ctx.cov["replayed"] = {"graphs": len(groups), "tip_pairs": len(cases), "rows": len(rows),
                           "by_kind": {k: sum(1 for r in rows if r["kind"] == k) for k in ("2a", "remote", "pack")}}
    for r in rows:
        if len(r["c"]["par"]) >= 4 and any(o[2] == "DivergedBranches" for o in r["out"]):
            ctx.sample({"graph": r["c"]["par"], "t": r["c"]["t"], "s": r["c"]["s"], "kind": r["kind"],
                        "operations -> [tip, revno, exc, live tip, live revno, master tip, master revno, new parents]":
                            [[o, x] for o, x in zip(r["ops"], r["out"])][:6]}, limit=2)
    for row, v in hc.judge_with_selftest(ctx, "HistoryC21Trace", rows, _falsified(rows)):
        c = row["c"]
        for k, law in v["failed"]:
            op, out = row["ops"][k - 1], row["out"][k - 1]
            ctx.violation("law:%s:%s:%s" % (law, "remote" if row["kind"] == "remote" else "local", _klass(c["par"], c["t"], c["s"], op)),
                          "law %s fails on %s branch: graph %s, target tip %s, source tip %s, operation "
                          "[op, overwrite, append-only, stop, last_rev, bound] = %s -> [tip, revno, exc, live tip, live "
                          "revno, master tip, master revno, new parents] = %s" % (law, row["kind"], c["par"], c["t"], c["s"], op, out),
                          {"c": c, "kind": row["kind"], "op": op, "out": out})
        for k in v["drift"]:
            ctx.drift("outcome differs from the transcription on %s branch: graph %s t=%s s=%s op %s -> %s" % (
                row["kind"], c["par"], c["t"], c["s"], row["ops"][k - 1], row["out"][k - 1]),
                {"c": c, "kind": row["kind"], "op": row["ops"][k - 1], "out": row["out"][k - 1]})
    ctx.rule("graphs: revision i has <= 2 (3) ordered distinct parents among revisions < i, the left-hand one present, "
             "optionally the ghost among the others; (target tip t, source tip s) over revisions + null: such that "
             "every revision is an ancestor of t or s; operations = History!OpsOf. Model-checked: %s. Replayed on real "
             "branches: exported cases of the same runs (Stride > 1 = every Stride-th case of TLC's enumeration, offset "
             "by the seed); 2a all, RemoteBranch / pack-0.92 every %d-th / %d-th graph. Non-trivial = operation whose "
             "requested revision differs from the target tip and neither side is empty."
             % ("; ".join("%s %s" % (p[0], p[1]) for p in plan), remote_every, pack_every))
    ctx.assume("ghosts occur only as non-left-hand parents")
    ctx.assume("target repository holds the ancestry of t before the operation; the source holds the ancestry of s")
