"""C51 — rebase plans replay exactly the branch's own revisions onto the new base."""
import json
import os
import shutil

from vf import core, env, table

META = dict(
    property_id="C51", level="model_checking", design_ref="DESIGN.md §4 C51",
    technique="TLA+ transcription of generate_simple_plan over the shared Dag library, model-checked by TLC on every "
              "revision graph up to the bound x (stop, onto) x skip_full_merged; every case is materialised as a real "
              "repository (BranchBuilder) and planned by the real generate_simple_plan, the plan goes through the real "
              "plan file of a working tree and the real rebase_todo; TLC judges the recorded plans with the C51 laws",
    level_text="Exhaustive small scope: all graphs with <= 5 revisions and <= 2 parents (thorough: <= 3 parents, plus the "
               "single-root 6-revision graphs with <= 2 parents and stop = newest revision: all on the transcription, a seeded half on "
               "real repositories) in which every revision is an ancestor of stop or onto. The laws "
               "(key set, ordering of new parents, save/load, todo) are TLA+ operators proved on the transcription and "
               "evaluated by TLC on what the real code returned. The planner only walks ancestries, so small graphs "
               "with merges, criss-crosses and several roots are representative.",
    level_note="The planner is called the way the rebase command calls it (todo_set = find_difference(stop, onto)[0], "
               "start_revid=None); explicit start revisions and generate_transpose_plan are not explored; no ghosts. "
               "UnrelatedBranches for histories without a common ancestor is model conformance, not a law. Trusted: "
               "TLC, the JSON bridge, the numbering of revisions r<N> / replacement ids.",
)

UNKNOWN = 999
NEWBASE = 100


def rid(r):
    return b"r%d" % r


class World:
    """Per worker: a memory server for repositories and one on-disk working tree for plan files."""

    def __init__(self, workdir):
        from breezy import controldir
        from dromedary import memory
        self.srv = memory.MemoryServer()
        self.srv.start_server()
        self.n = 0
        self.dir = os.path.join(workdir, "wt")
        self.wt = controldir.ControlDir.create_standalone_workingtree(
            self.dir, format=controldir.format_registry.make_controldir("2a"))
        self.tip = self.wt.commit("base", rev_id=b"plan-tip", allow_pointless=True)

    def close(self):
        self.srv.stop_server()
        shutil.rmtree(self.dir, ignore_errors=True)

    def builder(self):
        from breezy import transport
        from breezy.branchbuilder import BranchBuilder
        self.n += 1
        t = transport.get_transport(self.srv.get_url() + "g%d" % self.n)
        t.ensure_base()
        return BranchBuilder(t, format="2a"), t


def _commit(bb, parents, revision_id, tag, first):
    acts = [("add", ("", b"root-id", "directory", None))] if not parents else []
    acts.append(("add", ("f-" + tag, b"id-" + tag.encode(), "file", tag.encode() + b"\n")))
    bb.build_snapshot(list(parents) if parents else (None if first else []), acts, revision_id=revision_id)


def _plan_rows(sub, world, repo, bb, ids, cases, extra_no, leaf):
    """Run the real planner for every case on one materialised graph. ids: revision number -> revision id."""
    from breezy import errors
    from breezy.plugins.rewrite.rebase import (RebaseState1, generate_simple_plan, marshall_rebase_plan, rebase_todo,
                                                 unmarshall_rebase_plan)
    from breezy.workingtree import WorkingTree
    inv = {v: k for k, v in ids.items()}
    rows = []
    for ci, (c, disk, mk_present) in enumerate(cases):
        suffix = b".n%d.%d" % (leaf, ci)       # replacement ids are unique per case within one repository
        new_of = {ids[r] + suffix: NEWBASE + r for r in ids}

        def num(x, new_of=new_of):
            return inv.get(x, new_of.get(x, 0 if x == b"null:" else UNKNOWN))

        def proj(plan):
            return [{"old": num(o), "new": num(nw), "parents": [num(p) for p in ps]} for o, (nw, ps) in plan.items()]

        graph = repo.get_graph()
        stop, onto = ids[c["stop"]], ids[c["onto"]]
        our_new, _onto_unique = graph.find_difference(stop, onto)
        try:
            plan = generate_simple_plan(our_new, None, stop, onto, graph, lambda r, ps, s=suffix: r + s, c["skip"])
        except errors.UnrelatedBranches:
            rows.append({"c": c, "impl": {"status": "unrelated"}})
            sub.count(1)
            continue
        o = {"status": "ok", "plan": proj(plan)}
        # save / load
        if disk:
            with world.wt.lock_write():
                RebaseState1(world.wt).write_plan(plan)
                info = world.wt.branch.last_revision_info()
            wt2 = WorkingTree.open(world.dir)
            with wt2.lock_read():
                info_back, back = RebaseState1(wt2).read_plan()
        else:
            info = (ci + 1, stop)
            info_back, back = unmarshall_rebase_plan(marshall_rebase_plan(info, plan))
        o["back"] = proj(back)
        o["info"] = {"revno": info[0], "rev": 1}
        o["infoBack"] = {"revno": info_back[0], "rev": 1 if info_back[1] == info[1] else 0}
        # todo
        o["todo0"] = [num(x) for x in rebase_todo(repo, plan)]
        present = []
        if mk_present:
            entries = list(plan.items())
            k = sub.rng.randint(1, len(entries)) if entries else 0
            for j, (old, (new, ps)) in enumerate(entries[:k]):
                # really create the replacement revision (content is irrelevant for rebase_todo): child of onto
                extra_no[0] += 1
                _commit(bb, [onto], new, "x%d" % extra_no[0], False)
                present.append(num(new))
        o["present"] = present
        o["todo1"] = [num(x) for x in rebase_todo(repo, plan)]
        rows.append({"c": c, "impl": o})
        sub.count(1)
        if len(plan) > 1 or any(len(ps) > 1 for _n, ps in plan.values()):
            sub.nontrivial(json.dumps(c, sort_keys=True))
    return rows


def _replay(sub, chunk):
    """chunk: groups (prefix graph Q, [(last parent list, [(case, disk, present), ...]), ...])."""
    import breezy.plugins.rewrite  # noqa: registers the rebase-v1 working tree feature
    world = World(sub.workdir)
    rows = []
    try:
        for prefix, exts in chunk:
            bb, t = world.builder()
            bb.start_series()
            ids = {}
            for i, ps in enumerate(prefix, 1):
                ids[i] = rid(i)
                _commit(bb, [ids[p] for p in ps], ids[i], "r%d" % i, i == 1)
            n = len(prefix) + 1
            extra_no = [0]
            repo = bb.get_branch().repository
            for j, (ps, cases) in enumerate(exts):
                ids_j = dict(ids)
                ids_j[n] = b"r%d.%d" % (n, j)
                _commit(bb, [ids[p] for p in ps], ids_j[n], "r%d.%d" % (n, j), n == 1)
                # the series keeps the branch (and repository) write-locked
                rows.extend(_plan_rows(sub, world, repo, bb, ids_j, cases, extra_no, j))
            bb.finish_series()
            try:
                t.delete_tree(".")
            except Exception:
                pass
    finally:
        world.close()
    path = os.path.join(os.path.dirname(sub.workdir), "rows_%s.json" % os.path.basename(sub.workdir))
    with open(path, "w") as f:
        json.dump(rows, f)


def _shape(c):
    P = c["P"]
    merges = sum(1 for ps in P if len(ps) > 1)
    roots = sum(1 for ps in P if not ps)
    return "%s%s%s" % ("skip" if c["skip"] else "noskip", "+merge" if merges else "", "+roots" if roots > 1 else "")


def run(ctx):
    import glob
    env.init()
    # (bounds, fraction of the graphs that is replayed on real repositories); TLC checks the laws on the
    # transcription for every case of every table
    plans = [({"MaxRev": 5, "MaxParents": 2, "MinRev": 1, "SingleRoot": "FALSE", "StopNewest": "FALSE"}, 1.0)] if ctx.quick else \
            [({"MaxRev": 5, "MaxParents": 3, "MinRev": 1, "SingleRoot": "FALSE", "StopNewest": "FALSE"}, 1.0),
             ({"MaxRev": 6, "MaxParents": 2, "MinRev": 6, "SingleRoot": "TRUE", "StopNewest": "TRUE"}, 1 / 2)]
    seen, groups, ncases, chosen = set(), {}, 0, {}
    wit = ("WitnessSkipped", "WitnessUntouched")
    shapes = {"unrelated": 0, "merge entry": 0, "rewritten root": 0}
    for pi, (consts, frac) in enumerate(plans):
        cases = table.generate(ctx, "RebaseGen", consts, label="RebaseGen %s" % consts, workers=4,
                               witnesses=wit if pi == 0 else ())
        if not cases:
            ctx.machinery("RebaseGen produced no cases")
        for k in cases:
            c = k["c"]
            if k["spec"]["status"] == "unrelated":
                shapes["unrelated"] += 1
            else:
                shapes["merge entry"] += any(len(e["parents"]) > 1 for e in k["spec"]["plan"])
                shapes["rewritten root"] += any(not c["P"][e["old"] - 1] for e in k["spec"]["plan"])
            key = json.dumps(c, sort_keys=True)
            if key in seen:
                continue
            seen.add(key)
            P = c["P"]
            if frac < 1.0:
                gk = json.dumps(P)
                if gk not in chosen:
                    chosen[gk] = ctx.rng.random() < frac
                if not chosen[gk]:
                    continue
            g = groups.setdefault(json.dumps(P[:-1]), {})
            g.setdefault(json.dumps(P[-1]), []).append(c)
            ncases += 1
    for shape, cnt in shapes.items():          # anti-vacuity on the table TLC exported
        if not cnt:
            ctx.machinery("vacuity guard: no %s among the expected plans" % shape)
    ctx.cov["expected_plan_shapes"] = shapes
    items = []
    for pk in sorted(groups):
        exts = []
        for lk in sorted(groups[pk]):
            cs = groups[pk][lk]
            pick = ctx.rng.randrange(len(cs))
            exts.append((json.loads(lk), [(c, i % (2 if ctx.quick else 4) == 0, i == pick or (not ctx.quick and i % 3 == 0))
                                          for i, c in enumerate(cs)]))
        items.append((json.loads(pk), exts))
    ctx.rule("TLC enumerates every graph with <= MaxRev revisions and <= MaxParents ordered parents per revision "
             "(quick 5/2; thorough 5/3, and the single-root 6-revision graphs with <= 2 parents with the newest "
             "revision as stop, of which a seeded half is replayed), every (stop, onto) such that all revisions are "
             "ancestors of stop or onto and stop has revisions of its own, x skip_full_merged; each is built as a real "
             "2a repository and planned by generate_simple_plan; plans are saved/loaded through RebaseState1 on an "
             "on-disk working tree (every 2nd case, thorough every 4th; the others through marshall/unmarshall in "
             "memory); rebase_todo is asked before and after a random-length prefix of the replacement revisions "
             "really exists (one case per graph; thorough: + every 3rd). Non-trivial = plan with > 1 entry or a "
             "merge entry")
    ctx.cov["exhaustive"] = True      # up to 5 revisions; the 6-revision table is exhaustive on the TLC side only
    ctx.cov["graphs"] = sum(len(e) for _p, e in items)
    core.fork_map(ctx, _replay, items)
    rows = []
    for f in sorted(glob.glob(os.path.join(ctx.workdir, "rows_*.json"))):
        with open(f) as fp:
            rows.extend(json.load(fp))
        os.unlink(f)
    if len(rows) != ncases:
        ctx.machinery("replayed %d rows of %d cases" % (len(rows), ncases))
    rows.sort(key=lambda r: json.dumps(r["c"], sort_keys=True))
    ok = [r for r in rows if r["impl"]["status"] == "ok"]
    if not ok:
        ctx.machinery("no plan was produced at all")
    ctx.cov["plans"] = len(ok)
    for r in (ok[len(ok) // 5], ok[len(ok) // 2], ok[-1]):
        ctx.sample(r)
    for row, failed, drift in table.judge(ctx, "RebaseTrace", rows, workers=2):
        c = row["c"]
        for law in failed:
            ctx.violation("law:%s:generate_simple_plan:%s" % (law, _shape(c)) if law in ("keys", "entries", "order", "left")
                          else "law:%s:%s" % (law, "RebaseState1" if law == "marshal" else "rebase_todo"),
                          "law %s fails on %s -> %s" % (law, c, row["impl"]), row)
        if drift and not failed:
            ctx.drift("plan differs from the transcription (Rebase!PlanMap) on %s: %s" % (c, row["impl"]), row)
