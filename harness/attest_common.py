"""Shared by C40 (bundles / merge directives) and C41 (testaments): materialise abstract revisions as real ones and
project real revisions to the hashes of their testament texts.

Abstract tree:  {item: (path, kind, content, executable)}  - item is the file identity (file id b"id-<item>"), kind in
{"file", "directory", "symlink"}, content = bytes for files, the target string for symlinks, None for directories.
The root directory (file id b"root-id") is implicit.  Unlike vf.world.build_dag this builder commits a wholesale
replaced MemoryTree (inventory + file store), so renames keep the file id, executable bits, symlink targets, kind
changes, revision properties, time zones and arbitrary messages are all expressible, and nothing touches the disk.
"""
import hashlib

ROOT_ID = b"root-id"


def rid(r):
    return r if isinstance(r, bytes) else str(r).encode()


def fid(item):
    return b"id-" + item.encode()


def sha(b):
    return hashlib.sha1(b).hexdigest()[:20]


def new_branch(fmt, url):
    from breezy import controldir
    f = controldir.format_registry.make_controldir(fmt)
    return controldir.ControlDir.create_branch_convenience(url, format=f, force_new_tree=False)


def new_repo(fmt, url):
    from breezy import controldir, transport as T
    t = T.get_transport(url)
    t.ensure_base()
    return controldir.format_registry.make_controldir(fmt).initialize_on_transport(t).create_repository()


def memory_url():
    """A fresh MemoryServer; returns (server, url) - stop_server() the server when done."""
    from dromedary import memory
    srv = memory.MemoryServer()
    srv.start_server()
    return srv, srv.get_url()


def _fill(tree_obj, want):
    """Replace the content of a locked MemoryTree by the abstract tree `want`."""
    from bzrformats import inventory as I
    from dromedary.memory import MemoryTransport
    inv = I.Inventory(root_id=None)
    inv.add(I.InventoryDirectory(ROOT_ID, "", None))
    ft = MemoryTransport()
    for item, (path, kind, content, ex) in sorted(want.items(), key=lambda kv: (kv[1][0].count("/"), kv[1][0])):
        d, _, name = path.rpartition("/")
        parent = inv.path2id(d)
        if parent is None:
            raise ValueError("abstract tree has no directory %r for %r" % (d, path))
        if kind == "file":
            inv.add(I.InventoryFile(fid(item), name, parent, executable=bool(ex)))
            ft.put_bytes(path, content)
        elif kind == "symlink":
            inv.add(I.InventoryLink(fid(item), name, parent))
            ft.symlink(content, path)
        else:
            inv.add(I.InventoryDirectory(fid(item), name, parent))
            ft.mkdir(path)
    tree_obj._inventory = inv
    tree_obj._file_transport = ft


DEFAULT_META = dict(message=None, timestamp=None, timezone=0, committer="C <c@e.com>", revprops=None)


def build(dag, trees, fmt="2a", url=None, meta=None, branch=None):
    """Commit every (rev, [parents]) of dag, in the given order, with the abstract tree trees[rev] and the metadata
    meta[rev] (message / timestamp / timezone / committer / revprops; defaults: 'msg <rev>', 10^9 + position, 0).
    Returns the branch (its tip is the last revision of dag).  Real commits: the commit builder derives text keys,
    last-changed revisions and per-file parents as for any other commit."""
    srv = None
    if branch is None:
        if url is None:
            srv, url = memory_url()
        branch = new_branch(fmt, url + "src")
    revno = {b"null:": 0}
    for i, (rev, parents) in enumerate(dag):
        ps = [rid(p) for p in parents]
        left = ps[0] if ps else b"null:"
        with branch.lock_write():
            branch.set_last_revision_info(revno[left], left)
        t = branch.create_memorytree()
        with t.lock_write():
            t.set_parent_ids(ps)
            _fill(t, trees[rev])
            m = dict(DEFAULT_META)
            m.update((meta or {}).get(rev, {}))
            t.commit(m["message"] if m["message"] is not None else "msg %s" % rev, rev_id=rid(rev),
                     timestamp=m["timestamp"] if m["timestamp"] is not None else 1000000000 + i,
                     timezone=m["timezone"], committer=m["committer"],
                     revprops=dict(m["revprops"]) if m["revprops"] else None)
        revno[rid(rev)] = revno[left] + 1
    return branch


FORMS = ("t1", "t2", "t3")


def testament_hashes(repo, revid):
    """{form + 'l' | 's': hash of as_text() | as_short_text()} for Testament (t1), StrictTestament (t2), StrictTestament3 (t3)."""
    from breezy.bzr.testament import Testament, StrictTestament, StrictTestament3
    out = {}
    for form, cls in zip(FORMS, (Testament, StrictTestament, StrictTestament3)):
        t = cls.from_revision(repo, revid)
        out[form + "l"] = sha(t.as_text())
        out[form + "s"] = sha(t.as_short_text())
    return out


def testament_digest(repo, revid):
    """One string for all six texts of a revision."""
    h = testament_hashes(repo, revid)
    return sha("".join(h[k] for k in sorted(h)).encode())
