"""C19 — text conflicts are reported exactly when conflict markers are written."""
import os
import shutil

from vf import core, env, table, tlc
from harness import table_common

META = dict(
    property_id="C19", level="model_checking", design_ref="DESIGN.md §4 C19",
    technique="TLA+ per-file state machine unmerged -TextMerge(hasConflictRegions)-> merged -Resolve(take_this | "
              "take_other | done)-> resolved with the C19 clauses as invariants, model-checked by TLC for every "
              "enumerated case (texts B/T/O x reprocess x show-base x cherrypick x resolve action); every case is merged "
              "by the real Merger.do_merge() on a real 2a working tree and resolved by the real conflicts.resolve(); the "
              "recorded traces (TextConflict recorded, file bytes class, helper files vs B/T/O, conflict list) are judged "
              "by the TLA+ laws and validated as behaviours of the machine by TLC",
    level_text="Exhaustive over line sequences of <= 2 (thorough 3) lines over {a, b, a '<<<<<<< TREE' look-alike line, a "
               "line without trailing newline} for BASE, THIS and OTHER, every supported combination of reprocess / "
               "show-base / cherrypick and the three resolve actions (rotating with the texts; thorough additionally the "
               "full product for texts of <= 2 lines), merge type merge3 in full and weave / lca for the bookkeeping half. "
               "TLC proves the clauses on the machine for every case; every case is a real merge + resolve whose "
               "observations TLC judges. Short texts over a four-line alphabet exercise every region shape of a "
               "three-way line merge (insert / delete / change on one or both sides, at the ends and in the middle).",
    level_note="HasConflictRegions and the merged / marked text are NOT specified in TLA+: they come from the external "
               "merge3 package (with patiencediff) run independently on the same texts and options - a trusted oracle "
               "outside /repo. When THIS = BASE, OTHER = BASE or THIS = OTHER the tree merger takes the changed side "
               "without a text merge; the oracle agrees on those. weave / lca: the plan merge defines the conflict flag; "
               "only record <=> helpers <=> markers and the resolve actions are judged. Trusted: TLC, the JSON bridge.",
)

WITNESSES = ("WitnessTakeOther", "WitnessDoneKeeps", "WitnessCleanMerge", "WitnessWeave")
LINES = {1: b"a\n", 2: b"b\n", 3: b"<<<<<<< TREE\n", 4: b"z"}
SUFFIXES = ("BASE", "THIS", "OTHER")
BATCH = 60
START, MID, END = b"<<<<<<< TREE\n", b"=======\n", b">>>>>>> MERGE-SOURCE\n"


def blob(seq):
    return b"".join(LINES[x] for x in seq)


def oracle(c):
    """(HasConflictRegions, merged-or-marked text) from the merge3 package, independent of breezy.merge."""
    import merge3
    import patiencediff
    if not (c["b"] or c["t"] or c["o"]):       # three empty texts: merge3 cannot tell bytes from str; nothing to merge
        return False, b""
    m3 = merge3.Merge3([LINES[x] for x in c["b"]], [LINES[x] for x in c["t"]], [LINES[x] for x in c["o"]],
                       is_cherrypick=c["cp"], sequence_matcher=patiencediff.PatienceSequenceMatcher)
    regions = list(m3.merge_regions())
    if c["rp"]:
        regions = list(m3.reprocess_merge_regions(regions))
    hc = any(r[0] == "conflict" for r in regions)
    out = b"".join(m3.merge_lines(name_a=b"TREE", name_b=b"MERGE-SOURCE", name_base=b"BASE-REVISION",
                                  start_marker=b"<<<<<<<", base_marker=b"|||||||" if c["sb"] else None, reprocess=c["rp"]))
    return hc, out


def has_regions(data):
    """The start marker, later the separator, later the end marker - as byte strings: merge3 and PlanWeaveMerge put a
    marker directly behind a last line that has no newline, so a marker is not always at the start of a line."""
    pos = 0
    for marker in (START, MID, END):
        pos = data.find(marker, pos)
        if pos < 0:
            return False
        pos += len(marker)
    return True


def merge_types():
    from breezy import merge as M
    return {"merge3": M.Merge3Merger, "weave": M.WeaveMerger, "lca": M.LCAMerger}


class Batch:
    """One real history + working tree holding one file per case; all cases share merge type and options."""

    def __init__(self, top, cases):
        self.top, self.cases = top, cases
        self.names = ["f%02d" % k for k in range(len(cases))]

    def _write(self, root, which):
        for n, c in zip(self.names, self.cases):
            with open(os.path.join(root, n), "wb") as f:
                f.write(blob(c[which]) if which else b"seed text of %s\n" % n.encode())

    def build(self):
        """BASE -> THIS and BASE -> OTHER; for cherrypick BASE is not an ancestor of THIS: seed -> THIS, seed -> BASE -> OTHER."""
        from breezy import controldir
        from breezy.workingtree import WorkingTree
        cp = self.cases[0]["cp"]
        op = os.path.join(self.top, "other")
        tp = os.path.join(self.top, "this")
        tmpl = os.path.join(os.path.dirname(self.top), "empty-2a-tree")       # one per worker, copied per batch
        if not os.path.isdir(tmpl):
            os.makedirs(tmpl)
            controldir.ControlDir.create_standalone_workingtree(tmpl, format=controldir.format_registry.make_controldir("2a"))
        os.makedirs(self.top, exist_ok=True)
        shutil.copytree(tmpl, op)
        other = WorkingTree.open(op)
        self._write(op, None if cp else "b")
        other.add(self.names)
        first = other.commit("seed" if cp else "base")
        shutil.copytree(op, tp)
        this = WorkingTree.open(tp)
        self._write(tp, "t")
        this.commit("this")
        if cp:
            self._write(op, "b")
            self.rb = other.commit("base")
        else:
            self.rb = first
        self._write(op, "o")
        self.ro = other.commit("other")
        self.this, self.tp, self.other = this, tp, other

    def merge(self):
        from breezy import merge as M
        c = self.cases[0]
        with self.this.lock_write():
            mg = M.Merger.from_revision_ids(self.this, self.ro, base=self.rb, other_branch=self.other.branch)
            mg.merge_type = merge_types()[c["mt"]]
            mg.reprocess = c["rp"]
            mg.show_base = c["sb"]
            cherry = mg.make_merger().cherrypick
            if cherry != c["cp"]:
                raise core.MachineryError("history gives cherrypick=%s, the case wants %s" % (cherry, c["cp"]))
            mg.do_merge()

    def observe(self, idx, want, conflicts):
        """[rec, file, regions, helpers, others] for case idx; want = the oracle's text or None (bookkeeping scope);
        conflicts = list(WorkingTree.conflicts()) read for this round of observations."""
        c, n = self.cases[idx], self.names[idx]
        recs = [k for k in conflicts if k.path == n or k.path.startswith(n + ".")]
        p = os.path.join(self.tp, n)
        if os.path.isfile(p):
            with open(p, "rb") as f:
                data = f.read()
            labels = [lab for lab, ref in (("oracle", want), ("this", blob(c["t"])), ("other", blob(c["o"])),
                                           ("base", blob(c["b"]))) if ref is not None and data == ref]
        else:
            data, labels = None, ["absent"]
        helpers, hdata = {}, {}
        for s, key in zip(SUFFIXES, ("b", "t", "o")):
            hp = p + "." + s
            if not os.path.lexists(hp):
                helpers[s] = "absent"
            else:
                with open(hp, "rb") as f:
                    hdata[s] = f.read()
                helpers[s] = "equal" if hdata[s] == blob(c[key]) else "differs"
        ob = {"rec": any(k.typestring == "text conflict" and k.path == n for k in recs), "file": labels,
              "regions": bool(data is not None and has_regions(data)), "helpers": helpers,
              "others": sum(1 for k in recs if not (k.typestring == "text conflict" and k.path == n))}
        return ob, {"file": data, "helpers": hdata, "conflicts": [str(k) for k in recs]}


def _replay(sub, batches):
    import logging
    from breezy import conflicts as C
    logging.getLogger("brz").setLevel(logging.CRITICAL)
    table_common.narrow_jvm()
    rows, debug = [], {}
    for bi, cases in enumerate(batches):
        top = os.path.join(sub.workdir, "b%d" % bi)
        bt = Batch(top, cases)
        bt.build()
        bt.merge()
        full = cases[0]["scope"] == "full"
        orc = [oracle(c) if full else (None, None) for c in cases]
        recorded = list(bt.this.conflicts())
        first = [bt.observe(k, orc[k][1], recorded) for k in range(len(cases))]
        groups = {}
        for k, c in enumerate(cases):
            if first[k][0]["rec"]:
                groups.setdefault(c["act"], []).append(k)
        for act, idxs in sorted(groups.items()):
            C.resolve(bt.this, paths=[bt.names[k] for k in idxs], action=act)
        recorded = list(bt.this.conflicts())
        for k, c in enumerate(cases):
            tr, dbg = [first[k][0]], [first[k][1]]
            if first[k][0]["rec"]:
                # after resolve the reference for "oracle" stays the merge output (resolve --done keeps the file)
                ob2, d2 = bt.observe(k, orc[k][1], recorded)
                tr.append(ob2)
                dbg.append(d2)
            rows.append({"c": c, "hc": bool(orc[k][0]) if full else False, "tr": tr})
            debug[len(rows) - 1] = dbg
            sub.count(1)
            if c["t"] != c["b"] and c["o"] != c["b"] and c["t"] != c["o"]:
                sub.nontrivial((tuple(c["b"]), tuple(c["t"]), tuple(c["o"]), c["mt"], c["rp"], c["sb"], c["cp"], c["act"]))
            if len(tr) == 2 and len(sub.cov["samples"]) < 2 and (3 in c["t"] or 4 in c["o"]):
                sub.sample({"c": c, "hc": rows[-1]["hc"], "tr": tr, "file_after_merge": dbg[0]["file"]})
        shutil.rmtree(top, ignore_errors=True)
    out = sub.cov.setdefault("_collect", [])
    index = {id(r): k for k, r in enumerate(rows)}
    for row, failed, drift in table.judge(sub, "TextConflictTrace", rows, workers=1):
        out.append((dict(row, debug=debug[index[id(row)]]), failed, drift))
    sub.cov.setdefault("_stats", []).append(
        {"rows": len(rows), "conflicted": sum(1 for r in rows if r["tr"][0]["rec"]),
         "clean_nontrivial": sum(1 for r in rows if not r["tr"][0]["rec"] and r["c"]["t"] != r["c"]["b"]
                                 and r["c"]["o"] != r["c"]["b"] and r["c"]["t"] != r["c"]["o"])})
    out.append(("stats", sub.cov["_stats"][-1], None))


def features(c):
    f = []
    texts = list(c["b"]) + list(c["t"]) + list(c["o"])
    if 3 in texts:
        f.append("marker-lookalike")
    if 4 in texts:
        f.append("no-eol")
    f += [n for n, k in (("reprocess", "rp"), ("show-base", "sb"), ("cherrypick", "cp")) if c[k]]
    if c["t"] == c["b"] or c["o"] == c["b"] or c["t"] == c["o"]:
        f.append("one-sided")
    return "+".join(f) or "plain"


def selftest(ctx):
    """Binding self-test: a correct synthetic trace must pass, and each single corruption of it must be flagged by TLC
    with the law it breaks (otherwise the judge is vacuous)."""
    c = {"b": [1], "t": [2], "o": [3], "mt": "merge3", "scope": "full", "rp": False, "sb": False, "cp": False, "act": "take_this"}
    absent = {s: "absent" for s in SUFFIXES}
    equal = {s: "equal" for s in SUFFIXES}
    good = [{"rec": True, "file": ["oracle"], "regions": True, "helpers": equal, "others": 0},
            {"rec": False, "file": ["this"], "regions": False, "helpers": absent, "others": 0}]

    def variant(step, **kw):
        tr = [dict(ob) for ob in good]
        tr[step].update(kw)
        return tr
    probes = [("ok", True, good, set()),
              ("iff", True, variant(0, rec=False)[:1], {"iff"}),
              ("marked", True, variant(0, file=["this"]), {"marked"}),
              ("helpers", True, variant(0, helpers=dict(equal, OTHER="differs")), {"helpers"}),
              ("clean", False, [{"rec": False, "file": ["this"], "regions": False, "helpers": absent, "others": 0}], {"clean"}),
              ("take", True, variant(1, file=["other"]), {"take"}),
              ("leftover", True, variant(1, helpers=dict(absent, BASE="equal")), {"leftover"}),
              ("shape", False, good, {"shape", "iff"})]
    rows = [{"c": c, "hc": hc, "tr": tr} for _, hc, tr, _ in probes]
    got = {id(r): set(f) for r, f, _ in table.judge(ctx, "TextConflictTrace", rows, label="self-test", workers=2)}
    for (name, _, _, want), r in zip(probes, rows):
        have = got.get(id(r), set())
        if (want and not (have & want)) or (not want and have):
            ctx.machinery("binding self-test: probe %r judged %s, expected %s" % (name, sorted(have), sorted(want)))
    ctx.cov["traces_validated_against_impl"] -= len(rows)       # synthetic rows are not implementation traces


def run(ctx):
    env.init()
    selftest(ctx)
    consts = {"MaxLen": 2, "FullLen": 0, "WeaveLen": 1} if ctx.quick else {"MaxLen": 3, "FullLen": 2, "WeaveLen": 2}
    parts, _ = table_common.generate(ctx, "TextConflictGen", consts, workers=8, timeout=2400)
    seen, cases = set(), []
    for part in parts:                        # rotating / full-product / weave+lca parts of the case table
        for c in part:
            key = (tuple(c["b"]), tuple(c["t"]), tuple(c["o"]), c["mt"], c["rp"], c["sb"], c["cp"], c["act"])
            if key not in seen:
                seen.add(key)
                cases.append(c)
    if not cases:
        ctx.machinery("generator exported no cases")
    # anti-vacuity: states of the machine TLC must reach (they do not depend on the text lengths: smallest bounds)
    for w in WITNESSES:
        tlc.check(ctx, "TextConflictGen", cfg_text=table.cfg({"MaxLen": 1, "FullLen": 0, "WeaveLen": 1}, (w,)),
                  expect_violation=w, label="witness " + w, workers=4)
    total = len(cases)
    cases.sort(key=lambda c: (c["mt"], c["rp"], c["sb"], c["cp"], c["act"], c["b"], c["t"], c["o"]))
    groups = {}
    for c in cases:
        groups.setdefault((c["mt"], c["rp"], c["sb"], c["cp"]), []).append(c)
    batches = []
    for key in sorted(groups):
        g = groups[key]
        ctx.rng.shuffle(g)                    # mixes clean and conflicted files, and the three resolve actions, per tree
        batches += [g[k:k + BATCH] for k in range(0, len(g), BATCH)]
    core.fork_map(ctx, _replay, batches)
    stats = [x[1] for x in ctx.collected if x[0] == "stats"]
    bad = [x for x in ctx.collected if x[0] != "stats"]
    done = sum(s["rows"] for s in stats)
    if done != total:
        ctx.machinery("replayed %d of %d cases" % (done, total))
    conflicted = sum(s["conflicted"] for s in stats)
    clean = sum(s["clean_nontrivial"] for s in stats)
    if not conflicted or not clean:
        ctx.machinery("vacuous: %d conflicted merges, %d clean two-sided merges" % (conflicted, clean))
    for row, failed, drift in bad:
        c = row["c"]
        for law in sorted(failed):
            detail = ""
            if law == "iff":
                detail = "/recorded-without-regions" if row["tr"][0]["rec"] else "/regions-without-record"
            if law in ("take", "leftover"):
                detail = "/" + c["act"]
            ctx.violation("%s%s:%s:%s" % (law, detail, c["mt"], features(c)),
                          "law %s fails for merge type %s, BASE %r THIS %r OTHER %r, reprocess=%s show_base=%s cherrypick=%s, "
                          "resolve %s: oracle HasConflictRegions=%s, observed %s" % (
                              law, c["mt"], blob(c["b"]), blob(c["t"]), blob(c["o"]), c["rp"], c["sb"], c["cp"], c["act"],
                              row["hc"] if c["scope"] == "full" else "n/a", row["tr"]), row)
        if drift and not failed:
            ctx.drift("trace does not conform to the state machine: %s BASE %r THIS %r OTHER %r rp=%s sb=%s cp=%s act=%s: %s" % (
                c["mt"], blob(c["b"]), blob(c["t"]), blob(c["o"]), c["rp"], c["sb"], c["cp"], c["act"], row["tr"]), row)
    ctx.rule("TLC enumerates BASE/THIS/OTHER as all line sequences of <= %(MaxLen)d lines over {a, b, '<<<<<<< TREE' "
             "look-alike, line without newline (last only)} for merge3 with one (reprocess, show-base, cherrypick, resolve "
             "action) combination each, rotating with the texts; the full product of options and actions for texts of <= "
             "%(FullLen)d lines; weave and lca for texts of <= %(WeaveLen)d lines x reprocess x cherrypick" % consts +
             "; every case replayed (%d cases, %d real trees of <= %d files). Non-trivial = the three texts are pairwise "
             "different" % (total, len(batches), BATCH))
    ctx.cov["exhaustive"] = True
    ctx.cov["cases_enumerated"] = total
    ctx.cov["conflicted_merges"] = conflicted
    ctx.cov["clean_two_sided_merges"] = clean
    ctx.assume("HasConflictRegions and the merged / marked text are taken from the external merge3 package "
               "(Merge3(base, this, other, is_cherrypick, PatienceSequenceMatcher).merge_regions / reprocess_merge_regions "
               "/ merge_lines with an ordinary start marker) run independently on the same texts and options: a trusted "
               "oracle outside /repo")
    ctx.assume("weave / lca: the conflict flag is defined by the plan merge; only record <=> helpers <=> markers and the "
               "resolve actions are judged (.BASE holds the base reconstructed from the plan, presence only)")
