"""C46 — clean-tree deletes only what was asked for."""
import os
import shutil

from vf import env, table, core, tlc
from harness import table_common

META = dict(
    property_id="C46", level="model_checking", design_ref="DESIGN.md §4 C46",
    technique="TLA+ model of tree layouts, deletion categories and the property's never-delete clauses, model-checked by "
              "TLC over every layout x option combination; the TLC case table is built on real bzr and git working "
              "trees, the real clean_tree() is run, and the set of paths that disappeared (inside and outside the tree) "
              "is judged by the same TLA+ laws",
    level_text="Exhaustive over the layout elements {v, u, i.o, x~, x.THIS, ud/, ud/nested/<branch>, nb/<branch>, vd/, "
               "vd/u, link->outside} as presence subsets, both tree flavours, both nested-branch formats and all 16 "
               "option combinations (thorough; quick keeps v and i.o always present and replays a seeded sample). TLC "
               "proves on the model that the expected deletions satisfy every clause; every replayed case is a real "
               "clean_tree() call on a real on-disk tree whose before/after file-system state is judged by TLC. The "
               "function has no state beyond the layout and its options, so small-scope exhaustion is the right level.",
    level_note="One representative path per category (the code decides by name suffix / ignore rules / versionedness, "
               "not by content). Ignore rules come from a versioned .bzrignore/.gitignore ('*.o', '*~'). clean_tree is "
               "called on the tree root with no_prompt=True. Trusted: TLC, the JSON bridge, os.path.lexists.",
)

WITNESSES = ("WitnessNestedAtRisk", "WitnessTwoCategories", "WitnessDryRun", "WitnessFlavoursDiffer")
FMT = {"bzr": "2a", "git": "git"}
CTL = {"bzr": ".bzr", "git": ".git"}
IGN = {"bzr": ".bzrignore", "git": ".gitignore"}
# observed path -> real path relative to the scratch top (tree = top/w, outside = top/outside); "<x>/ctl" and "ctl" are
# judged by completeness of the control directory, see _ctl_state
GROUP = {"ud": ("ud", "ud/f"), "nested": ("ud/nested", "ud/nested/ctl", "ud/nested/file"),
         "nb": ("nb", "nb/ctl", "nb/file"), "vd": ("vd", "vd/v2")}
DIRS = {"ud", "ud/nested", "nb", "vd", "outside"}


def present(lay):
    out = ["ign", "ctl", "outside", "outside/sentinel"]
    for e in lay:
        out.extend(GROUP.get(e, (e,)))
    return out


class Fixture:
    """One scratch area per worker: top/outside/sentinel, top/tmpl_<nk> (nested-branch templates) and one committed
    working tree per (flavour, v present, vd present), reset between cases."""

    def __init__(self, workdir):
        self.top = os.path.join(workdir, "c46")
        os.makedirs(os.path.join(self.top, "outside"))
        self.trees = {}
        self.tmpl = {}

    def template(self, nk):
        from breezy import controldir
        if nk not in self.tmpl:
            p = os.path.join(self.top, "tmpl_" + nk)
            os.makedirs(p)
            controldir.ControlDir.create_standalone_workingtree(p, format=controldir.format_registry.make_controldir(FMT[nk]))
            with open(os.path.join(p, "file"), "w") as f:
                f.write("file of the nested branch\n")
            self.tmpl[nk] = p
        return self.tmpl[nk]

    def tree(self, fl, v, vd):
        from breezy import controldir
        key = (fl, v, vd)
        if key not in self.trees:
            w = os.path.join(self.top, "w_%s_%d%d" % key)
            wt = controldir.ControlDir.create_standalone_workingtree(w, format=controldir.format_registry.make_controldir(FMT[fl]))
            self.trees[key] = w
            self._versioned_files(w, fl, v, vd)
            wt.add([IGN[fl]] + (["v"] if v else []) + (["vd", "vd/v2"] if vd else []))
            wt.commit("base")
        return self.trees[key]

    @staticmethod
    def _versioned_files(w, fl, v, vd):
        want = {IGN[fl]: "*.o\n*~\n"}
        if v:
            want["v"] = "versioned\n"
        if vd:
            os.makedirs(os.path.join(w, "vd"), exist_ok=True)
            want["vd/v2"] = "versioned too\n"
        for rel, text in want.items():
            p = os.path.join(w, rel)
            if not os.path.isfile(p):
                with open(p, "w") as f:
                    f.write(text)
        return set(want)

    def build(self, c):
        lay = set(c["lay"])
        fl, nk = c["fl"], c["nk"]
        w = self.tree(fl, "v" in lay, "vd" in lay)
        keep = self._versioned_files(w, fl, "v" in lay, "vd" in lay)
        # wipe everything that is not the control directory or a versioned path
        for d, keepnames in ((w, {CTL[fl], "vd"} | {k for k in keep if "/" not in k}),
                             (os.path.join(w, "vd"), {"v2"})):
            if not os.path.isdir(d):
                continue
            for n in os.listdir(d):
                if n in keepnames:
                    continue
                p = os.path.join(d, n)
                if os.path.isdir(p) and not os.path.islink(p):
                    shutil.rmtree(p)
                else:
                    os.unlink(p)
        if "vd" not in lay and os.path.isdir(os.path.join(w, "vd")):
            shutil.rmtree(os.path.join(w, "vd"))
        out = os.path.join(self.top, "outside")
        os.makedirs(out, exist_ok=True)
        with open(os.path.join(out, "sentinel"), "w") as f:
            f.write("outside the tree\n")
        for e in ("u", "i.o", "x~", "x.THIS", "vd/u"):
            if e in lay:
                with open(os.path.join(w, e), "w") as f:
                    f.write("unversioned %s\n" % e)
        if "ud" in lay:
            os.mkdir(os.path.join(w, "ud"))
            with open(os.path.join(w, "ud", "f"), "w") as f:
                f.write("unknown\n")
        if "nested" in lay:
            shutil.copytree(self.template(nk), os.path.join(w, "ud", "nested"))
        if "nb" in lay:
            shutil.copytree(self.template(nk), os.path.join(w, "nb"))
        if "link" in lay:
            os.symlink(os.path.join("..", "outside"), os.path.join(w, "link"))
        return w

    def real(self, w, c, p):
        if p.startswith("outside"):
            return os.path.join(self.top, p)
        if p == "ign":
            return os.path.join(w, IGN[c["fl"]])
        if p == "ctl":
            return os.path.join(w, CTL[c["fl"]])
        if p.endswith("/ctl"):
            return os.path.join(w, p[:-4], CTL[c["nk"]])
        return os.path.join(w, p)

    def observe(self, w, c, paths):
        """{observed path: state}; state None = absent; for control directories the sorted list of files below."""
        obs = {}
        for p in paths:
            r = self.real(w, c, p)
            if not os.path.lexists(r):
                obs[p] = None
            elif p.endswith("ctl") and p != "ctl":
                obs[p] = _ctl_state(r)
            else:
                obs[p] = "present"
        return obs


def _ctl_state(d):
    out = []
    for dp, dn, fn in os.walk(d):
        for n in dn + fn:
            out.append(os.path.relpath(os.path.join(dp, n), d))
    return tuple(sorted(out))


def _replay(sub, cases):
    from breezy import clean_tree
    fx = Fixture(sub.workdir)
    rows = sub.cov.setdefault("_collect", [])
    for k in cases:
        c = k["c"]
        w = fx.build(c)
        paths = present(c["lay"])
        before = fx.observe(w, c, paths)
        missing = [p for p in paths if before[p] is None]
        if missing:
            sub.machinery("fixture for %s lacks %s" % (c, missing))
        err = ""
        try:
            clean_tree.clean_tree(w, unknown=c["unknown"], ignored=c["ignored"], detritus=c["detritus"],
                                  dry_run=c["dry"], no_prompt=True)
        except Exception as e:      # the property does not speak about errors; the file-system effect is judged anyway
            err = "%s: %s" % (type(e).__name__, e)
        after = fx.observe(w, c, paths)
        gone = sorted(p for p in paths if after[p] != before[p])
        rows.append({"c": c, "spec": sorted(k["spec"]), "impl": {"gone": gone}, "err": err})
        sub.count(1)
        if not c["dry"] and (c["unknown"] or c["ignored"] or c["detritus"]) and set(k["spec"]) != set():
            sub.nontrivial((tuple(sorted(c["lay"])), c["fl"], c["nk"], c["unknown"], c["ignored"], c["detritus"]))
    shutil.rmtree(fx.top, ignore_errors=True)


def classify(c, offending):
    """(how, classes): the code-level deletion site and the input classes of the paths that must not have gone."""
    how = "rmtree-dir" if set(offending) & DIRS else "unlink-file"
    lay = set(c["lay"])
    cls = set()
    for p in offending:
        if c["dry"]:
            cls.add("dry-run")
        elif p in GROUP["nested"] or (p == "ud" and "nested" in lay):
            cls.add("branch-nested-below-top" if how == "rmtree-dir" else "files-of-nested-%s-branch" % c["nk"])
        elif p in GROUP["nb"]:
            cls.add("branch-at-top" if how == "rmtree-dir" else "files-of-nested-%s-branch" % c["nk"])
        elif p in ("ign", "v", "vd", "vd/v2"):
            cls.add("versioned-path")
        elif p.startswith("outside"):
            cls.add("outside-the-tree")
        elif p == "ctl":
            cls.add("own-control-dir")
        else:
            cls.add("category-not-requested")
    return how, "+".join(sorted(cls))


def run(ctx):
    env.init()
    consts = {"Always": '{"v", "i.o"}' if ctx.quick else "{}"}
    cases, seen = table_common.generate(ctx, "CleanTreeGen", consts, witnesses=WITNESSES, workers=8, timeout=1500)
    total = len(cases)
    if ctx.quick:
        cases.sort(key=lambda k: (sorted(k["c"]["lay"]), k["c"]["fl"], k["c"]["nk"], k["c"]["unknown"], k["c"]["ignored"],
                                  k["c"]["detritus"], k["c"]["dry"]))
        cases = ctx.rng.sample(cases, min(len(cases), 4000))
    core.fork_map(ctx, _replay, cases)
    rows = ctx.collected
    if len(rows) != len(cases):
        ctx.machinery("replayed %d of %d cases" % (len(rows), len(cases)))
    for r in rows:
        if r["err"]:
            ctx.drift("clean_tree raised %s on %s" % (r["err"], r["c"]), r)
    risky = [r for r in rows if "nested" in r["c"]["lay"] and r["c"]["unknown"] and not r["c"]["dry"]]
    if not risky:
        ctx.machinery("no replayed case puts a nested branch at risk")
    ctx.sample(risky[0])
    ctx.sample(next(r for r in rows if r["impl"]["gone"] and r["c"]["fl"] == "git"))
    ctx.sample(next(r for r in rows if r["c"]["dry"] and r["c"]["unknown"]))
    for row, verdict in _judge(ctx, rows):
        c = row["c"]
        failed, off = sorted(verdict.get("failed", [])), sorted(verdict.get("offending", []))
        if failed:
            how, cls = classify(c, off or row["impl"]["gone"])
            ctx.violation("%s:%s-tree/%s:%s" % ("+".join(failed), c["fl"], how, cls),
                          "clean_tree(unknown=%s, ignored=%s, detritus=%s, dry_run=%s) on a %s tree with layout %s "
                          "(nested branches in %s format) removed %s; laws failed: %s; paths that must not go: %s" % (
                              c["unknown"], c["ignored"], c["detritus"], c["dry"], c["fl"], sorted(c["lay"]), c["nk"],
                              row["impl"]["gone"], failed, off), row)
        elif verdict.get("drift"):
            ctx.drift("clean_tree on %s removed %s, the specification expects %s" % (c, row["impl"]["gone"], row["spec"]),
                      row)
    ctx.rule("layouts = subsets of {v, u, i.o, x~, x.THIS, ud, nested (ud/nested/<branch>), nb (nb/<branch>), vd, vd/u, "
             "link} closed under containment%s; x tree flavour {bzr 2a, git} x nested-branch format {bzr, git} (when a "
             "nested branch is present) x unknown x ignored x detritus x dry_run; %d cases enumerated by TLC, %s replayed. "
             "Non-trivial = not a dry run, some category requested and the specification expects a deletion" % (
                 " with v and i.o always present" if ctx.quick else "", total,
                 "a seeded sample of %d" % len(cases) if ctx.quick else "all"))
    ctx.cov["exhaustive"] = not ctx.quick
    ctx.cov["cases_enumerated"] = total
    ctx.assume("one representative path per category: clean_tree decides by name suffix, ignore rules and "
               "versionedness only")


def _judge(ctx, rows, chunk=20000):
    """rows -> CleanTreeTrace -> [(row, verdict record {failed, offending, drift})] for the rows TLC flags."""
    import json
    bad = []
    for off in range(0, len(rows), chunk):
        part = rows[off:off + chunk]
        fin = os.path.join(ctx.workdir, "rows_%d.json" % off)
        with open(fin, "w") as f:
            json.dump(part, f)
        data, _ = tlc.json_cases(ctx, "CleanTreeTrace", cfg_text=table.cfg(), env={"VF_IN": fin}, label="CleanTreeTrace",
                                 workers=4)
        os.unlink(fin)
        if data["n"] != len(part):
            ctx.machinery("trace module consumed %s of %d rows" % (data["n"], len(part)))
        bad.extend((part[b["row"] - 1], b) for b in data["bad"])
        ctx.count(0, traces=len(part))
    return bad
