"""C08 — stacked branches stay readable from their own repository plus fallbacks."""
import shutil
import tempfile

from vf import env, tlc, table, core, world
from vf.tlaval import to_py
from harness import fetch_common as fc

META = dict(
    property_id="C08", level="model_checking", design_ref="DESIGN.md §4 C08",
    technique="TLA+ model of a stacked repository (local content per kind over a history with per-file versions, a "
              "fallback holding an ancestry-closed split of it) with actions branch-stacked / commit (plain and merge) / "
              "fetch / push / pull, model-checked by TLC for StackedComplete and readability; TLC-simulated behaviours "
              "replayed on real stacked 2a branches (local and bzr://), the repository projected after every step "
              "(without_fallbacks key sets, every tree read and diffed through stacked+fallback, check()) and judged by "
              "TLC with the C08 laws",
    level_text="TLC exhausts every graph up to 3 revisions (with a ghost) x every split point x every stacking revision x "
               "all action sequences up to 2 (thorough: graphs up to 4, sequences up to 3), proving that every locally "
               "held revision has its parents' inventories and its own new texts locally and that everything visible "
               "stays readable. Simulated behaviours over graphs up to 4 (5) revisions with up to 3 actions are executed "
               "on real stacked branches and every step's projection is judged by the same TLA+ laws; exact equality of "
               "the local key sets with the model is checked as conformance.",
    level_note="One level of stacking; 2a format, plus a second set of commit-free behaviours on a stacked 1.9-rich-root "
               "branch fed from a pack-0.92 repository on local disk (InterDifferingSerializer; pre-2a formats refuse "
               "commits to stacked branches). Merges are "
               "set_parent_ids + commit. A branch tip needs a revno, so stacking / push / pull use revisions whose "
               "left-hand history does not end in a ghost. Trusted: bzrformats pack / index / groupcompress code as "
               "executed, TLC, the JSON bridge.",
)

# stacked pre-2a format -> format of the development repository that feeds it (a different serialiser)
PRE2A = {"1.9-rich-root": "pack-0.92"}
INV = ("InvStackedComplete", "InvReadable", "InvNoDuplicates", "InvVisibleClosed", "LawsHoldOnSpec")
WITNESSES = ("WitnessParentInvFromFallback", "WitnessMergeCommit", "WitnessCarriedFallbackText", "WitnessPushThenCommit")


def cfg(maxrev, nghosts, allpats, maxacts, maxcommits, inv=INV):
    return ("SPECIFICATION Spec\nCONSTANTS\n  MaxRev = %d\n  NGhosts = %d\n  MaxPar = 2\n  Pats = {1, 2, 3, 4}\n"
            "  AllPatsUpTo = %d\n  MaxActs = %d\n  MaxCommits = %d\n" % (maxrev, nghosts, allpats, maxacts, maxcommits)
            + "".join("INVARIANT %s\n" % i for i in inv))


def lists(x):
    """tlaval python value -> plain JSON-like (tuples -> lists, frozensets -> sorted lists)."""
    if isinstance(x, dict):
        return {k: lists(v) for k, v in x.items()}
    if isinstance(x, (set, frozenset)):
        return sorted((lists(v) for v in x), key=repr)
    if isinstance(x, (list, tuple)):
        return [lists(v) for v in x]
    return x


class Fixture:
    """dev (everything), base (the split), st (the stacked branch) on one MemoryServer."""

    def __init__(self, st, fmt, remote, create, workdir=None):
        from breezy import controldir, transport as T, branch as B, urlutils
        from dromedary import memory
        self.fmt, self.remote, self.create = fmt, remote, create
        self.srv = self.dir = None
        devfmt = fmt
        if fmt in PRE2A:
            # a stacked pre-2a branch fed by LOCAL CROSS-FORMAT fetch / push / pull: the development repository is in
            # another serialiser's format and everything is on disk, so that InterDifferingSerializer does the copying
            devfmt = PRE2A[fmt]
            self.dir = tempfile.mkdtemp(prefix="c08-", dir=workdir)
            self.url = urlutils.local_path_to_url(self.dir) + "/"
        else:
            self.srv = memory.MemoryServer()
            self.srv.start_server()
            self.url = self.srv.get_url()
        self.root = T.get_transport(self.url)
        self.n0 = st["n0"]
        P, Tr = lists(st["h"]["P"]), lists(st["h"]["T"])
        t = self.root.clone("dev")
        t.ensure_base()
        fc.build_history(P[:self.n0], Tr[:self.n0], devfmt, transport=t, signed=[k for k in range(1, self.n0 + 1) if k % 2])
        self.dev = B.Branch.open(self.url + "dev")
        got = fc.read_graph(self.dev.repository, self.n0)
        if got != P[:self.n0]:
            raise core.MachineryError("built graph %s differs from the abstract graph %s" % (got, P[:self.n0]))
        f = controldir.format_registry.make_controldir(fmt)
        base = controldir.ControlDir.create_branch_convenience(self.url + "base", format=f, force_new_tree=False)
        for head in fc.heads_of(P, sorted(st["base"]["revs"])):
            base.repository.fetch(self.dev.repository, revision_id=fc.rid(head))
        self.rt = world.inproc_remote_transport(self.root)[0] if remote else None

    def close(self):
        if self.srv is not None:
            self.srv.stop_server()
        if self.dir is not None:
            shutil.rmtree(self.dir, ignore_errors=True)

    def stacked(self, local=False):
        """A fresh object for the stacked branch, through bzr:// in remote mode."""
        from breezy import branch as B
        if self.remote and not local:
            return B.Branch.open_from_transport(self.rt.clone("st"))
        return B.Branch.open(self.url + "st")

    def branch_stacked_at(self, k):
        from breezy import controldir, branch as B
        base = B.Branch.open(self.url + "base")
        if self.create == "sprout":
            base.controldir.sprout(self.url + "st", revision_id=fc.rid(k), stacked=True)
            if self.remote:
                # what `branch --stacked` records for a sibling on the same server: a relative location, so that a
                # bzr:// client resolves the fallback through its own connection
                B.Branch.open(self.url + "st").set_stacked_on_url("../base")
        else:
            f = controldir.format_registry.make_controldir(self.fmt)
            st = controldir.ControlDir.create_branch_convenience(self.url + "st", format=f, force_new_tree=False)
            st.set_stacked_on_url("../base")
            self.stacked().pull(base, stop_revision=fc.rid(k))

    def commit(self, c, tip, m, tree_before):
        br = self.stacked()
        t = br.create_memorytree()
        with t.lock_write():
            if m:
                t.set_parent_ids([fc.rid(tip), fc.rid(m)])
            ent = tree_before.get("a")
            path = fc.path_of("a", ent) if ent else "a"
            if not ent:
                t.add([path], ["file"], ids=[b"id-a"])
            t.put_file_bytes_non_atomic(path, fc.content_of("a", {"content": c}))
            t.commit("revision %d" % c, rev_id=fc.rid(c), timestamp=1000000000 + c, timezone=0, committer="C <c@e.com>")

    def copy(self, how, r):
        br = self.stacked()
        if how == "fetch":
            br.repository.fetch(self.dev.repository, revision_id=fc.rid(r))
        elif how == "push":
            self.dev.push(br, overwrite=True, stop_revision=fc.rid(r))
        else:
            br.pull(self.dev, overwrite=True, stop_revision=fc.rid(r))

    def observe(self, n):
        """Projection of the stacked repository, read by fresh objects."""
        from breezy import revision as _mod_revision
        br = self.stacked(local=True)
        repo = br.repository
        o = {"outcome": "ok"}
        with repo.lock_read():
            o["lrevs"] = sorted(fc.num(k[0]) for k in repo.revisions.without_fallbacks().keys())
            o["linvs"] = sorted(fc.num(k[0]) for k in repo.inventories.without_fallbacks().keys())
            o["lsigs"] = sorted(fc.num(k[0]) for k in repo.signatures.without_fallbacks().keys())
            o["ltexts"], o["lroot"], _ = fc.text_keys(repo.texts.without_fallbacks())
            vis = sorted(fc.num(k[0]) for k in repo.revisions.keys())
            o["vis"] = vis
            pm = repo.get_parent_map([fc.rid(k) for k in vis])
            fv, read, diff = [], [], []
            for k in range(1, n + 1):
                if k not in vis:
                    fv.append({})
                    read.append("")
                    diff.append("")
                    continue
                versions = {}
                try:
                    tree = repo.revision_tree(fc.rid(k))
                    for path, ie in tree.iter_entries_by_dir():
                        versions[fc.fname(ie.file_id)] = fc.num(ie.revision)
                        if ie.kind == "file":
                            tree.get_file_text(path)
                    read.append("ok")
                except Exception as e:
                    read.append("error:%s" % type(e).__name__)
                fv.append(versions)
                try:
                    tree = repo.revision_tree(fc.rid(k))
                    parents = [p for p in pm.get(fc.rid(k), ()) if fc.num(p) in vis] or [_mod_revision.NULL_REVISION]
                    for p in parents:
                        for ch in tree.iter_changes(repo.revision_tree(p)):
                            if ch.kind[1] == "file" and ch.changed_content:
                                tree.get_file_text(ch.path[1])
                    diff.append("ok")
                except Exception as e:
                    diff.append("error:%s" % type(e).__name__)
            o["fv"], o["read"], o["diff"] = fv, read, diff
            o["checkp"] = fc.check_problems(repo)
            o["check"] = "; ".join(o["checkp"][:4]) or "ok"
        o["tip"] = fc.num(br.last_revision())
        try:
            # the tip as the user of this branch sees it (through bzr:// in remote mode)
            t = self.stacked().basis_tree()
            with t.lock_read():
                for path, ie in t.iter_entries_by_dir():
                    if ie.kind == "file":
                        t.get_file_text(path)
            o["tipread"] = "ok"
        except Exception as e:
            o["tipread"] = "error:%s" % type(e).__name__
        return o


def execute(sub, fx, steps, meta0):
    """Run the steps on the fixture, projecting after each; steps: dicts a, r, m, P, T, tip (before), spec (or None)."""
    rows = sub.cov.setdefault("_collect", [])
    calls = []
    for st in steps:
        a, r, m, P = st["a"], st["r"], st["m"], st["P"]
        calls.append([a, r, m])
        outcome = "ok"
        try:
            if a == "branch":
                fx.branch_stacked_at(r)
            elif a == "commit":
                fx.commit(r, st["tip"], m, st["T"][st["tip"] - 1] or {})
            else:
                fx.copy(a, r)
        except Exception as e:
            outcome = "error:%s" % type(e).__name__
            detail = str(e)[:200]
        if outcome == "ok":
            try:
                o = fx.observe(len(P))
            except Exception as e:      # the stacked repository cannot even be listed after the step
                o = {"outcome": "error:unreadable:%s" % type(e).__name__, "detail": str(e)[:200]}
                outcome = o["outcome"]
        else:
            o = {"outcome": outcome, "detail": detail}
        if a == "commit" and outcome == "ok":
            got = fc.read_graph(fx.stacked(local=True).repository, len(P))[-1]
            if got != P[-1]:
                sub.drift("commit recorded parents %s, the behaviour says %s" % (got, P[-1]), {"calls": calls})
        spec = st["spec"] or {"revs": o.get("lrevs", []), "invs": o.get("linvs", []), "texts": o.get("ltexts", []),
                              "sigs": o.get("lsigs", []), "tip": o.get("tip", 0)}
        rows.append({"c": {"P": P}, "impl": o, "spec": spec, "meta": dict(meta0, calls=list(calls), trees=st["T"])})
        sub.count(1)
        if outcome != "ok":
            break
    return calls


def replay_jobs(sub, chunk):
    from breezy import ui
    ui.ui_factory.suppressed_warnings.add("cross_format_fetch")
    for bi, fmt, remote, create, beh in chunk:
        split = beh[1][1]
        fx = Fixture(split, fmt, remote, create, sub.workdir)
        try:
            steps, prev = [], split
            for act, st in beh[2:]:
                loc = lists(st["loc"])
                steps.append({"a": st["step"]["a"], "r": st["step"]["r"], "m": st["step"]["m"], "P": lists(st["h"]["P"]),
                              "T": lists(st["h"]["T"]), "tip": prev["tip"],
                              "spec": {"revs": loc["revs"], "invs": loc["invs"], "texts": loc["texts"], "sigs": loc["sigs"],
                                       "tip": st["tip"]}})
                prev = st
            base = sorted(split["base"]["revs"])
            calls = execute(sub, fx, steps, {"behaviour": bi, "format": fmt, "remote": remote, "create": create,
                                             "n0": split["n0"], "base": base})
            sub.nontrivial((fmt, remote, create, str(lists(split["h"]["P"])), str(base), str(calls)))
        finally:
            fx.close()


def replay(ctx, rep):
    """./check C08 --replay FILE: run the recorded steps again on the current tree and judge every step."""
    env.init()
    row = rep["replay"]
    m, P, T = row["meta"], row["c"]["P"], row["meta"]["trees"]
    n0 = m["n0"]
    fx = Fixture({"n0": n0, "h": {"P": P, "T": T}, "base": {"revs": m["base"]}}, m["format"], m["remote"], m["create"], ctx.workdir)
    try:
        steps, tip, n = [], 0, n0
        for a, r, mm in m["calls"]:
            if a == "commit":
                n += 1
            steps.append({"a": a, "r": r, "m": mm, "P": P[:n], "T": T[:n], "tip": tip, "spec": None})
            tip = tip if a == "fetch" else r
        execute(ctx, fx, steps, {k: m[k] for k in ("behaviour", "format", "remote", "create", "n0", "base")})
    finally:
        fx.close()
    rows = ctx.cov.pop("_collect")
    for r in rows:
        print("after %s:" % r["meta"]["calls"][-1], {k: r["impl"].get(k) for k in ("outcome", "lrevs", "linvs", "ltexts", "read", "diff", "check", "tipread")})
    judge(ctx, rows, selftest=False)


def run(ctx):
    env.init()
    import breezy.branchbuilder  # noqa: F401  (imported before forking)
    import breezy.bzr.remote  # noqa: F401
    # ---- E1: the model
    if ctx.quick:
        tlc.check(ctx, "StackingMC", cfg_text=cfg(3, 1, 2, 2, 1), label="MC graphs<=3 + ghost, 2 actions", timeout=1500)
    else:
        tlc.check(ctx, "StackingMC", cfg_text=cfg(3, 1, 3, 3, 2), label="MC graphs<=3 + ghost, 3 actions", timeout=3000)
        tlc.check(ctx, "StackingMC", cfg_text=cfg(4, 0, 2, 3, 1), label="MC graphs<=4, 3 actions", timeout=3000)
    for w in WITNESSES:      # anti-vacuity: states TLC must reach
        tlc.check(ctx, "StackingMC", cfg_text=cfg(3, 0, 3, 2, 1, inv=(w,)), expect_violation=w, label="witness " + w, workers=4)
    # ---- E2: simulated behaviours replayed on real stacked branches
    maxrev, num = (4, 80) if ctx.quick else (5, 1200)
    behs, _ = tlc.simulate(ctx, "StackingMC", cfg_text=cfg(maxrev, 1, 0, 3, 2), num=num, depth=6, seed=ctx.seed,
                           label="simulate %d behaviours" % num, timeout=3000)
    behs = [[(a, to_py(s)) for a, s in b] for b in behs]
    behs = [b for b in behs if len(b) >= 3]
    if len(behs) < num // 2:
        ctx.machinery("TLC produced only %d usable behaviours of %d" % (len(behs), num))
    # a second, commit-free set of behaviours for a stacked PRE-2a branch (pre-2a formats refuse commits to stacked branches):
    # 1.9-rich-root stacked on 1.9-rich-root, fed by local cross-format fetch / push / pull from a pack-0.92 repository on
    # disk (InterDifferingSerializer); judged by the same laws
    npre = 24 if ctx.quick else 400
    pre, _ = tlc.simulate(ctx, "StackingMC", cfg_text=cfg(maxrev, 1, 0, 3, 0), num=npre, depth=6, seed=ctx.seed + 1,
                          label="simulate %d commit-free behaviours" % npre, timeout=3000)
    pre = [[(a, to_py(s)) for a, s in b] for b in pre]
    pre = [b for b in pre if len(b) >= 3]
    if len(pre) < npre // 2:
        ctx.machinery("TLC produced only %d usable commit-free behaviours of %d" % (len(pre), npre))
    jobs = []
    for bi, (b, fmt) in enumerate([(b, "2a") for b in behs] + [(b, "1.9-rich-root") for b in pre]):
        # creation by set_stacked_on_url + pull moves a branch tip, which needs a revno (see MainlineOk in the spec)
        ghostly = fc.mainline_has_ghost(lists(b[1][1]["h"]["P"]), b[2][1]["step"]["r"])
        jobs.append((bi, fmt, fmt == "2a" and bi % 2 == 1, "sprout" if bi % 4 < 2 or ghostly else "set-url", b))
    ctx.cov["pre2a_behaviours"] = len(pre)
    core.fork_map(ctx, replay_jobs, jobs)
    rows = ctx.collected
    if not rows:
        ctx.machinery("no step was recorded")
    ctx.rule("behaviours = TLC -simulate of StackingMC: random graph <= %d revisions (<= 2 ordered parents, a ghost allowed), "
             "edit pattern by graph shape, random non-empty closed split, stacking revision, then up to 3 of commit / merge "
             "commit / fetch / push / pull; alternately local and bzr://, created by sprout(stacked=True) or "
             "set_stacked_on_url; plus %d commit-free behaviours on a stacked 1.9-rich-root branch fed cross-format from "
             "pack-0.92 on disk; one row per step; distinct = (format, transport, creation, graph, split, calls)" % (maxrev, npre))
    ctx.cov["behaviours"] = len(behs) + len(pre)
    judge(ctx, rows)


def judge(ctx, rows, selftest=True):
    """E3: TLC judges every recorded step with the laws of Stacking.tla."""
    slim = [{"c": r["c"], "impl": {k: v for k, v in r["impl"].items() if k not in ("detail", "checkp")}, "spec": r["spec"]} for r in rows]
    by_id = {id(s): r for s, r in zip(slim, rows)}
    long = [r for r in rows if len(r["meta"]["calls"]) >= 4] or rows
    ctx.sample({"c": long[0]["c"], "meta": long[0]["meta"], "local": {k: long[0]["impl"].get(k) for k in ("lrevs", "linvs", "ltexts")}})
    new_problems, before = {}, {}
    for r in sorted(rows, key=lambda r: (r["meta"]["behaviour"], len(r["meta"]["calls"]))):
        have = set(r["impl"].get("checkp", ()))
        new_problems[id(r)] = sorted(have - before.get(r["meta"]["behaviour"], set()))
        before[r["meta"]["behaviour"]] = have
    probes, skipped = [], None
    if selftest:
        try:
            probes = selftest_rows(slim)
        except core.MachineryError as e:
            skipped = str(e)
    expected = {id(p): law for p, law in probes}
    caught = {id(p) for p, law in probes if law is None}      # the control row is caught by NOT being reported
    for srow, failed, drift in table.judge(ctx, "StackingTrace", slim + [p for p, _ in probes], chunk=4000, workers=4, timeout=3000):
        if id(srow) in expected:
            if expected[id(srow)] is None:
                caught.discard(id(srow))
            elif expected[id(srow)] in failed:
                caught.add(id(srow))
            continue
        row = by_id[id(srow)]
        m, o = row["meta"], row["impl"]
        last = m["calls"][-1]
        where = "%s%s:%s:%s" % (last[0], "-merge" if last[2] else "", "bzr" if m["remote"] else "local", m["format"])
        for law in failed:
            sig = "law:%s:%s" % (law, where)
            if law == "completes":
                # the failing call by exception class; on a pre-2a branch fetch / push / pull are the same copy
                act = "copy" if m["format"] != "2a" and last[0] in ("fetch", "push", "pull") else last[0] + ("-merge" if last[2] else "")
                sig = "law:completes:%s:%s:%s:%s" % (o["outcome"].split(":")[-1], act, "bzr" if m["remote"] else "local", m["format"])
            if law == "check":
                # a problem stays in the repository: it is reported at the step that introduced it, by kind of problem
                new = new_problems[id(row)]
                if not new:
                    continue
                # the commit builder differs by access path: PackCommitBuilder locally, the generic builder over bzr://
                sig = "law:check:%s:%s%s:%s" % ("+".join(sorted({p.split(":")[0] for p in new})), last[0],
                                                "-merge" if last[2] else "", "bzr" if m["remote"] else "local")
                files = {f for f in ("a", "b", "l", "root") for p in new if ("id-%s'" % f) in p or (f == "root" and "root-id" in p)}
                if files and all(added_twice(row["c"]["P"], m["trees"], f) for f in files):
                    sig += ":file-id-added-twice"      # per-file graph and revision graph differ only for such files
            ctx.violation(sig,
                          "law %s fails after %s on a %s branch stacked on a base holding %s (graph %s): %s" % (
                              law, m["calls"], m["format"], m["base"], row["c"]["P"],
                              o.get("detail") or {k: o.get(k) for k in ("lrevs", "linvs", "ltexts", "read", "diff", "check", "tipread")}),
                          row)
        if drift and not failed:
            ctx.drift("local content / tip after %s is not the specified one (%s)" % (last, "bzr" if m["remote"] else "local"),
                      {"meta": m, "c": row["c"], "spec": row["spec"],
                       "got": {k: o.get(k) for k in ("lrevs", "linvs", "ltexts", "lsigs", "tip")}})
    if len(caught) != len(probes):
        ctx.machinery("binding self-test: TLC misjudged %d of %d probe observations" % (len(probes) - len(caught), len(probes)))
    if skipped and not ctx.violations:
        ctx.machinery(skipped)
    ctx.cov["selftest_probe_rows_judged_as_expected"] = len(caught)
    ctx.cov["traces_validated_against_impl"] -= len(probes)


def added_twice(P, T, f):
    """Does file id f enter the history more than once (removed and added again, or added by several revisions that start
    from nothing)?  The root directory ("root") is added by every revision without a present left-hand parent."""
    n, entries = len(P), 0
    for k in range(1, len(T) + 1):
        present = [p for p in P[k - 1] if p <= n]
        if f == "root":
            entries += not (P[k - 1] and P[k - 1][0] <= n)
        elif f in (T[k - 1] or {}) and not any(f in (T[p - 1] or {}) for p in present):
            entries += 1
    return entries > 1


def selftest_rows(slim):
    """Binding self-test rows: one recorded step whose SPECIFIED local content has a parent inventory from the fallback, with
    the key sets taken from the specification (must be accepted: law None), and corrupted copies (rejecting law)."""
    import copy
    base = next((r for r in slim if r["impl"]["outcome"] == "ok" and r["spec"]["revs"]
                 and set(r["spec"]["invs"]) - set(r["spec"]["revs"])
                 and any(k[1] == r["spec"]["revs"][-1] for k in r["spec"]["texts"])), None)
    if base is None:
        raise core.MachineryError("binding self-test: no step whose specified content has a parent inventory from the fallback")
    sp = base["spec"]
    good = copy.deepcopy(base)
    vis = set(good["impl"]["vis"])
    good["impl"].update(lrevs=list(sp["revs"]), linvs=list(sp["invs"]), ltexts=[list(k) for k in sp["texts"]], lsigs=list(sp["sigs"]),
                        tip=sp["tip"], check="ok", tipread="ok",
                        read=["ok" if k + 1 in vis else "" for k in range(len(good["impl"]["read"]))],
                        diff=["ok" if k + 1 in vis else "" for k in range(len(good["impl"]["diff"]))])
    out = [(good, None)]

    def probe(law, fn):
        r = copy.deepcopy(good)
        fn(r["impl"])
        out.append((r, law))
    extra = sorted(set(sp["invs"]) - set(sp["revs"]))[0]
    rev = sp["revs"][-1]
    probe("parent-inventories", lambda o: o["linvs"].remove(extra))
    probe("texts", lambda o: (o.__setitem__("ltexts", [k for k in o["ltexts"] if k[1] != rev]),
                              o.__setitem__("lroot", [k for k in o["lroot"] if k[1] != rev])))
    probe("readable", lambda o: o["read"].__setitem__(rev - 1, "error:NoSuchRevision"))
    probe("diffable", lambda o: o["diff"].__setitem__(rev - 1, "error:RevisionNotPresent"))
    probe("check", lambda o: o.__setitem__("check", "missing_parent_links: x"))
    probe("tip", lambda o: o.__setitem__("tipread", "error:NoSuchRevision"))
    probe("completes", lambda o: o.__setitem__("outcome", "error:BzrCheckError"))
    return out
