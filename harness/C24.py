"""C24 — tag transfer never loses or silently rewrites tags; tag dictionaries are stored and read back unchanged."""
import os
import shutil

from vf import core, env, table

META = dict(
    property_id="C24", level="model_checking", design_ref="DESIGN.md §4 C24",
    technique="TLA+ Tags!Reconcile/MergeTo model-checked by TLC over all (src, dst, master) tag dictionaries x overwrite x "
              "ignore_master x selector; the TLC case table is replayed on real BasicTags (bzr branches, bound "
              "destination), MemoryTags and git refs, every dictionary read back from re-opened branches; TLC judges the "
              "recorded outcomes with the C24 laws",
    level_text="Exhaustive over 3 names x {absent, r1, r2} per dictionary (2 names when a master is present; thorough adds "
               "3 names with selector=None), both overwrite settings, all selectors: TLC proves the laws on the "
               "specification, every case runs on the real stores, and TLC evaluates the same laws on what the real "
               "stores returned. The reconciliation treats names independently and only compares values, so the small "
               "domain is representative.",
    level_note="Abstract names/values are concretised to hostile unicode names and revision ids (rotating schemes). "
               "bzr branches live on a memory transport (the tags file goes through the real branch control files and "
               "bencode). Git destinations only get values that are commits present in the destination repository "
               "(LocalGitTagDict cannot store ghost tags). RemoteBranch tags are not exercised. Trusted: TLC, the JSON "
               "bridge, the projection of concrete dictionaries back to abstract names.",
)

ABSENT = "-"

# concretisations of the abstract names a, b, c (distinct within a scheme)
NAME_SCHEMES = [
    {"a": "a", "b": "b", "c": "c"},
    {"a": "\u00e9", "b": "e\u0301", "c": "\u00c9"},                  # NFC / NFD / upper case of the same letter
    {"a": "\u65e5\u672c\u8a9e", "b": "tag with space", "c": " lead and trail "},
    {"a": "x\ny", "b": "x\ty", "c": "x\\y"},
    {"a": "\U0001F600", "b": "\u202eabc", "c": "a\x00b"},            # astral, right-to-left override, NUL
    {"a": "", "b": "/", "c": "../x"},
    {"a": "0", "b": "00", "c": "-"},
    {"a": "d3:key", "b": "e", "c": "i1e"},                           # bencode look-alikes
    {"a": "a" * 300, "b": "\ufeffbom", "c": "\u0430"},               # long, BOM, cyrillic a
]
REV_SCHEMES = [
    {"r1": b"rev-1", "r2": b"rev-2"},
    {"r1": "r\u00e9v-\u65e5".encode(), "r2": "r\u00e9v-\u6708".encode()},
    {"r1": b"joe@example.com-20200101000000-abcdefghijklmnop", "r2": b"x y\tz"},
    {"r1": b"", "r2": b" "},
    {"r1": b"a\nb", "r2": b"a\x00b"},
    {"r1": b"e", "r2": b"1:a"},
]
GIT_NAME_SCHEMES = [
    {"a": "a", "b": "b", "c": "c"},
    {"a": "\u00e9", "b": "v1.0-rc_1", "c": "\u65e5\u672c"},
]


# ----------------------------------------------------------------------------- projection
class Proj:
    """abstract <-> concrete for one row."""

    def __init__(self, names, revs):
        self.names, self.revs = names, revs
        self.inv_names = {v: k for k, v in names.items()}
        self.inv_revs = {v: k for k, v in revs.items()}
        self.extra = 0

    def conc(self, d):
        return {self.names[n]: self.revs[v] for n, v in d.items() if v != ABSENT}

    def abs(self, d, over):
        """concrete dictionary -> total abstract dictionary over the abstract names `over`."""
        out = {n: ABSENT for n in over}
        for k, v in d.items():
            n = self.inv_names.get(k)
            if n is None or n not in out:
                self.extra += 1
                continue
            out[n] = self.inv_revs.get(v, "?")
        return out

    def conflicts(self, cs):
        return sorted([self.inv_names.get(n, "?"), self.inv_revs.get(s, "?"), self.inv_revs.get(t, "?")]
                      for n, s, t in cs)

    def selector(self, c):
        if c["selAll"]:
            return None
        chosen = {self.names[n] for n in c["sel"]}
        return lambda name: name in chosen


# ----------------------------------------------------------------------------- fixtures
class BzrFix:
    """S, D (unbound), D1 bound to M: bzr branches on a memory transport."""

    def __init__(self):
        from breezy import controldir
        from dromedary import memory
        self.srv = memory.MemoryServer()
        self.srv.start_server()
        self.base = self.srv.get_url()
        fmt = controldir.format_registry.make_controldir("2a")
        self.br = {n: controldir.ControlDir.create_branch_convenience(self.base + n, format=fmt)
                   for n in ("S", "D", "D1", "M")}
        self.br["D1"].bind(self.br["M"])

    def url(self, n):
        return self.base + n

    def store(self, n, d):
        b = self.br[n]
        with b.lock_write():
            b.tags._set_tag_dict(dict(d))

    def open(self, n):
        from breezy.branch import Branch
        return Branch.open(self.base + n)

    def close(self):
        self.srv.stop_server()


class DiskBzrFix(BzrFix):
    """The same on a real directory (Store/Load table, thorough)."""

    def __init__(self, root):
        from breezy import controldir, urlutils
        self.root = root
        os.makedirs(root)
        self.base = urlutils.local_path_to_url(root) + "/"
        fmt = controldir.format_registry.make_controldir("2a")
        self.br = {n: controldir.ControlDir.create_branch_convenience(self.base + n, format=fmt,
                                                                      force_new_tree=False)
                   for n in ("S",)}

    def close(self):
        shutil.rmtree(self.root, ignore_errors=True)


class GitFix:
    """Two clones S, D of a git repository with two commits (r1, r2); tags are refs/tags/*."""

    def __init__(self, root):
        from breezy import controldir
        self.root = root
        os.makedirs(root)
        fmt = controldir.format_registry.make_controldir("git")
        wt = controldir.ControlDir.create_standalone_workingtree(os.path.join(root, "base"), format=fmt)
        r1 = wt.commit("one", allow_pointless=True)
        r2 = wt.commit("two", allow_pointless=True)
        self.revs = {"r1": r1, "r2": r2}
        self.sha = {r: wt.branch.lookup_bzr_revision_id(r)[0] for r in (r1, r2)}
        for n in ("S", "D"):
            wt.controldir.sprout(os.path.join(root, n))
        # annotated tags: one tag object per (name, commit), present in both clones (refs are set per case)
        from dulwich.objects import Commit, Tag
        from dulwich.repo import Repo
        self.tagobj = {}
        for n in ("S", "D"):
            r = Repo(os.path.join(root, n))
            try:
                for scheme in GIT_NAME_SCHEMES:
                    for name in scheme.values():
                        for revid, sha in self.sha.items():
                            t = Tag()
                            t.name = name.encode("utf-8")
                            t.object = (Commit, sha)
                            t.tagger = b"T <t@e.com>"
                            t.tag_time = 1
                            t.tag_timezone = 0
                            t.message = b"annotated\n"
                            r.object_store.add_object(t)
                            self.tagobj[(name, revid)] = t.id
            finally:
                r.close()

    def store(self, n, d, annotated=False):
        """Write refs/tags/* directly with dulwich (set-up only; the result is read back through breezy)."""
        from dulwich.repo import Repo
        from breezy.git.refs import tag_name_to_ref
        r = Repo(os.path.join(self.root, n))
        try:
            for ref in list(r.refs.allkeys()):
                if ref.startswith(b"refs/tags/"):
                    del r.refs[ref]
            for name, revid in d.items():
                r.refs[tag_name_to_ref(name)] = self.tagobj[(name, revid)] if annotated else self.sha[revid]
        finally:
            r.close()

    def open(self, n):
        from breezy.branch import Branch
        return Branch.open(os.path.join(self.root, n))

    def close(self):
        shutil.rmtree(self.root, ignore_errors=True)


# ----------------------------------------------------------------------------- one row on one store
def _run_merge(kind, c, idx, bz, gf):
    """Execute merge case c on store combination `kind`; returns the observation record."""
    over = sorted(c["src"])
    empty = {n: ABSENT for n in over}
    has_master = c["hasMaster"]
    if kind == "memory":
        from breezy.tag import MemoryTags
        p = Proj(NAME_SCHEMES[idx % len(NAME_SCHEMES)], REV_SCHEMES[idx % len(REV_SCHEMES)])
        s, d = MemoryTags(p.conc(c["src"])), MemoryTags(p.conc(c["dst"]))
        o = {"srcPre": p.abs(s.get_tag_dict(), over), "dstPre": p.abs(d.get_tag_dict(), over), "masterPre": empty}
        upd, conf = s.merge_to(d, overwrite=c["overwrite"], ignore_master=c["ignoreMaster"], selector=p.selector(c))
        o.update(src=p.abs(s.get_tag_dict(), over), dst=p.abs(d.get_tag_dict(), over), master=empty)
    else:
        src_kind, dst_kind = kind.split("-")
        annotated = src_kind == "gita"      # annotated tags (refs point to tag objects) on every git side
        src_kind = "git" if annotated else src_kind
        if "git" in kind:
            p = Proj(GIT_NAME_SCHEMES[idx % len(GIT_NAME_SCHEMES)], gf.revs)
        else:
            p = Proj(NAME_SCHEMES[idx % len(NAME_SCHEMES)], REV_SCHEMES[(idx // 2) % len(REV_SCHEMES)])
        sfix = gf if src_kind == "git" else bz
        dfix = gf if dst_kind == "git" else bz
        dname = "D1" if has_master else "D"
        if src_kind == "git":
            sfix.store("S", p.conc(c["src"]), annotated)
        else:
            sfix.store("S", p.conc(c["src"]))
        if dst_kind == "git":
            dfix.store(dname, p.conc(c["dst"]), annotated)
        else:
            dfix.store(dname, p.conc(c["dst"]))
        if has_master:
            bz.store("M", p.conc(c["master"]))
        s, d = sfix.open("S"), dfix.open(dname)
        o = {"srcPre": p.abs(s.tags.get_tag_dict(), over), "dstPre": p.abs(d.tags.get_tag_dict(), over),
             "masterPre": p.abs(bz.open("M").tags.get_tag_dict(), over) if has_master else empty}
        upd, conf = s.tags.merge_to(d.tags, overwrite=c["overwrite"], ignore_master=c["ignoreMaster"],
                                    selector=p.selector(c))
        o.update(src=p.abs(sfix.open("S").tags.get_tag_dict(), over),
                 dst=p.abs(dfix.open(dname).tags.get_tag_dict(), over),
                 master=p.abs(bz.open("M").tags.get_tag_dict(), over) if has_master else empty)
    o["updates"] = p.abs(upd, over)
    o["conflicts"] = p.conflicts(conf)
    o["extra"] = p.extra
    return o


def _run_store(kind, c, idx, bz, gf, disk):
    """Store dictionary c.d with hostile names / revision ids, read it back from a re-opened branch."""
    over = sorted(c["d"])
    if kind == "git":
        p = Proj(GIT_NAME_SCHEMES[idx % len(GIT_NAME_SCHEMES)], gf.revs)
        b = gf.open("D")
        with b.lock_write():
            b.tags._set_tag_dict(p.conc(c["d"]))
        back = gf.open("D").tags.get_tag_dict()
    else:
        p = Proj(NAME_SCHEMES[idx % len(NAME_SCHEMES)], REV_SCHEMES[(idx // len(NAME_SCHEMES)) % len(REV_SCHEMES)])
        fix = disk if kind == "bzr-disk" else bz
        if kind == "bzr-settag":          # public API: one set_tag per entry on an emptied dictionary
            fix.store("S", {})
            b = fix.open("S")
            for k, v in p.conc(c["d"]).items():
                b.tags.set_tag(k, v)
        else:
            fix.store("S", p.conc(c["d"]))
        back = fix.open("S").tags.get_tag_dict()
    return {"back": p.abs(back, over), "extra": p.extra}


def _replay(sub, chunk):
    bz = BzrFix()
    need_git = any("git" in kind for kind, _, _ in chunk)        # also "gita-*"
    need_disk = any(kind == "bzr-disk" for kind, _, _ in chunk)
    gf = GitFix(os.path.join(sub.workdir, "git")) if need_git else None
    disk = DiskBzrFix(os.path.join(sub.workdir, "bzr")) if need_disk else None
    rows = []
    try:
        for kind, idx, c in chunk:
            if c["kind"] == "merge":
                o = _run_merge(kind, c, idx, bz, gf)
                src, dst = c["src"], c["dst"]
                if any(v != ABSENT for v in src.values()) and (src != dst or (c["hasMaster"] and src != c["master"])):
                    sub.nontrivial((kind, idx))
            else:
                o = _run_store(kind, c, idx, bz, gf, disk)
                if any(v != ABSENT for v in c["d"].values()):
                    sub.nontrivial((kind, idx))
            rows.append({"c": c, "impl": o, "store": kind, "idx": idx})
            sub.count(1)
    finally:
        bz.close()
        if gf:
            gf.close()
        if disk:
            disk.close()
    sub.rows = rows


def _replay_collect(sub, chunk):
    _replay(sub, chunk)
    # rows travel back to the parent through the samples channel-free path: a file per worker
    import json
    path = os.path.join(os.path.dirname(sub.workdir), "rows_%s.json" % os.path.basename(sub.workdir))
    with open(path, "w") as f:
        json.dump(sub.rows, f)


def _shape(c):
    if c["kind"] == "store":
        return "store"
    return "%s%s%s" % ("overwrite" if c["overwrite"] else "keep", "" if c["selAll"] else "+selector",
                       "+master" if c["hasMaster"] and not c["ignoreMaster"] else
                       "+ignored-master" if c["hasMaster"] else "")


def run(ctx):
    import glob
    import json
    env.init()
    names3, vals = '{"a", "b", "c"}', '{"r1", "r2"}'
    gens = [("no master", dict(NameSet=names3, Vals=vals, WithMaster="FALSE", IgnoreOpts="{FALSE}",
                               SelMode='"sizes"' if ctx.quick else '"subsets"'),
             ("WitnessConflict",)),                  # further witnesses are ASSUMEs inside TagsGen
            ("master", dict(NameSet='{"a", "b"}', Vals=vals, WithMaster="TRUE", IgnoreOpts="{TRUE, FALSE}",
                            SelMode='"sizes"' if ctx.quick else '"subsets"'),
             ())]                                    # WitnessMasterDiverges is an ASSUME inside TagsGen
    if not ctx.quick:
        gens.append(("master, 3 names", dict(NameSet=names3, Vals=vals, WithMaster="TRUE", IgnoreOpts="{FALSE}",
                                             SelMode='"none"'), ()))
    items, n = [], 0
    # TLC model-checks the whole table; the replay is exhaustive on bzr / memory in thorough and a seeded sample
    # elsewhere: (plain cases on bzr and memory, master cases on bzr, any case on a git combination, annotated git,
    # 3-name master cases on bzr)
    p_plain, p_master, p_git, p_annot, p_master3 = (0.25, 0.15, 1 / 16, 0.0, 0.0) if ctx.quick else \
                                                   (1.0, 1.0, 0.25, 0.1, 0.5)
    for label, consts, wit in gens:
        cases = table.generate(ctx, "TagsGen", consts, witnesses=wit, label="TagsGen " + label, workers=4)
        if not cases:
            ctx.machinery("TagsGen (%s) produced no cases" % label)
        for k in cases:
            c = k["c"]
            n += 1
            if c["kind"] == "store":
                kinds = ["bzr", "bzr-settag", "git"] + ([] if ctx.quick else ["bzr-disk"])
                # every dictionary under every naming scheme
                for kind in kinds:
                    reps = len(NAME_SCHEMES) * (len(REV_SCHEMES) if not ctx.quick else 2) if kind != "git" else 2
                    for r in range(reps):
                        items.append((kind, r, c))
                continue
            kinds = []
            if not c["hasMaster"]:
                if ctx.rng.random() < p_plain:
                    kinds.append("bzr-bzr")
                if ctx.rng.random() < p_plain:
                    kinds.append("memory")
                if ctx.rng.random() < p_git:
                    kinds += ["git-git", "bzr-git"]
                if ctx.rng.random() < p_annot:
                    kinds += ["gita-git", "gita-bzr"]        # annotated tags
            elif ctx.rng.random() < (p_master if len(c["src"]) == 2 else p_master3):
                kinds.append("bzr-bzr")
            if ctx.rng.random() < p_git and (ctx.quick or len(c["src"]) == (2 if c["hasMaster"] else 3)):
                kinds.append("git-bzr")
            for kind in kinds:
                items.append((kind, n, c))
    ctx.rule("TLC enumerates all tag dictionaries over names x {absent, r1, r2}: (src, dst) over 3 names without master, "
             "(src, dst, master) over 2 names with a bound destination x ignore_master (thorough: + 3 names, "
             "selector=None), x overwrite x selector (None and %s). Replay: thorough - every plain case on bzr->bzr "
             "(BasicTags, re-opened branches) and MemoryTags, every 2-name master case and a seeded half of the 3-name "
             "master cases on bzr->bzr with a bound destination, a seeded quarter of the cases on each of git->git, "
             "bzr->git, git->bzr, a tenth with annotated git tags; quick - seeded 1/4 of the plain and 15%% of the master "
             "cases on bzr / memory, 1/16 on each git combination. Store/Load: every dictionary x %d hostile name schemes "
             "x revision-id schemes via _set_tag_dict and via set_tag (thorough also on disk), re-opened. Non-trivial = "
             "source not empty and different from a destination (merge) / dictionary not empty (store)"
             % ("one name subset per size" if ctx.quick else "every name subset", len(NAME_SCHEMES)))
    ctx.cov["exhaustive"] = not ctx.quick     # TLC side always; replay exhaustive on bzr / memory in thorough
    ctx.assume("git destinations: tag values are commits present in the destination repository (ghost tags cannot be "
               "stored in git refs)")
    core.fork_map(ctx, _replay_collect, items)
    rows = []
    for f in sorted(glob.glob(os.path.join(ctx.workdir, "rows_*.json"))):
        with open(f) as fp:
            rows.extend(json.load(fp))
        os.unlink(f)
    if len(rows) != len(items):
        ctx.machinery("replayed %d rows of %d" % (len(rows), len(items)))
    rows.sort(key=lambda r: (r["store"], r["idx"], json.dumps(r["c"], sort_keys=True)))
    by_store = {}
    for r in rows:
        by_store[r["store"]] = by_store.get(r["store"], 0) + 1
    ctx.cov["rows_by_store"] = by_store
    for r in (rows[0], rows[len(rows) // 3], rows[len(rows) // 2], rows[-1]):
        ctx.sample(r)
    for row, failed, drift in table.judge(ctx, "TagsTrace", rows, workers=2):
        c = row["c"]
        for law in failed:
            ctx.violation("law:%s:%s:%s" % (law, row["store"], _shape(c)),
                          "law %s fails on store %s, case %s -> %s" % (law, row["store"], c, row["impl"]), row)
        if drift and not failed:
            ctx.drift("%s: outcome differs from Tags!MergeTo on %s: %s" % (row["store"], c, row["impl"]), row)
