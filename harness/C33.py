"""C33 — search recipes sent to the server describe exactly the intended revisions."""
from vf import env, table, core, tlc

META = dict(
    property_id="C33", level="model_checking", design_ref="DESIGN.md §4 C33",
    technique="TLA+ transcription of search_result_from_parent_map / limited_search_result_from_parent_map and of the "
              "server's breadth-first re-walk, model-checked by TLC over every small revision DAG with ghosts and "
              "every client cache; TLC case table + seeded larger DAGs replayed through the real client functions, "
              "the real recipe serialisation and the real recreate_search_from_recipe on real repositories; recorded "
              "walks judged by the same TLA+ laws",
    level_text="TLC exhausts all DAGs of <= 4 revisions + 1 ghost with <= 2 parents (thorough: also + 2 ghosts, "
               "5 revisions + 1 ghost, and 3 revisions + 2 ghosts with <= 3 parents), every cache K (any subset of the "
               "present revisions, with or without null:), every missing set over ghosts and null:, and for the "
               "limited variant (<= 3 revisions quick, <= 4 thorough) every tip and depth <= 2 (3), checking on the "
               "transcription that the server's walk of the recipe is exactly the "
               "intended key set and that the count check passes. The exhaustive table for <= 3 revisions and "
               "seeded random DAGs up to 6 (7) revisions, 2 ghosts, 3 parents are executed on the real code and TLC "
               "evaluates the same laws on the recorded walks. Set-valued functions of a small graph: small-scope "
               "exhaustion plus replay is the right level.",
    level_note="The client's cache values are the true parent tuples (what get_parent_map returned); `missing` only "
               "contains ghosts / null:. Ghost filling (a ghost recorded missing that the server has by replay time, "
               "modelled as a root revision) is exercised for both variants: the limited variant (the one in use, "
               "depth 100) must still walk exactly the client's keys; the full variant drops missing keys from the "
               "stop set by design, so there only 'the count check refuses a wrong walk' is judged. vcsgraph's breadth-first searcher (Rust) is executed "
               "on both sides, and modelled for the conformance comparison. For the limited variant the intended set "
               "is the client's own walk (as DESIGN.md states). Trusted: TLC, the JSON bridge.",
)

NULL = b"null:"
BATCH = 80          # graphs per real repository


# ----------------------------------------------------------------------------- ids
def _rid(d, x):
    if x == 0:
        return NULL
    return b"d%d-g%d" % (d, x - 100) if x > 100 else b"d%d-r%d" % (d, x)


def _num(key):
    if key == NULL:
        return 0
    tail = key.rsplit(b"-", 1)[-1]
    return (100 if tail[:1] == b"g" else 0) + int(tail[1:])


def _nums(keys):
    return sorted(_num(k) for k in keys if k != b"")


def _parents(d, par, x):
    """Parent tuple as every parent map reports it."""
    if x == 0:
        return ()
    ps = par[x - 1]
    return tuple(_rid(d, p) for p in ps) if ps else (NULL,)


# ----------------------------------------------------------------------------- real repository holding many DAGs
def _build_repo(dags):
    """dags: list of (par, filled); the ghosts in `filled` exist in this (the server's) repository as root revisions."""
    from breezy import controldir, revision as R
    from bzrformats import inventory
    from dromedary.memory import MemoryServer
    ms = MemoryServer()
    ms.start_server()
    repo = controldir.format_registry.make_controldir("2a").initialize(ms.get_url()).create_repository()
    with repo.lock_write():
        repo.start_write_group()
        for d, (par, filled) in enumerate(dags):
            for i in list(filled) + list(range(1, len(par) + 1)):
                rid = _rid(d, i)
                parents = [] if i > 100 else [_rid(d, p) for p in par[i - 1]]
                inv = inventory.Inventory(root_revision=rid)
                inv.revision_id = rid
                repo.texts.add_lines((inv.root.file_id, rid), [], [])
                repo.add_inventory(rid, inv, parents)
                repo.add_revision(rid, R.Revision(rid, committer="c33 <c@e.com>", timestamp=0, inventory_sha1=None,
                                                  timezone=0, message="m", parent_ids=parents, properties={}), inv)
        repo.commit_write_group()
    return ms, repo.controldir.open_repository()


def _observe(repo, req, d, c):
    """Real client function -> real serialisation -> real server-side replay."""
    from breezy.bzr import vf_search
    from breezy.bzr.remote import RemoteRepository
    par = c["par"]
    K = {_rid(d, k): _parents(d, par, k) for k in c["K"]}
    keys = []
    missing = {_rid(d, m) for m in c["missing"]}
    if c["kind"] == "full":
        start, stop, count = vf_search.search_result_from_parent_map(K, missing)
    else:
        tips = {_rid(d, t) for t in c["tips"]}
        start, stop, count = vf_search.limited_search_result_from_parent_map(K, missing, tips, c["depth"])
        if K:
            heads = vf_search._find_possible_heads(K, tips, c["depth"])
            s, _found = vf_search._run_search(K, heads, set(tips))
            keys = _nums(s.get_state()[2])
    body = RemoteRepository._serialise_search_recipe(None, ("manual", start, stop, count))
    lines = body.split(b"\n")
    result, err = req.recreate_search_from_recipe(repo, lines)
    walked, _ = req.recreate_search_from_recipe(repo, lines, discard_excess=True)
    return {"start": _nums(lines[0].split(b" ")), "stop": _nums(lines[1].split(b" ")), "count": int(lines[2]),
            "keys": keys, "walk": _nums(walked.get_keys()), "ok": err is None and result is not None}


def _gkey(c):
    return tuple(tuple(ps) for ps in c["par"]), tuple(c["filled"])


def _klass(c):
    ghosts = any(p > 100 for ps in c["par"] for p in ps)
    feats = [f for f, on in (("null-missing", 0 in c["missing"]), ("null-cached", 0 in c["K"]),
                             ("ghost-parents", ghosts), ("ghost-missing", any(m > 100 for m in c["missing"])),
                             ("ghost-filled", bool(c["filled"]))) if on]
    return c["kind"] + ":" + ("+".join(feats) or "plain")


def _work(ctx, items):
    from breezy.bzr.smart.repository import SmartServerRepositoryRequest
    req = SmartServerRepositoryRequest(None)
    for item in items:
        if "mc" in item:
            tlc.check(ctx, "SearchRecipeMC", cfg_text=table.cfg(item["mc"], ("RecipeExact", "CheckRefusesWrongWalk")),
                      workers=item["workers"],
                      label="model check %s" % item["mc"], timeout=1500)
            continue
        if "witness" in item:
            tlc.check(ctx, "SearchRecipeMC", cfg_text=table.cfg(item["consts"], (item["witness"],)),
                      expect_violation=item["witness"], label="witness " + item["witness"], workers=2)
            continue
        cases = item["cases"]
        dags, index = [], {}
        for c in cases:
            key = _gkey(c)
            if key not in index:
                index[key] = len(dags)
                dags.append((c["par"], c["filled"]))
        rows = []
        # one real repository per BATCH graphs (building one pack with thousands of revisions is super-linear)
        for lo in range(0, len(dags), BATCH):
            ms, repo = _build_repo(dags[lo:lo + BATCH])
            try:
                for c in cases:
                    d = index[_gkey(c)]
                    if not lo <= d < lo + BATCH:
                        continue
                    rows.append({"c": c, "impl": _observe(repo, req, d - lo, c)})
                    ctx.count(1)
                    if len(c["K"]) >= 2:
                        ctx.nontrivial((c["kind"], _gkey(c), tuple(c["K"]), tuple(c["missing"]), tuple(c["tips"]),
                                        c["depth"]))
            finally:
                ms.stop_server()
        for row, failed, drift in table.judge(ctx, "SearchRecipeTrace", rows, workers=2):
            c = row["c"]
            for law in failed:
                ctx.violation("law:%s:%s" % (law, _klass(c)),
                              "law %s fails: graph %s%s, cache %s, missing %s%s -> recipe (start %s, stop %s, count %s), "
                              "server walked %s, count check %s%s" % (
                                  law, c["par"], ", ghosts %s present on the server by now" % c["filled"]
                                  if c["filled"] else "", c["K"], c["missing"],
                                  ", tips %s depth %s" % (c["tips"], c["depth"]) if c["kind"] == "limited" else "",
                                  row["impl"]["start"], row["impl"]["stop"], row["impl"]["count"],
                                  row["impl"]["walk"], "passed" if row["impl"]["ok"] else "FAILED",
                                  ", client walked %s" % row["impl"]["keys"] if c["kind"] == "limited" else ""), row)
            if drift and not failed:
                ctx.drift("observation differs from the SearchRecipe specification on %s: %s" % (c, row["impl"]), row)
        big = [r for r in rows if len(r["c"]["K"]) >= 3 and r["c"]["kind"] == "full"]
        lim = [r for r in rows if len(r["impl"]["keys"]) >= 2]
        for r in big[:1] + lim[:1]:
            ctx.sample(r, limit=4)


def _random_cases(rng, n, maxn):
    out = []
    for _ in range(n):
        size = rng.randint(2, maxn)
        ghosts = [101, 102]
        par = []
        for i in range(1, size + 1):
            cands = list(range(1, i)) + ghosts
            k = min(rng.choice([0, 1, 1, 1, 2, 2, 3]), len(cands))
            par.append(sorted(rng.sample(cands, k)))
        present = [0] + list(range(1, size + 1))
        K = sorted(x for x in present if rng.random() < (0.25 if x == 0 else 0.6))
        missing = sorted(x for x in [0] + ghosts if x not in K and rng.random() < 0.5)
        filled = sorted(x for x in missing if x > 100 and rng.random() < 0.3)
        if rng.random() < 0.4:
            out.append({"kind": "full", "par": par, "K": K, "missing": missing, "tips": [], "depth": 0,
                        "filled": filled})
        else:
            if not K:
                K = [size]
            pool = present + ghosts
            tips = sorted(rng.sample(pool, rng.randint(1, 3)))
            missing = [m for m in missing if m not in K]
            out.append({"kind": "limited", "par": par, "K": K, "missing": missing, "tips": tips,
                        "depth": rng.randint(0, 4), "filled": filled})
    return out


def _mc(n, g, p, t, d):
    return {"MaxN": n, "NGhosts": g, "MaxPar": p, "MaxTips": t, "MaxDepth": d}


def _gen(n, g, p, t, dmin, dmax, mfall):
    return dict(_mc(n, g, p, t, dmax), MinDepth=dmin, MFAll=mfall)


def run(ctx):
    env.init()
    small = _mc(3, 1, 2, 1, 1)
    items = [{"witness": "WitnessPartialCache", "consts": small},
             {"witness": "WitnessFullNotFillRobust", "consts": small}]
    if ctx.quick:
        items.append({"mc": _mc(4, 1, 2, 0, 0), "workers": 4})      # limited variant: table (<= 3) + random cases
        tab = _gen(3, 1, 2, 1, 1, 1, "FALSE")
        nrand, maxn, nchunks = 2000, 6, 4
    else:
        items += [{"mc": _mc(4, 1, 2, 1, 1), "workers": 4}, {"mc": _mc(4, 2, 2, 0, 0), "workers": 4},
                  {"mc": _mc(5, 1, 2, 0, 0), "workers": 4}, {"mc": _mc(3, 2, 3, 1, 2), "workers": 4}]
        tab = _gen(3, 1, 2, 1, 1, 2, "FALSE")
        nrand, maxn, nchunks = 20000, 7, 24
    cases = [k["c"] for k in table.generate(ctx, "SearchRecipeGen", tab, witnesses=(), workers=4,
                                            env={"VF_WITNESSES": "1"},
                                            label="case table + witnesses %s" % tab)]
    if len(cases) < 1000:
        ctx.machinery("case table too small: %d" % len(cases))
    rand = _random_cases(ctx.rng, nrand, maxn)
    ctx.rng.shuffle(cases)
    allc = cases + rand
    items += [{"cases": allc[i::nchunks]} for i in range(nchunks)]
    core.fork_map(ctx, _work, items, chunks_per_proc=4)
    ctx.rule("revision DAG: revision i has <= MaxPar parents among revisions < i and ghosts; client cache K = any "
             "subset of the present revisions with / without null:; missing = any subset of ghosts + null: disjoint "
             "from K (both variants); filled = ghosts recorded missing that exist on the server at replay time; "
             "limited variant: any non-empty K, tips among revisions, null: and ghosts, depth. Exhaustive "
             "table (TLC) for %s; %d seeded random cases with <= %d revisions, 2 ghosts, <= 3 parents, <= 3 tips, "
             "depth <= 4. Non-trivial = cache with >= 2 keys." % (tab, nrand, maxn))
    ctx.cov["exhaustive"] = True
    ctx.assume("cache values are the true parent tuples at the time the client asked; missing contains only ghosts / "
               "null:; a filled ghost is a root revision")


def replay(ctx, rep):
    """./check C33 --replay <file>: rebuild the recorded graph in a real repository and replay the recipe again."""
    env.init()
    from breezy.bzr.smart.repository import SmartServerRepositoryRequest
    c = rep["replay"]["c"]
    c.setdefault("filled", [])
    ms, repo = _build_repo([(c["par"], c["filled"])])
    try:
        impl = _observe(repo, SmartServerRepositoryRequest(None), 0, c)
    finally:
        ms.stop_server()
    print("replayed %s\n  -> %s" % (c, impl))
    ctx.count(1, traces=1)
    intended = set(c["K"]) if c["kind"] == "full" else set(impl["keys"])
    guaranteed = not (c["kind"] == "full" and c["filled"])
    wrong = set(impl["walk"]) - {0} != intended - {0}
    if (guaranteed and (wrong or not impl["ok"])) or impl["ok"] != (impl["count"] == len(impl["walk"])):
        ctx.violation(rep["signature"], "server walked %s, intended %s, count check %s" % (
            impl["walk"], sorted(intended), "passed" if impl["ok"] else "FAILED"), rep["replay"])
