"""C49 — configuration values resolve by location and round-trip through files."""
import glob
import json
import os

from vf import env, table, core

META = dict(
    property_id="C49", level="model_checking", design_ref="DESIGN.md §4 C49",
    technique="TLA+ definition of location-section selection (component-wise glob match, most specific first, "
              "ignore_parents, appendpath / relpath / basename from the unmatched rest) model-checked by TLC against a "
              "declarative characterisation; TLC-generated section sets written as real locations.conf files and "
              "queried through LocationStack for every location; every option value of a token grammar set through a "
              "Stack, saved and read back by a fresh store; recorded results judged by the TLA+ laws",
    level_text="Exhaustive over bounded inputs: all sets of <= 2 (thorough 3) sections with distinct names over paths of "
               "<= 2 components of {a b * a* a*b*} with ignore_parents absent / true / false, all pairs of sections over all option "
               "kinds and policies, each against all 39 locations of <= 3 components of {a b ab}; all values of <= 3 "
               "(thorough 4) tokens over {a \" ' , # = space newline e-acute backslash}. Section selection is a pure "
               "function of (file, location) and the round trip a pure function of the value, so small-scope "
               "exhaustion is the right level.",
    level_note="Section names are absolute local paths (no file:// URLs, no no-name section); norecurse and the "
               "legacy 'recurse' key are outside the property. Open points (order among equally specific sections, "
               "trailing slash of appendpath with an empty rest) are accepted either way and compared as drift only. "
               "Trusted: TLC, the JSON bridge, the rendering of sections as ini text.",
)

ALL_KINDS = '{"none", "plain", "append", "relpath", "basename"}'
SEGS4 = '{"a", "b", "*", "a*"}'
LOC_FAMILIES = {
    # 1 matching / order / ignore_parents (absent, true, false);  2 option kinds and policies, trailing-slash names;
    # 3 names whose string length disagrees with their number of components
    "quick": [dict(Segs='{"a", "*", "a*"}', MaxSeg=2, MaxSecs=2, LocMaxSeg=2, Kinds='{"none", "plain"}',
                   Igns='{"absent", "true", "false"}', Trails="{FALSE}"),
              dict(Segs=SEGS4, MaxSeg=1, MaxSecs=2, LocMaxSeg=3, Kinds=ALL_KINDS, Igns='{"absent"}', Trails="{FALSE, TRUE}"),
              dict(Segs='{"a", "*", "a*b*"}', MaxSeg=2, MaxSecs=2, LocMaxSeg=3, Kinds='{"plain", "append"}',
                   Igns='{"absent"}', Trails="{FALSE}")],
    "thorough": [dict(Segs=SEGS4, MaxSeg=2, MaxSecs=3, LocMaxSeg=3, Kinds='{"plain"}', Igns='{"absent", "true"}',
                      Trails="{FALSE}"),
                 dict(Segs=SEGS4, MaxSeg=2, MaxSecs=2, LocMaxSeg=3, Kinds='{"none", "plain"}',
                      Igns='{"absent", "true", "false"}', Trails="{FALSE}"),
                 dict(Segs=SEGS4, MaxSeg=1, MaxSecs=2, LocMaxSeg=3, Kinds=ALL_KINDS, Igns='{"absent", "true"}',
                      Trails="{FALSE, TRUE}"),
                 dict(Segs=SEGS4, MaxSeg=2, MaxSecs=2, LocMaxSeg=3, Kinds='{"plain", "append", "relpath", "basename"}',
                      Igns='{"absent"}', Trails="{FALSE}"),
                 dict(Segs='{"a", "b", "*", "a*", "a*b*"}', MaxSeg=2, MaxSecs=2, LocMaxSeg=3, Kinds='{"plain", "append"}',
                      Igns='{"absent", "false"}', Trails="{FALSE}")],
}
TOK = {"a": "a", "dq": '"', "sq": "'", "comma": ",", "hash": "#", "eq": "=", "sp": " ", "nl": "\n",
       "eacute": "é", "bs": "\\"}
CHAR = {v: k for k, v in TOK.items()}
SIG_OWN = "law:ownoptions:LocationMatcher.get_sections:option-defined-in-the-section-that-sets-ignore_parents"
_LOCS = []


def sec_name(sec):
    return "/" + "/".join(sec["path"]) + ("/" if sec["trail"] else "")


def sec_text(k, sec):
    out = ["[%s]" % sec_name(sec)]
    opt = sec["opt"]
    if opt == "plain":
        out.append("o = v%d" % k)
    elif opt == "append":
        out += ["o = w%d" % k, "o:policy = appendpath"]
    elif opt == "relpath":
        out.append("o = r%d/{relpath}" % k)
    elif opt == "basename":
        out.append("o = n%d/{basename}" % k)
    if sec["ign"] != "absent":
        out.append("ignore_parents = %s" % sec["ign"])
    return "\n".join(out) + "\n"


def conf_text(secs, reverse):
    parts = [sec_text(k, s) for k, s in enumerate(secs, 1)]       # the value names the index in secs, not in the file
    return "".join(reversed(parts) if reverse else parts)


def _forget_stores():
    import breezy
    from breezy import config
    config._shared_stores.clear()
    if breezy._global_state is not None:
        breezy._global_state.config_stores.clear()


def _home(sub):
    """a private BRZ_HOME per worker; returns the configuration directory."""
    from breezy import bedding
    home = os.path.join(sub.workdir, "home")
    os.makedirs(home, exist_ok=True)
    os.environ["BRZ_HOME"] = home
    d = bedding.config_dir()
    if not d.startswith(home):
        sub.machinery("config dir %s is not under the worker's BRZ_HOME" % d)
    os.makedirs(d, exist_ok=True)
    return d


def _emit(sub, rows, tag):
    out = os.path.join(os.path.dirname(sub.workdir), "c49rows_%s_%d_%d.json" % (tag, os.getpid(), rows[0]["k"]))
    with open(out, "w") as f:
        json.dump(rows, f)


def _replay_loc(sub, chunk):
    from breezy import config
    d = _home(sub)
    rows = []
    for k, case in chunk:
        secs = case["secs"]
        with open(os.path.join(d, "locations.conf"), "w", encoding="utf-8") as f:
            f.write(conf_text(secs, reverse=k % 2 == 1))
        _forget_stores()
        vals = []
        for _, loc in _LOCS:
            try:
                v = config.LocationStack(loc).get("o")
                vals.append("<none>" if v is None else v if isinstance(v, str) else "<type:%s>" % type(v).__name__)
            except Exception as e:                        # noqa: BLE001 - any failure of the real code is an outcome
                vals.append("<exc:%s>" % type(e).__name__)
        chk = k % len(_LOCS)
        rows.append({"kind": "loc", "k": k, "secs": secs, "vals": vals, "chk": {"n": chk + 1, "loc": _LOCS[chk][0]}})
    sub.count(len(rows) * len(_LOCS))
    _emit(sub, rows, "loc")


def _tokens(s):
    return [CHAR.get(ch, "other") for ch in s]


def _roundtrip_ini(t, value):
    from breezy import config
    if t.has("c.conf"):
        t.delete("c.conf")
    st = config.TransportIniFileStore(t, "c.conf")
    config.Stack([st.get_sections], st).set("o", value)
    st.save()
    st2 = config.TransportIniFileStore(t, "c.conf")
    return config.Stack([st2.get_sections], st2).get("o", expand=False)


def _roundtrip_locstack(d, value):
    from breezy import config
    p = os.path.join(d, "locations.conf")
    if os.path.exists(p):
        os.unlink(p)
    _forget_stores()
    st = config.LocationStack("/a/b")
    st.set("o", value)
    st.store.save()
    _forget_stores()
    return config.LocationStack("/a/b").get("o", expand=False)


def _replay_val(sub, chunk):
    from breezy import transport
    d = _home(sub)
    td = os.path.join(sub.workdir, "ini")
    os.makedirs(td)
    t = transport.get_transport_from_path(td)
    rows = []
    for k, case in chunk:
        value = "".join(TOK[x] for x in case["v"])
        for via, fn in (("ini", lambda: _roundtrip_ini(t, value)), ("locstack", lambda: _roundtrip_locstack(d, value))):
            if via == "locstack" and k % 5:
                continue
            try:
                got = fn()
                row = ({"status": "ok", "read": _tokens(got)} if isinstance(got, str)
                       else {"status": "type:%s" % type(got).__name__, "read": []})
            except Exception as e:                        # noqa: BLE001
                row = {"status": "exc:%s" % type(e).__name__, "read": []}
            rows.append(dict(row, kind="val", k=k, via=via, v=case["v"]))
    sub.count(len(rows))
    _emit(sub, rows, "val")


def _collect(ctx, tag):
    rows = []
    for f in glob.glob(os.path.join(ctx.workdir, "c49rows_%s_*.json" % tag)):
        with open(f) as fp:
            rows.extend(json.load(fp))
        os.unlink(f)
    rows.sort(key=lambda r: (r["k"], r.get("via", "")))
    return rows


def _sec_class(secs):
    """coarse input class of a section set, for signatures."""
    kinds = {s["opt"] for s in secs}
    return "%s%s" % ("expansion-policy" if kinds & {"append", "relpath", "basename"} else "plain-values",
                     "+ignore_parents" if any(s["ign"] == "true" for s in secs) else "")


def run(ctx):
    global _LOCS
    env.init()
    base = dict(MaxVal=0, Parts=64)
    nrows = 0
    # ---- location resolution
    for fi, fam in enumerate(LOC_FAMILIES[ctx.tier]):
        consts = dict(base, Family='"loc"', **fam)
        data = table.generate(ctx, "ConfigLocGen", consts, witnesses=("WitnessAll",), timeout=1500,
                              label="ConfigLocGen loc family %d" % (fi + 1))
        locs, cases = data["locs"], data["cases"]
        if not locs or not cases:
            ctx.machinery("empty case table for family %d" % fi)
        _LOCS = [(list(l), "/" + "/".join(l)) for l in locs]
        core.fork_map(ctx, _replay_loc, list(enumerate(cases)))
        rows = _collect(ctx, "loc")
        if [r["k"] for r in rows] != list(range(len(cases))):
            ctx.machinery("replay returned %d rows for %d cases" % (len(rows), len(cases)))
        nrows += len(rows)
        for r in rows:
            if len(set(r["vals"])) > 1:            # non-trivial: the sections distinguish some locations
                ctx.nontrivial("loc:" + json.dumps(r["secs"], sort_keys=True))
        r = rows[len(rows) // 2]
        ctx.sample({"locations.conf": conf_text(r["secs"], r["k"] % 2 == 1),
                    "get('o')": {loc: v for (_, loc), v in list(zip(_LOCS, r["vals"]))[::5]}})
        for row, failed, drift in table.judge(ctx, "ConfigLocTrace", rows, constants={"LocMaxSeg": fam["LocMaxSeg"]},
                                              timeout=1500, workers=4):
            case = cases[row["k"]]
            conf = conf_text(row["secs"], row["k"] % 2 == 1)
            diff = [(loc, "got", v, "code-shaped", e, "property", o) for (_, loc), v, e, o in
                    zip(_LOCS, row["vals"], case["exp"], case["own"]) if v != e or v != o][:5]
            if "coverage" in failed:
                ctx.machinery("row %s: locations of the harness and of the spec disagree" % row["k"])
            for law in failed:
                if law == "ownoptions":
                    ctx.violation(SIG_OWN, "a section that sets ignore_parents = true loses its own options: %r -> %s"
                                  % (conf, diff), row)
                else:
                    ctx.violation("law:%s:LocationStack.get:%s" % (law, _sec_class(row["secs"])),
                                  "law %s fails for %r: %s" % (law, conf, diff), row)
            if drift and not failed:
                ctx.drift("value differs from the implementation-shaped prediction for %r: %s" % (conf, diff), row)
    # ---- value round trip
    consts = dict(base, Family='"val"', Segs='{"a"}', MaxSeg=1, MaxSecs=1, LocMaxSeg=1, Kinds='{"plain"}', Igns='{"absent"}', Trails="{FALSE}",
                  MaxVal=3 if ctx.quick else 4)
    data = table.generate(ctx, "ConfigLocGen", consts, witnesses=("WitnessAll",), timeout=1500,
                          label="ConfigLocGen values")
    cases = data["cases"]
    if not cases:
        ctx.machinery("empty value table")
    core.fork_map(ctx, _replay_val, list(enumerate(cases)))
    rows = _collect(ctx, "val")
    if sorted({r["k"] for r in rows}) != list(range(len(cases))):
        ctx.machinery("value replay returned rows for %d of %d values" % (len({r["k"] for r in rows}), len(cases)))
    nrows += len(rows)
    for r in rows:
        if len(set(r["v"])) > 1:                   # non-trivial: at least two different tokens
            ctx.nontrivial("val:" + "".join(r["v"]))
    ctx.sample({"value": "".join(TOK[x] for x in rows[len(rows) // 2]["v"]), "read back": rows[len(rows) // 2]})
    for row, failed, drift in table.judge(ctx, "ConfigLocTrace", rows, constants={"LocMaxSeg": 1},
                                          timeout=1500, workers=4):
        value = "".join(TOK[x] for x in row["v"])
        for law in failed:                         # "roundtrip/<input class>"
            cls = law.split("/", 1)[1] if "/" in law else law
            ctx.violation("law:roundtrip:IniFileStore-quoting:%s" % cls,
                          "value %r set, saved and read back by a fresh store (%s) gives %s %r" % (
                              value, row["via"], row["status"], "".join(TOK.get(x, "?") for x in row["read"])), row)
    ctx.cov["rows"] = nrows
    ctx.cov["exhaustive"] = True
    ctx.rule("location half: section sets enumerated by TLC (families %s), written as locations.conf in the given and "
             "in reversed order, LocationStack(location).get for all locations of <= LocMaxSeg components over {a b ab}; "
             "non-trivial = not all locations get the same answer. value half: all values of <= %d tokens over %s set "
             "through Stack.set on a TransportIniFileStore (every 5th also through LocationStack), saved, read back "
             "with get(expand=False) by a fresh store; non-trivial = at least two different tokens"
             % (json.dumps(LOC_FAMILIES[ctx.tier]), consts["MaxVal"], sorted(TOK)))
    ctx.assume("values contain no option references ({...}); section names are absolute local paths")
