"""C27 — lock operations leave recoverable state at every crash point."""
from vf import env, tlc, core
from vf.tlaval import parse_state, to_py
from harness import lockdir_common as lc
from harness import C26

META = dict(
    property_id="C27", level="model_checking", design_ref="DESIGN.md §4 C27",
    technique="TLA+ spec of LockDir with Crash and Fail actions enabled at every transport operation, model-checked "
              "by TLC; transition-covering paths of TLC's state graph (every crash point, every single fault) replayed "
              "on real LockDir objects, with a fresh LockDir recovering on a snapshot after every step",
    level_text="Every reachable state of the spec is a crash state (Crash is enabled everywhere) and one TransportError "
               "may be injected at any operation. TLC's labelled state graph is dumped and a transition cover of it "
               "is replayed on the real code: after EVERY step the lock directory is copied and a fresh LockDir must "
               "acquire the lock directly or after one explicit break; a failed attempt_lock must not leave its own "
               "nonce in held/info.",
    level_note="Crash = prefix of the operation sequence (no power-loss write reordering); fault = TransportError raised "
               "instead of performing the operation. One locker + one breaker (two lockers in thorough). Local disk "
               "transport. Trusted: dromedary transports, TLC.",
)

P1 = {"Lockers": ["x"], "Breakers": ["a"], "MaxAttempts": 2, "Steal": False, "DeadStart": False, "MaxFaults": 1, "MaxCrashes": 1}
P1Q = dict(P1, MaxAttempts=1)
P2 = {"Lockers": ["x", "y"], "Breakers": [], "MaxAttempts": 1, "Steal": True, "DeadStart": True, "MaxFaults": 1, "MaxCrashes": 1}
P3 = {"Lockers": ["x", "y"], "Breakers": ["a"], "MaxAttempts": 1, "Steal": False, "DeadStart": False, "MaxFaults": 1, "MaxCrashes": 1}

SIG_PEEK = "failed-attempt-holds-lock:_attempt_lock/confirming-peek:transport-error-after-successful-rename"


def _sig(kind, detail, schedule):
    if kind == "failed_attempt_holds":
        # the failing step is the fault injected at the confirming peek (a `get` right after the process's own rename)
        p = detail["proc"]
        mine = [s for s in schedule if s[0] == p]
        if len(mine) >= 2 and mine[-1][1] == "fault" and mine[-2][1] == "rename":
            return SIG_PEEK
        return "failed-attempt-holds-lock:_attempt_lock:other"
    if kind == "wrong_break":
        return None        # C26's concern
    return "%s:%s" % (kind, detail.get("why", "") if isinstance(detail, dict) else "")


def _replay_chunk(sub, chunk):
    for params, path in chunk:
        def monitors(kind, detail, schedule, params=params):
            sig = _sig(kind, detail, schedule)
            if sig:
                sub.violation(sig, "%s %s" % (kind, detail), {"params": params, "schedule": schedule, "detail": detail})
        lc.replay(sub, params, path, monitors, check_recover=True)
        sub.count(1, traces=1)
        sched_ = tuple(tuple(to_py(s["step"])) for _, s in path[1:])
        if any(op in ("crash", "fault") for _, op in sched_):
            sub.nontrivial(sched_)
        if len(sub.cov["samples"]) < 1 and len(sched_) > 6:
            sub.sample({"params": params, "schedule": sched_})


def run(ctx):
    env.init()
    jobs = []
    for name, params, cap in (("1 locker + breaker", P1Q if ctx.quick else P1, 700 if ctx.quick else None),
                              ("steal dead, 2 lockers", P2, 500 if ctx.quick else None),
                              ) + (() if ctx.quick else (("2 lockers + breaker", P3, 6000),)):
        tlc.check(ctx, "LockDir", cfg_text=lc.cfg_text(params, lc.SAFE), label="MC " + name)
        nodes, edges, inits, res = tlc.graph(ctx, "LockDir", cfg_text=lc.cfg_text(params, lc.SAFE, view=False),
                                             label="graph " + name)
        paths = list(tlc.transition_cover(nodes, edges, inits, rng=ctx.rng))
        ctx.cov.setdefault("graph", []).append({"config": name, "nodes": len(nodes), "edges": len(edges),
                                                "cover_paths": len(paths), "replayed": min(len(paths), cap or len(paths))})
        if cap and len(paths) > cap:
            paths = paths[:cap]
        else:
            ctx.cov["exhaustive_transition_cover_" + name.replace(" ", "_")] = True
        cache = {}
        for p in paths:
            beh = []
            for act, nid in p:
                if nid not in cache:
                    cache[nid] = parse_state(nodes[nid])
                beh.append((act, cache[nid]))
            jobs.append((params, beh))
    # the clause the code violates: TLC's counter-example for FailedNotHeld, replayed
    res = tlc.run(ctx, "LockDir", cfg_text=lc.cfg_text(P1Q, ("FailedNotHeld",)), allow_violation=True)
    if res["violated"] == "FailedNotHeld":
        jobs.append((P1Q, res["trace"]))
    else:
        ctx.drift("spec no longer violates FailedNotHeld")
    core.fork_map(ctx, _replay_chunk, jobs)
    # E3: random schedules with crashes and faults, validated by TLC against the spec
    C26.e3_traces(ctx, monitors_sig=lambda inv: SIG_PEEK if inv == "FailedNotHeld" else "trace-invariant:" + inv,
                  plans=[(dict(P3, MaxAttempts=2), 120 if ctx.quick else 2500)], p_crash=0.03, p_fault=0.06,
                  only={"FailedNotHeld", "Recoverable", "HolderOnDisk", "MutualExclusion", "StealOnlyDead"})
    ctx.rule("paths = transition cover of TLC's labelled state graph of LockDir.tla with Crash/Fail enabled (each path "
             "replayed on real LockDir objects; recovery by a fresh LockDir checked after every step); "
             "non-trivial = contains a crash or an injected fault")
    ctx.assume("crash = the process performs no further transport operation; fault = TransportError instead of the operation")
