"""C30 — a smart server never waits for bytes beyond the current request (next_read_size hints)."""
from harness import smartproto_common as sp

META = dict(
    property_id="C30", level="model_checking", design_ref="DESIGN.md §4 C30",
    technique="next_read_size of every decoder transcribed as the Hint operator of a TLA+ state machine over byte "
              "counts; TLC checks Hint <= Remaining, Hint > 0 while incomplete and completion exactly at the end over "
              "all shapes and all partial-read patterns; the real next_read_size is recorded after every accept_bytes "
              "of every TLC segmentation and the real readers (pipe server medium, v3 response handler, v1/v2 client) "
              "are driven through a short-reading in-memory pipe; TLC judges the recorded runs",
    level_text="TLC exhausts every (shape, bytes-delivered) state of the transcription for all three protocol versions, "
               "requests and responses, all body kinds; on the real code, after every accept_bytes of every enumerated "
               "segmentation the real hint is compared with the real remaining byte count (verdict) and with the "
               "transcription (conformance), and SmartServerPipeStreamMedium._serve_one_request_unguarded / "
               "ConventionalResponseHandler._read_more / the v1-v2 client read loops are run against a pipe that "
               "returns fewer bytes than asked, asserting no read request exceeds what remains of the message.",
    level_note="Well-formed messages only (the property's scope). Part lengths up to the tier's bounds; the hint "
               "formulas are affine in the lengths, so small lengths incl. 0, 1 and digit-count changes are "
               "representative. The pipe is in memory: 'would block' = asks for more than remains. Trusted: TLC, "
               "JSON bridge.",
)


def run(ctx):
    sp.run(ctx, "C30")


def replay(ctx, rep):
    sp.replay(ctx, rep)
