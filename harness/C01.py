"""C01 — a commit records exactly the selected working-tree state; a commit that raises changes nothing."""
import os
import shutil

from vf import env, tlc, table, core, sched

META = dict(
    property_id="C01", level="model_checking", design_ref="DESIGN.md §4 C01",
    technique="TLA+ model of partial commit (trees as FileId -> entry functions, Selected / ExpectedCommitTree, refusal and "
              "failure as no-ops) model-checked by TLC; TLC enumerates working-tree states reachable by <= 2-3 edits x "
              "specific_files / exclude subsets with the expected committed tree; every exported case is replayed on a real "
              "on-disk working tree and the recorded result (new revision tree, iter_changes, working tree, tip, revision "
              "set) is judged by the TLA+ laws; commits re-run with every state-changing repository/branch transport "
              "operation, message_callback and hooks failing",
    level_text="Small scope: all edit sequences of length <= 1 and a seeded sample of those of length 2 (quick 1/48, thorough 1/2; "
               "thorough also 1/300 of length 3) over add / remove / rename / modify / chmod / delete-on-disk / kind change on a 5-id "
               "namespace with nested directories, each combined with every distinct selection reachable by <= 2 specific files "
               "and <= 1 (2) excludes. TLC checks ValidTree, the per-id substitution rule and that refused / failed commits are "
               "no-ops on the model (state machine exhaustively for <= 2 edits), and evaluates the same laws on what the real "
               "commit did. The fault half makes every mutating transport operation of sampled commits fail once.",
    level_note="File contents are two model values; paths are at most 3 segments; one pending merge / conflict flag. Nested "
               "trees, content filters, bound branches and git trees are not modelled. Faults are exceptions raised by the "
               "operation (not performed), not crashes. bzrformats / dromedary trusted as executed.",
)

IDS = ["a", "b", "c", "d", "n"]
ROOT = "R"


# ----------------------------------------------------------------------------- TLC configurations
def consts(basis, maxedits, maxsel, maxexcl, stride=1, offset=0):
    return {"Ids": "{%s}" % ", ".join('"%s"' % i for i in IDS), "BasisName": '"%s"' % basis, "MaxEdits": maxedits,
            "MaxSel": maxsel, "MaxExcl": maxexcl, "Stride": stride, "Offset": offset}


def mc_cfg(basis, maxedits, maxcommits, maxsel, maxexcl, flags, extra=""):
    return ("SPECIFICATION Spec\nCONSTANTS\n  Ids = {%s}\n  BasisName = \"%s\"\n  MaxEdits = %d\n  MaxCommits = %d\n  MaxSel = %d\n"
            "  MaxExcl = %d\n  Flags = %s\n  FaultPoints = {\"transport\", \"message_callback\", \"pre_commit\", \"post_commit\"}\n"
            % (", ".join('"%s"' % i for i in IDS), basis, maxedits, maxcommits, maxsel, maxexcl, "TRUE" if flags else "FALSE")) + extra


MC_INV = "INVARIANT TreesValid\nINVARIANT TipIsBasis\nPROPERTY UnselectedKeepBasis\nPROPERTY FailureIsNoop\n"


# ----------------------------------------------------------------------------- real trees
def fid(i):
    return ("id-" + i).encode()


def _pid(parent_id):
    p = parent_id.decode() if parent_id is not None else ""
    return p[3:] if p.startswith("id-") else ROOT


def entry(parent, name, kind, ex, content):
    return {"parent": parent, "name": name, "kind": kind, "exec": bool(ex) if kind == "file" else False,
            "content": "-" if kind == "directory" else content}


def proj_rev_tree(tree):
    """Revision tree -> {id: entry}."""
    out = {}
    with tree.lock_read():
        for path, ie in tree.iter_entries_by_dir():
            if path == "":
                continue
            k = ie.kind
            if k == "file":
                c, ex = tree.get_file_text(path).decode().strip(), tree.is_executable(path)
            elif k == "symlink":
                c, ex = tree.get_symlink_target(path), False
            else:
                c, ex = "-", False
            out[ie.file_id.decode()[3:]] = entry(_pid(ie.parent_id), ie.name, k, ex, c)
    return out


def proj_wt(tree, known=None):
    """Working tree -> (entries of versioned ids, missing ids, ids iter_changes(basis) reports).  A versioned id whose
    file is absent has no observable kind / content: its entry carries parent and name only (kind "?"); callers that
    know what it was (`known`) get that entry back when parent and name agree."""
    out, missing, changed = {}, [], []
    with tree.lock_read():
        for c in tree.iter_changes(tree.basis_tree(), include_unchanged=True):
            if c.path[1] == "" or c.path[0] == "":
                continue
            i = c.file_id.decode()[3:]
            if (c.changed_content or c.versioned[0] != c.versioned[1] or c.parent_id[0] != c.parent_id[1]
                    or c.name[0] != c.name[1] or c.kind[0] != c.kind[1] or c.executable[0] != c.executable[1]):
                changed.append(i)
            if not c.versioned[1]:
                continue
            k = c.kind[1]
            if k is None:          # versioned, absent on disk
                missing.append(i)
                e = (known or {}).get(i)
                if e and (e["parent"], e["name"]) == (_pid(c.parent_id[1]), c.name[1]):
                    out[i] = dict(e)
                else:
                    out[i] = entry(_pid(c.parent_id[1]), c.name[1], "?", False, "?")
                continue
            ap = tree.abspath(c.path[1])
            if k == "file":
                with open(ap) as f:
                    cont = f.read().strip()
                ex = bool(os.stat(ap).st_mode & 0o100)
            elif k == "symlink":
                cont, ex = os.readlink(ap), False
            elif k == "directory":
                cont, ex = "-", False
            out[i] = entry(_pid(c.parent_id[1]), c.name[1], k, ex, cont)
    return out, sorted(missing), sorted(changed)


def _mk(path, kind, content="x", ex=False):
    if kind == "directory":
        os.mkdir(path)
    elif kind == "file":
        with open(path, "w") as f:
            f.write(content + "\n")
        if ex:
            os.chmod(path, 0o755)
    else:
        os.symlink(content, path)


def _rm(path):
    if os.path.islink(path) or not os.path.isdir(path):
        os.unlink(path)
    else:
        shutil.rmtree(path)


def apply_edit(tree, e):
    """One edit record of CommitModel!EditSucc through the real WorkingTree API / the file system."""
    root = tree.basedir
    op, i = e["op"], e["id"]
    if op == "add":
        pp = "" if e["parent"] == ROOT else tree.id2path(fid(e["parent"]))
        rel = (pp + "/" if pp else "") + e["name"]
        _mk(os.path.join(root, rel), e["kind"])
        tree.add([rel], ids=[fid(i)])
        return
    rel = tree.id2path(fid(i))
    ap = os.path.join(root, rel)
    if op == "remove":             # `brz rm --no-backup`: unversions the subtree and deletes it
        tree.remove([rel], keep_files=False, force=True)
        if os.path.lexists(ap):
            _rm(ap)
    elif op == "delete":
        _rm(ap)
    elif op == "rename":
        pp = "" if e["parent"] == ROOT else tree.id2path(fid(e["parent"]))
        tree.rename_one(rel, (pp + "/" if pp else "") + e["name"])
    elif op == "modify":
        if os.path.islink(ap):
            t = os.readlink(ap)
            os.unlink(ap)
            os.symlink("y" if t == "x" else "x", ap)
        else:
            with open(ap) as f:
                t = f.read().strip()
            with open(ap, "w") as f:
                f.write(("y" if t == "x" else "x") + "\n")
    elif op == "chmod":
        os.chmod(ap, 0o644 if os.stat(ap).st_mode & 0o100 else 0o755)
    elif op == "kind":
        _rm(ap)
        _mk(ap, e["kind"])
    else:
        raise AssertionError(op)


def path_of(t, i):
    segs = []
    while i != ROOT:
        segs.append(t[i]["name"])
        i = t[i]["parent"]
    return "/".join(reversed(segs))


def make_template(workdir, fmt, bname, basis, tree_less=False):
    """Standalone tree (or tree-less branch) holding revision r0 = basis, plus revision `other` (same tree, child of r0,
    not in the branch) to serve as a pending-merge parent."""
    from breezy import controldir
    d = os.path.join(workdir, "tpl_%s_%s%s" % (fmt.replace(".", "_"), bname, "_b" if tree_less else ""))
    if os.path.isdir(d):
        return d
    os.makedirs(d)
    f = controldir.format_registry.make_controldir(fmt)
    tree = controldir.ControlDir.create_standalone_workingtree(d, format=f)
    if tree.supports_setting_file_ids() and fmt == "2a":
        tree.set_root_id(b"root-id")
    order = sorted(basis, key=lambda i: len(path_of(basis, i)))
    with tree.lock_write():
        for i in order:
            e = basis[i]
            _mk(os.path.join(d, path_of(basis, i)), e["kind"], e["content"], e["exec"])
        tree.add([path_of(basis, i) for i in order], ids=[fid(i) for i in order])
    tree.commit("base", rev_id=b"r0", timestamp=1000000000, timezone=0, committer="C <c@e.com>")
    tree.commit("other", rev_id=b"other", timestamp=1000000001, timezone=0, committer="C <c@e.com>")
    with tree.lock_write():
        tree.branch.set_last_revision_info(1, b"r0")
        tree.set_parent_ids([b"r0"])
    if tree_less:
        tree.controldir.destroy_workingtree()
        for n in os.listdir(d):
            if n != ".bzr":
                _rm(os.path.join(d, n))
    return d


def observe(path, before_revs, before_tip, outcome, branch_url=None, known=None):
    """What a fresh look at the tree / branch / repository shows after the commit call."""
    from breezy import workingtree, branch as _b
    tree = workingtree.WorkingTree.open(path)
    br = _b.Branch.open(branch_url) if branch_url else tree.branch
    revs = set(br.repository.all_revision_ids())
    tip = br.last_revision()
    impl = {"outcome": "ok" if outcome == "ok" else "raised", "detail": outcome, "tipMoved": tip != before_tip,
            "revsAdded": len(revs - before_revs), "revsLost": len(before_revs - revs),
            "tree": {}, "changed": [], "w2": {}, "m2": []}
    if outcome == "ok":
        try:
            impl["tree"] = proj_rev_tree(br.repository.revision_tree(tip))
        except Exception as ex:  # noqa  the committed inventory cannot be read back
            impl["tree"] = {}
            impl["detail"] = "ok-but-committed-tree-unreadable:%s:%s" % (type(ex).__name__, str(ex)[:160])
            impl["unreadable"] = True
        try:
            impl["w2"], impl["m2"], impl["changed"] = proj_wt(tree, known)
        except Exception as ex:  # noqa  iter_changes(basis) fails on the tree the commit left behind
            impl["m2"] = ["!unreadable"]
            impl["detail"] = "ok-but-working-tree-unreadable:%s:%s" % (type(ex).__name__, str(ex)[:160])
            impl["wtUnreadable"] = True
        impl["basisIsTip"] = tree.last_revision() == tip
    return impl, tree, revs, tip


def commit_kwargs(combo):
    kw = {}
    if not combo["all"]:
        kw["specific_files"] = ["/".join(p) for p in combo["sel"]]
    if combo["excl"]:
        kw["exclude"] = ["/".join(p) for p in combo["excl"]]
    return kw


def do_commit(tree, combo, rev_id, **extra):
    try:
        tree.commit("m", rev_id=rev_id, timestamp=1000000100, timezone=0, committer="C <c@e.com>",
                    **commit_kwargs(combo), **extra)
        return "ok"
    except Exception as ex:  # noqa
        return "raised:" + type(ex).__name__


ALL = {"all": True, "sel": [], "excl": []}


def replay_states(sub, chunk):
    """E2: every chosen (state, selection) on a fresh copy of the template; E3 rows for TLC."""
    from breezy import workingtree
    from breezy.bzr.conflicts import ConflictList, TextConflict
    rows = sub.cov.setdefault("_collect", [])
    for fmt, bname, tpl, st, combos, second in chunk:
        sdir = os.path.join(sub.workdir, "state")
        shutil.rmtree(sdir, ignore_errors=True)
        shutil.copytree(tpl, sdir, symlinks=True)
        tree = workingtree.WorkingTree.open(sdir)
        ops = [e["op"] for e in st["h"]]
        try:
            with tree.lock_write():
                for e in st["h"]:
                    apply_edit(tree, e)
        except BaseException as ex:  # noqa  (PanicException of the Rust inventory is a BaseException)
            sub.drift("edit sequence could not be replayed (%s: %s)" % (type(ex).__name__, str(ex)[:80]), {"edits": st["h"], "format": fmt})
            continue
        tree = workingtree.WorkingTree.open(sdir)
        w, m, _ = proj_wt(tree, st["w"])
        b = proj_rev_tree(tree.basis_tree())
        if w != st["w"] or m != sorted(st["m"]) or b != st["b"]:
            sub.drift("working tree after the edit sequence differs from the specification's state",
                      {"edits": st["h"], "real": w, "missing": m, "spec": st["w"], "spec_missing": st["m"]})
            continue
        for combo in combos:
            cdir = os.path.join(sub.workdir, "case")
            shutil.rmtree(cdir, ignore_errors=True)
            shutil.copytree(sdir, cdir, symlinks=True)
            t = workingtree.WorkingTree.open(cdir)
            flags = combo.get("flags", "")
            with t.lock_write():
                if "merge" in flags:
                    t.set_parent_ids([b"r0", b"other"])
                if "conflicts" in flags:
                    t.set_conflicts(ConflictList([TextConflict("a")]))
            revs0, tip0 = set(t.branch.repository.all_revision_ids()), t.branch.last_revision()
            outcome = do_commit(t, combo, b"r1")
            impl, t, revs1, tip1 = observe(cdir, revs0, tip0, outcome, known=w)
            meta = {"format": fmt, "basis": bname, "edits": st["h"], "ops": sorted(set(ops)), "flags": flags, "step": 1,
                    "commit": commit_kwargs(combo)}
            rows.append({"c": {"b": b, "w": w, "m": m, "all": combo["all"], "sel": combo["sel"], "excl": combo["excl"],
                               "merge": "merge" in flags, "conflicts": "conflicts" in flags, "fault": "none"},
                         "impl": impl, "meta": meta})
            sub.count(1)
            if ops and (not combo["all"] or combo["excl"]):
                sub.nontrivial((fmt, bname, tuple(tuple(sorted(e.items())) for e in st["h"]), str(commit_kwargs(combo)), flags))
            if len(sub.cov["samples"]) < 1 and len(ops) > 1 and not combo["all"] and not combo["excl"] and impl["changed"] and outcome == "ok":
                sub.sample({"format": fmt, "edits": st["h"], "commit": commit_kwargs(combo), "new_revision_tree": impl["tree"],
                            "still_pending": impl["changed"]})
            # on top of the partial commit: commit everything that is left
            if outcome == "ok" and not flags and second:
                b2 = impl["tree"]
                outcome2 = do_commit(t, ALL, b"r2")
                impl2, _, _, _ = observe(cdir, revs1, tip1, outcome2, known=impl["w2"])
                rows.append({"c": {"b": b2, "w": impl["w2"], "m": impl["m2"], "all": True, "sel": [], "excl": [], "merge": False,
                                   "conflicts": False, "fault": "none"},
                             "impl": impl2, "meta": dict(meta, step=2, commit={})})
                sub.count(1)
            shutil.rmtree(cdir, ignore_errors=True)
        shutil.rmtree(sdir, ignore_errors=True)


# ----------------------------------------------------------------------------- fault half
def _raiser(*a, **k):
    raise RuntimeError("injected failure")


def classify_ops(log):
    """Phase of every mutating transport operation of a commit, from the dry run's log."""
    publish = next((k for k, e in enumerate(log) if (e["path"] or "").endswith("pack-names") and e["op"].startswith("put")), None)
    tipw = next((k for k, e in enumerate(log) if (e["path"] or "").endswith("last-revision") and e["op"].startswith("put")), None)
    out = []
    for k, e in enumerate(log):
        if publish is None or k <= publish:
            out.append("before-pack-names-written")
        elif tipw is None or k < tipw:
            out.append("after-pack-names-written-inside-builder.commit")
        elif k == tipw:
            out.append("branch-tip-write")
        else:
            out.append("after-branch-tip-write")
    return out


class FaultWorld(sched.World):
    """sched.World injects `faults` into transport calls only; writes / closes of an open_write_stream stream are gated
    operations as well, so they are made to fail here."""

    def gate(self, op, path):
        st = super().gate(op, path)
        if st is not None and op in ("stream_write", "stream_close") and (self.me(), st["seq"]) in self.faults:
            self.record(op, path, "FAULT")
            raise self.faults[(self.me(), st["seq"])]()
        return st


def fault_sweep(sub, chunk):
    """The same commit re-run from a fresh copy with one failure injected per run."""
    from breezy import branch as _b, workingtree, lockdir
    # a failed unlock leaves the lock on disk; a later lock attempt of the same commit must give up quickly
    lockdir._DEFAULT_TIMEOUT_SECONDS = 2
    lockdir._DEFAULT_POLL_SECONDS = 0.05
    rows = sub.cov.setdefault("_collect", [])
    for job in chunk:
        fmt, bname, tplb, st, combo, points = job["fmt"], job["basis"], job["tplb"], job["st"], job["combo"], job["points"]
        ops = sorted(set(e["op"] for e in st["h"]))

        def setup(n):
            cdir = os.path.join(sub.workdir, "f%d" % n)
            shutil.rmtree(cdir, ignore_errors=True)
            os.makedirs(cdir)
            shutil.copytree(tplb, os.path.join(cdir, "b"), symlinks=True)
            w = FaultWorld(backing_url="file://" + cdir + "/", significant=lambda op, path: op in sched.MUTATING)
            w.timeout = 600       # one step = everything up to the next mutating operation; generous on a loaded machine
            br = _b.Branch.open(w.url("b"))
            tree = br.create_checkout(os.path.join(cdir, "t"), lightweight=True)
            with tree.lock_write():
                for e in st["h"]:
                    apply_edit(tree, e)
            tree = workingtree.WorkingTree.open(os.path.join(cdir, "t"))
            plain = _b.Branch.open("file://" + cdir + "/b")
            return cdir, w, tree, set(plain.repository.all_revision_ids()), plain.last_revision()

        def finish(cdir, w, revs0, tip0, outcome, fault, phase, tree_b, tree_w, tree_m):
            from breezy import lockdir
            impl, _, _, _ = observe(os.path.join(cdir, "t"), revs0, tip0, outcome, branch_url="file://" + cdir + "/b", known=tree_w) \
                if outcome == "ok" else (None, None, None, None)
            if impl is None:
                plain = _b.Branch.open("file://" + cdir + "/b")
                revs = set(plain.repository.all_revision_ids())
                tip = plain.last_revision()
                impl = {"outcome": "raised", "detail": outcome, "tipMoved": tip != tip0, "revsAdded": len(revs - revs0),
                        "revsLost": len(revs0 - revs), "tree": {}, "changed": [], "w2": {}, "m2": []}
            rows.append({"c": {"b": tree_b, "w": tree_w, "m": tree_m, "all": combo["all"], "sel": combo["sel"], "excl": combo["excl"],
                               "merge": False, "conflicts": False, "fault": fault},
                         "impl": impl, "meta": {"format": fmt, "basis": bname, "edits": st["h"], "ops": ops, "flags": "", "step": 1,
                                                "commit": commit_kwargs(combo), "fault": fault, "phase": phase}})
            sub.count(1)
            sub.nontrivial((fmt, bname, str(st["h"]), str(commit_kwargs(combo)), fault))
            w.close()
            shutil.rmtree(cdir, ignore_errors=True)

        def run_commit(w, tree, **extra):
            try:
                w.spawn("c", lambda: do_commit(tree, combo, b"r1", **extra))
                w.finish_all()
            except core.MachineryError as ex:       # the commit thread is stuck: say where
                import sys
                import traceback
                th = w.procs["c"]["thread"]
                fr = sys._current_frames().get(th.ident)
                where = "".join(traceback.format_stack(fr)[-12:]) if fr else "?"
                raise core.MachineryError("%s\nedits %s commit %s faults %s\n%s" % (ex, st["h"], commit_kwargs(combo), list(w.faults), where))
            res = w.result("c")
            return res[1] if res and res[0] == "ok" else "raised:%s" % (res[1] if res else "?")

        # dry run: count and classify the operations
        cdir, w, tree, revs0, tip0 = setup(0)
        wt_w, wt_m, _ = proj_wt(tree, st["w"])
        tb = proj_rev_tree(tree.basis_tree())
        tw = dict(st["w"])
        outcome = run_commit(w, tree)
        log = [e for e in w.log if e["p"] == "c"]
        phases = classify_ops(log)
        part, nparts = job.get("part", (0, 1))
        if part == 0:
            finish(cdir, w, revs0, tip0, outcome, "none", "dry-run", tb, tw, wt_m)
        else:
            w.close()
            shutil.rmtree(cdir, ignore_errors=True)
        if outcome != "ok":
            sub.machinery("fault sweep: un-faulted commit failed: %s (%s)" % (outcome, st["h"]))
        if len(sub.cov["samples"]) < 1 and part == 0:
            sub.sample({"format": fmt, "edits": st["h"], "commit": commit_kwargs(combo),
                        "mutating_transport_operations": [[k + 1, e["op"], (e["path"] or "")[-40:], phases[k]] for k, e in enumerate(log)][:70]})
        n = 0
        ks = range(1, len(log) + 1)
        if points.get("stride", 1) > 1:       # always keep the operations around the two publication points
            keep = {k for k in ks if k % points["stride"] == 0}
            for k in ks:
                if phases[k - 1] != "before-pack-names-written" or (k < len(log) and phases[k] != "before-pack-names-written"):
                    keep.add(k)
            ks = sorted(keep)
        for k in [k for k in ks if k % nparts == part]:
            n += 1
            cdir, w, tree, revs0, tip0 = setup(n)
            w.faults[("c", k)] = sched.transport_error
            outcome = run_commit(w, tree)
            e = log[k - 1]
            finish(cdir, w, revs0, tip0, outcome, "transport:%s" % e["op"], phases[k - 1], tb, tw, wt_m)
        # failures injected through the extension points commit already has
        for name in (points.get("named", ()) if part == 0 else ()):
            n += 1
            cdir, w, tree, revs0, tip0 = setup(n)
            hook = None
            extra = {}
            if name == "message_callback":
                extra["message_callback"] = _raiser
                phase = "message_callback-before-builder.commit"
            elif name == "get_file_with_stat":
                tree.get_file_with_stat = _raiser
                phase = "tree-read-before-builder.commit"
            elif name in ("pre_commit", "post_commit"):
                hook = name
                _b.Branch.hooks.install_named_hook(name, _raiser, "vf-c01")
                phase = "pre_commit-hook-after-builder.commit" if name == "pre_commit" else "post_commit-hook"
            try:
                if "message_callback" in extra:
                    w.spawn("c", lambda: _commit_cb(tree, combo, extra["message_callback"]))
                    w.finish_all()
                    res = w.result("c")
                    outcome = res[1] if res and res[0] == "ok" else "raised:?"
                else:
                    outcome = run_commit(w, tree)
            finally:
                if hook:
                    _b.Branch.hooks.uninstall_named_hook(hook, "vf-c01")
            finish(cdir, w, revs0, tip0, outcome, name, phase, tb, tw, wt_m)


def _commit_cb(tree, combo, cb):
    try:
        tree.commit(message_callback=cb, rev_id=b"r1", **commit_kwargs(combo))
        return "ok"
    except Exception as ex:  # noqa
        return "raised:" + type(ex).__name__


# ----------------------------------------------------------------------------- verdicts
def shape(row):
    c, meta = row["c"], row["meta"]
    return "sel=%s,excl=%d,ops=%s%s%s" % ("all" if c["all"] else "partial", len(c["excl"]), "+".join(meta["ops"]) or "none",
                                          ",%s" % meta["flags"] if meta["flags"] else "", ",second-commit" if meta["step"] == 2 else "")


def signature(law, row, S):
    c, o, meta = row["c"], row["impl"], row["meta"]
    if law == "fail-atomic":
        phase = meta.get("phase") or "no-injected-fault:%s" % o.get("detail", "")
        return ("failed-commit-moves-tip:" if o["tipMoved"] else "failed-commit-leaves-revision:") + phase
    if law == "pending-remain" and o.get("wtUnreadable"):
        return "working-tree-unreadable-after-commit:%s" % shape(row)
    if law == "pending-remain":
        # unselected entries that were pending and are no longer reported / no longer versioned
        lost = [i for i in set(c["w"]) - set(S) if i not in o["changed"] and (i not in c["b"] or i in c["m"] or c["b"][i] != c["w"][i])]
        gone = set(S) & set(c["m"])

        def below_gone(i):
            p = c["w"][i]["parent"]
            while p != ROOT:
                if p in gone:
                    return True
                p = c["w"][p]["parent"]
            return False
        if lost and all(i not in c["b"] and below_gone(i) for i in lost) and o["m2"] == sorted(set(c["m"]) - gone - set(lost)):
            return "pending-remain:unselected-added-entry-below-committed-missing-directory-is-unversioned"
    if law == "tree":
        # an unselected (excluded) entry keeps its basis parent although that parent is committed as a non-directory
        # (2a: the CHK inventory cannot even be read back; pack-0.92: a file with a child)
        def nondir(p):
            return p in S and (p not in c["w"] or p in c["m"] or c["w"][p]["kind"] != "directory")
        if any(i not in S and e["parent"] != ROOT and nondir(e["parent"]) for i, e in c["b"].items()):
            return "committed-inventory-inconsistent:excluded-child-of-directory-committed-as-non-directory"
        if o.get("unreadable"):
            return "committed-inventory-inconsistent:%s" % shape(row)
    return "law:%s:%s" % (law, shape(row))


def confusable(p, paths):
    """p is a plain string prefix of another existing path that does not lie inside p."""
    ps = "/".join(p)
    return any(q != p and "/".join(q).startswith(ps) and q[:len(p)] != p for q in paths)


def run(ctx):
    env.init()
    q = ctx.quick
    # ---- E1: the commit state machine
    tlc.check(ctx, "CommitModelMC", cfg_text=mc_cfg("B0", 1, 2, 1 if q else 2, 1, True, MC_INV),
              label="MC B0: 1 edit, 2 commits, merge/conflict flags", workers=8)
    for wname in ("WitnessRefusedInfeasible", "WitnessPartialWithPending", "WitnessSecondCommit")[:1 if q else 3]:
        tlc.check(ctx, "CommitModelMC", cfg_text=mc_cfg("B0", 1, 2, 1, 1, False, "INVARIANT %s\n" % wname), expect_violation=wname,
                  label="witness " + wname, workers=4)
    if not q:
        tlc.check(ctx, "CommitModelMC", cfg_text=mc_cfg("B0", 2, 1, 2, 1, False, MC_INV), label="MC B0: 2 edits, 1 commit", workers=16, timeout=3000)
        tlc.check(ctx, "CommitModelMC", cfg_text=mc_cfg("B1", 2, 1, 1, 1, False, MC_INV), label="MC B1: 2 edits, 1 commit", workers=16, timeout=3000)
    # ---- E1/E2: case generation (every state = one TLC initial state, laws checked on the spec's own outcome)
    plans = [("B0", 2, 2, 1, 48 if q else 2), ("B1", 1 if q else 2, 2, 1, 1 if q else 6)]
    if not q:
        plans.append(("B0", 3, 1, 1, 300))
        plans.append(("B0", 1, 2, 2, 1))
    states = []
    for bname, maxedits, maxsel, maxexcl, stride in plans:
        cs = consts(bname, maxedits, maxsel, maxexcl, stride, ctx.seed % stride)
        data, res = tlc.json_cases(ctx, "CommitModelGen", cfg_text=table.cfg(cs, ("LawsHoldOnSpec",)), workers=16, timeout=3000,
                                   label="Gen %s edits<=%d sel<=%d excl<=%d stride %d" % (bname, maxedits, maxsel, maxexcl, stride))
        if not data:
            ctx.machinery("generator produced no states for %s" % bname)
        for st in data:
            st["basis"] = bname
            for k in ("w", "b"):
                st[k] = st[k] or {}
            for k in st["classes"]:
                k["tree"] = k["tree"] or {}
            states.append(st)
    for wname in ("WitnessInfeasible", "WitnessParentPulledIn", "WitnessMissingCommitted")[:2 if q else 3]:
        tlc.check(ctx, "CommitModelGen", cfg_text=table.cfg(consts("B0", 1, 1, 1), (wname,)), expect_violation=wname,
                  label="witness " + wname, workers=4)
    ctx.cov["generated_states"] = len(states)
    ctx.cov["generated_selection_classes"] = sum(len(s["classes"]) for s in states)
    ctx.cov["generated_choices"] = sum(len(k["combos"]) for s in states for k in s["classes"])
    # ---- choose what to replay: per state and distinct selection, `per_class` of the choices that produce it
    per_class = 1
    fmts = ["2a"] if q else ["2a", "pack-0.92"]
    tpls = {}
    bases = {}
    for st in states:
        bases[st["basis"]] = st["b"]
    for fmt in fmts:
        for bname, b in bases.items():
            tpls[(fmt, bname)] = make_template(ctx.workdir, fmt, bname, b)
    jobs = []
    nstate = 0
    for st in states:
        combos = []
        for k in sorted(st["classes"], key=lambda k: sorted(k["S"])):
            cs = sorted(k["combos"], key=lambda x: (len(x["sel"]) + len(x["excl"]), str(x)))
            picks = cs[:per_class]
            # containment, not string prefix: when a path is a plain string prefix of another path without containing it
            # ("d" / "d2"), also replay the smallest choices of this class that exclude / select such a path
            for key in ("excl", "sel"):
                x = next((x for x in cs if any(confusable(p, st["paths"]) for p in x[key])), None)
                if x is not None and x not in picks:
                    picks.append(x)
            if len(cs) > 1 and nstate % 3 == 0 and not q:    # thorough, every third state: also a random other choice of each class
                picks.append(ctx.rng.choice(cs[1:]))
            combos.extend(picks)
        if nstate % (12 if q else 4) == 0 and st["h"]:
            paths = st["paths"]
            combos.append(dict(ALL, flags="merge"))
            combos.append({"all": False, "sel": [paths[0]], "excl": [], "flags": "merge"})
            combos.append(dict(ALL, flags="conflicts"))
            combos.append({"all": True, "sel": [], "excl": [paths[-1]], "flags": "merge"})
        nstate += 1
        for fmt in fmts:
            if fmt != "2a" and nstate % 6:
                continue
            jobs.append((fmt, st["basis"], tpls[(fmt, st["basis"])], st, combos, nstate % 3 == 1))
    # ---- fault half
    tplb = {(fmt, bn): make_template(ctx.workdir, fmt, bn, b, tree_less=True) for fmt in fmts for bn, b in bases.items()}
    cand = [s for s in states if s["basis"] == "B0" and len(s["h"]) == 2 and any(k["ok"] and 0 < len(k["S"]) < 4 for k in s["classes"])]
    ctx.rng.shuffle(cand)
    fjobs = []
    named = ["message_callback", "pre_commit", "post_commit", "get_file_with_stat"]
    base_state = next(s for s in states if s["basis"] == "B0" and not s["h"])
    mod = next(s for s in states if s["basis"] == "B0" and [e["op"] for e in s["h"]] == ["modify"] and s["h"][0]["id"] == "a")
    fjobs.append({"fmt": "2a", "basis": "B0", "tplb": tplb[("2a", "B0")], "st": mod, "combo": ALL, "points": {"stride": 1, "named": named}})
    for s in cand[:(2 if q else 8)]:
        k = next(k for k in s["classes"] if k["ok"] and 0 < len(k["S"]) < 4)
        combo = sorted(k["combos"], key=lambda x: (len(x["sel"]) + len(x["excl"]), str(x)))[0]
        fjobs.append({"fmt": "2a", "basis": "B0", "tplb": tplb[("2a", "B0")], "st": s, "combo": combo,
                      "points": {"stride": 5 if q else 1, "named": named}})
    if not q:
        fjobs.append({"fmt": "pack-0.92", "basis": "B0", "tplb": tplb[("pack-0.92", "B0")], "st": mod, "combo": ALL,
                      "points": {"stride": 1, "named": named}})
    fjobs = [dict(j, part=(i, 4)) for j in fjobs for i in range(4)]
    core.fork_map(ctx, fault_sweep, fjobs, chunks_per_proc=1)
    frows = ctx.collected
    ctx.collected = []
    ctx.cov["fault_runs"] = len(frows)
    core.fork_map(ctx, replay_states, jobs, chunks_per_proc=8)
    rows = frows + ctx.collected
    ctx.collected = []
    if not rows:
        ctx.machinery("nothing was replayed")
    # ---- E3: TLC judges every recorded commit
    for row, failed, drift in table.judge(ctx, "CommitModelTrace", rows, workers=8):
        c, o, meta = row["c"], row["impl"], row["meta"]
        S = None
        for law in failed:
            sig = signature(law, row, _selected_py(row))
            ctx.violation(sig, "law %s fails: %s commit(%s) after edits %s%s -> %s; tipMoved=%s revsAdded=%s" % (
                law, meta["format"], meta["commit"], [(e["op"], e["id"]) for e in meta["edits"]],
                " with %s failing" % meta.get("fault") if meta.get("fault", "none") != "none" else "", o.get("detail"),
                o["tipMoved"], o["revsAdded"]), row)
        if drift and not failed and meta.get("fault", "none") == "none":
            ctx.drift("commit outcome %s where the specification says %s (%s)" % (
                o.get("detail"), "refused / failed" if o["outcome"] == "ok" else "ok", shape(row)), row)
    ctx.cov["exhaustive"] = False      # the deepest level of edit sequences is sampled (seeded)
    ctx.rule("states = every edit sequence of length <= 2 over {add, remove, rename, modify, chmod, delete-on-disk, kind change} from "
             "basis B0 (a, d/, d/b) and B1 (a*, c/, c/d/, c/d/b@) enumerated by TLC (quick: length-2 sequences sampled 1/48; thorough: 1/2 "
             "(B1: 1/6), plus 1/300 of the length-3 sequences); per state every distinct selected-id set reachable with <= 2 "
             "specific files and <= 1 exclude (2 for single edits), replayed with the smallest path choice that produces it (plus the smallest choices that exclude / select a path which "
             "is a plain string prefix of a sibling path; thorough, every third state: a second, random one), every third state followed by a commit of everything left; thorough: every sixth state also on pack-0.92; plus merge / conflict refusals; fault half: every mutating repository/branch transport "
             "operation of sampled commits fails once, plus message_callback, tree read, pre_commit and post_commit hooks raising; "
             "non-trivial = at least one edit and a partial selection, or an injected fault")
    ctx.assume("an injected fault is an exception raised instead of the operation; the process survives (crash atomicity is C04)")


def _selected_py(row):
    """Selected ids of a row, recomputed for the signature only (same rule as CommitModel!Selected)."""
    c = row["c"]
    b, w, m = c["b"], c["w"], set(c["m"])
    ids = set(b) | set(w)

    def paths(i):
        return ([path_of(b, i)] if i in b else []) + ([path_of(w, i)] if i in w else [])

    def inside(ps, p):
        return any(p == q or p.startswith(q + "/") for q in ps)

    def anc(t, i):
        out = []
        p = t[i]["parent"]
        while p != ROOT and p in t:
            out.append(p)
            p = t[p]["parent"]
        return out

    def pending(i):
        return (i in b) != (i in w) or i in m or b[i] != w[i]
    sel = ["/".join(p) for p in c["sel"]]
    excl = ["/".join(p) for p in c["excl"]]
    S = set(ids) if c["all"] else {i for i in ids if any(inside(sel, p) for p in paths(i))}
    S |= {j for t in (b, w) for j in t for i in S if i in anc(t, j)}
    up = {p for i in list(S) if i in w and pending(i) for p in anc(w, i) if pending(p)} - S
    S |= up
    S |= {j for p in up if p in b and (p in m or w[p]["kind"] != "directory") for j in b if p in anc(b, j)}
    return sorted(S - {i for i in ids if any(inside(excl, p) for p in paths(i))})
