"""C22 — revision numbers and revision specifiers resolve consistently."""
from vf import env, core
from harness import history_common as hc

META = dict(
    property_id="C22", level="model_checking", design_ref="DESIGN.md §4 C22",
    technique="TLA+ definition of what every revision-specifier form denotes and of the constraints a dotted-revno map "
              "must satisfy (History.tla), model-checked by TLC for consistency over every branch of the bounded "
              "universe; the TLC-enumerated branches and specifier lists are replayed on real branches (2a, "
              "pack-0.92, RemoteBranch) through both resolution paths, and TLC judges the recorded maps / resolutions",
    level_text="TLC enumerates every graph (<= 2 ordered parents, optionally a ghost merged parent) with every tip such "
               "that the graph is covered by the tip and one other tip (so the repository also holds non-ancestors), "
               "and for each branch every specifier: N (0..revno+1), -N, last:N, revid: (every revision, the ghost), the "
               "branch's own dotted revno of every ancestor, before: of numbers / ids / dotted / tags, tag:, "
               "mainline:, ancestor: against every other tip, and the specifiers that carry another branch (revno:N:BRANCH, "
               "-N:BRANCH, mainline: and before: of those, branch:, submit:) for other branches whose tip is merged into, "
               "diverged from or ahead of the context branch, or empty. The meanings are checked for mutual consistency on "
               "the specification; on the real branch TLC checks get_rev_id against the left-hand history, the "
               "dotted map (domain = ancestry, injective, mainline = <<n>>, structural constraints of the numbering "
               "scheme), id -> dotted -> id round trips with cold and partially filled caches in random order, and "
               "that spec.in_history(b).rev_id and spec.as_revision_id(b) are among the specified meanings.",
    level_note="The dotted numbering itself is not re-specified (merge_sort is vcsgraph/Rust, outside /repo): the map is "
               "constrained, not predicted. Where the definition is silent the specification accepts the alternatives "
               "(before: of a parentless revision -> null: or error; revid: of an absent revision -> the id or error; "
               "last:revno+1 -> null: or error; ancestor: with several LCAs -> any common ancestor, or an error when the "
               "LCAs themselves have nothing in common). Trusted: BranchBuilder/commit, vcsgraph, TLC, the JSON bridge.",
)


def _res(fn, n):
    try:
        return hc.num(fn(), n)
    except core.MachineryError:
        raise
    except Exception:  # noqa: BLE001
        return hc.ERR


def spec_string(sp, dotted, other_url, revno):
    k, a, b, o = sp
    if k == "bnum":
        return "revno:%d:%s" % (a, other_url(o))
    if k == "bneg":
        return "-%d:%s" % (a, other_url(o))           # no prefix: resolved by the DWIM lookup
    if k == "branch":
        return "branch:" + other_url(a)
    if k == "submit":
        return "submit:"
    if k == "num":
        return "%d" % a
    if k == "neg":
        return "-%d" % a
    if k == "last":
        return "last:%d" % a
    if k == "revid":
        return "revid:" + hc.rid(a).decode()
    if k == "dotted":
        return dotted[a]
    if k == "nodotted":
        return "%d.1.1" % (revno + 1)
    if k == "tag":
        return "tag:tag-%d" % a
    if k == "notag":
        return "tag:no-such-tag"
    if k == "mainline" and not b:
        return "mainline:revid:" + hc.rid(a).decode()
    if k == "ancestor":
        return "ancestor:" + other_url(a)
    if k == "before":
        return "before:" + spec_string((b, a, "", o), dotted, other_url, revno)
    if k == "mainline" and b:
        return "mainline:" + spec_string((b, a, "", o), dotted, other_url, revno)
    raise ValueError(sp)


def observe(h, area, kind, case, rng):
    from breezy.revisionspec import RevisionSpec
    c = case["c"]
    t, n = c["t"], h.n
    lh = hc.lefthand(h.par, t)
    anc = sorted(hc.ancestry(h.par, t))
    base = area.branch(t)
    for r in range(1, n + 1):
        base.tags.set_tag("tag-%d" % r, hc.rid(r))

    def fresh():
        return area.open(base, kind)

    # get_rev_id: ascending on one object, random order on another (partial history cache)
    b1, b2 = fresh(), fresh()
    ks = list(range(0, len(lh) + 2))
    getrev = [_res(lambda k=k: b1.get_rev_id(k), n) for k in ks]
    order = ks[:]
    rng.shuffle(order)
    got2 = {k: _res(lambda k=k: b2.get_rev_id(k), n) for k in order}
    getrev2 = [got2[k] for k in ks]
    # the dotted revno map
    b3 = fresh()
    with b3.lock_read():
        m = b3.get_revision_id_to_revno_map()
        rmap = [{"r": hc.num(r, n), "d": list(d)} for r, d in sorted(m.items())]
    dotted = {e["r"]: ".".join(map(str, e["d"])) for e in rmap}
    # id -> dotted -> id, random order; once under one read lock (caches fill up), once with cold caches per call
    back = []
    order = anc[:]
    rng.shuffle(order)
    b4 = fresh()
    with b4.lock_read():
        for r in order:
            back.append(_roundtrip(b4, r, n, rng))
    rng.shuffle(order)
    b5 = fresh()
    for r in order:
        back.append(_roundtrip(b5, r, n, rng))
    # specifiers, both resolution paths
    res = []
    b6 = fresh()
    specs = [list(sp) for sp in case["specs"]]
    rng.shuffle(specs)
    urls = {}

    def other_url(x):
        if x not in urls:
            urls[x] = h.shared(x).user_url
        return urls[x]

    def shown(s):
        for x, u in urls.items():
            s = s.replace(u, "<branch at %d>" % x)
        return s

    def resolve(sp, br):
        s = spec_string(sp, dotted, other_url, len(lh))
        ih = _res(lambda: RevisionSpec.from_string(s).in_history(br).rev_id, n)
        ar = _res(lambda: RevisionSpec.from_string(s).as_revision_id(br), n)
        res.append({"sp": sp, "s": shown(s), "ih": ih, "ar": ar})

    with b6.lock_read():
        for sp in specs:
            if sp[0] in ("branch", "submit"):
                continue
            if sp[0] in ("dotted", "before") and (sp[2] == "dotted" or sp[0] == "dotted") and sp[1] not in dotted:
                continue        # the branch reported no dotted revno for it: the map laws already fail
            resolve(sp, b6)
    for sp in specs:
        if sp[0] == "submit":       # the submit branch is configuration of the context branch
            base.set_submit_branch(other_url(sp[1]))
            b7 = fresh()
            with b7.lock_read():
                resolve(sp, b7)
        elif sp[0] == "branch":     # branch: fetches into the context branch: no read lock around it
            resolve(sp, fresh())
    return {"getrev": getrev, "getrev2": getrev2, "map": rmap, "back": back, "res": res}


def _roundtrip(b, r, n, rng):
    try:
        d = b.revision_id_to_dotted_revno(hc.rid(r))
    except core.MachineryError:
        raise
    except Exception:  # noqa: BLE001
        return {"r": r, "d": [], "back": hc.ERR, "revno": hc.ERR}
    bk = _res(lambda: b.dotted_revno_to_revision_id(tuple(d), _cache_reverse=rng.random() < 0.5), n)
    try:
        rn = b.revision_id_to_revno(hc.rid(r))
    except core.MachineryError:
        raise
    except Exception:  # noqa: BLE001
        rn = hc.ERR
    return {"r": r, "d": list(d), "back": bk, "revno": rn}


def _replay(sub, groups):
    for kind, group in groups:
        par = [list(ps) for ps in group[0]["c"]["par"]]
        h = hc.Hist(sub, par, hc.FORMATS[kind])
        try:
            area = h.area(everything=True)
            try:
                for case in group:
                    ob = observe(h, area, kind, case, sub.rng)
                    c = case["c"]
                    sub.cov.setdefault("_collect", []).append(("row", {"c": {"par": c["par"], "t": c["t"]}, "kind": kind, "ob": ob}))
                    sub.count(len(ob["res"]) + len(ob["back"]) + len(ob["getrev"]))
                    if any(len(e["d"]) == 3 for e in ob["map"]):
                        sub.nontrivial((kind, tuple(map(tuple, par)), c["t"]))
            finally:
                area.close()
        finally:
            h.close()


def _falsified(rows):
    """Binding self-test rows: a map entry dropped, two dotted revnos exchanged, a specifier resolved to the wrong revision."""
    import copy
    r = next((r for r in rows if sum(1 for e in r["ob"]["map"] if len(e["d"]) == 3) >= 1 and len(r["ob"]["map"]) >= 3), None)
    if r is None:
        return []
    a, b, c = copy.deepcopy(r), copy.deepcopy(r), copy.deepcopy(r)
    a["ob"]["map"].pop()
    m = b["ob"]["map"]
    i = next(i for i, e in enumerate(m) if len(e["d"]) == 3)
    j = next(j for j, e in enumerate(m) if len(e["d"]) == 1)
    m[i]["d"], m[j]["d"] = m[j]["d"], m[i]["d"]
    x = next(x for x in c["ob"]["res"] if x["sp"][0] == "revid" and x["ih"] > 0)
    x["ih"] = x["ar"] = (x["ih"] % len(r["c"]["par"])) + 1
    return [("mapdomain", a), ("mapmainline", b), ("specs", c)]


def run(ctx):
    env.init()
    hc.preload()
    off = ctx.seed
    L = ("LawsHoldOnSpec",)
    if ctx.quick:
        plan = [("<=4 revisions, ghost", hc.gen_cfg(1, 4, 2, 1, 4, off), L, True, True),
                ("5 revisions", hc.gen_cfg(5, 5, 2, 0, 50, off), L, True, False)]
        remote_every, pack_every = 20, 10
    else:
        plan = [("<=4 revisions, ghost", hc.gen_cfg(1, 4, 2, 1), L, True, True),
                ("5 revisions", hc.gen_cfg(5, 5, 2, 0, 4, off), L, True, False),
                ("5 revisions, ghost", hc.gen_cfg(5, 5, 2, 1, 16, off), L, True, False),
                ("<=4 revisions, 3 parents, ghost", hc.gen_cfg(3, 4, 3, 1, 3, off), L, True, False),
                ("6 revisions", hc.gen_cfg(6, 6, 2, 0, 80, off), L, True, False),
                ("120 seeded random graphs, 7-10 revisions, <= 3 parents, ghost", hc.gen_cfg(7, 10, 3, 1), L, True, False,
                 {"graphs": hc.random_graphs(ctx.rng, 120, 7, 10)})]
        remote_every, pack_every = 10, 6
    cases = hc.generate(ctx, "HistoryC22Gen", plan)
    groups = hc.group_by_graph(cases)
    jobs = [("2a", g) for g in groups]
    jobs += [("remote", g) for g in groups[ctx.seed % remote_every::remote_every]]
    jobs += [("pack", g) for g in groups[(ctx.seed + 1) % pack_every::pack_every]]
    before = len(ctx.collected)
    core.fork_map(ctx, _replay, jobs)
    rows = hc.collect_rows(ctx, before)
    ctx.cov["replayed"] = {"graphs": len(groups), "branches": len(cases), "rows": len(rows),
                           "by_kind": {k: sum(1 for r in rows if r["kind"] == k) for k in ("2a", "remote", "pack")}}
    for r in rows:
        if len(r["c"]["par"]) >= 5 and sum(1 for e in r["ob"]["map"] if len(e["d"]) == 3) >= 3:
            ctx.sample({"graph": r["c"]["par"], "tip": r["c"]["t"], "kind": r["kind"], "map": r["ob"]["map"],
                        "resolutions (spec string, in_history, as_revision_id)":
                            [[x["s"], x["ih"], x["ar"]] for x in r["ob"]["res"] if x["sp"][0] in ("before", "mainline", "ancestor")][:8]},
                       limit=2)
    for row, v in hc.judge_with_selftest(ctx, "HistoryC22Trace", rows, _falsified(rows)):
        c = row["c"]
        for law in v["failed"]:
            if law == "specs":
                for i, path in v["badspecs"]:
                    x = row["ob"]["res"][i - 1]
                    form = x["sp"][0] + (":" + x["sp"][2] if x["sp"][2] else "")
                    ctx.violation("law:specs:%s:%s:%s" % (form, path, "remote" if row["kind"] == "remote" else "local"),
                                  "specifier %r on %s branch (graph %s, tip %s) resolves to in_history=%s "
                                  "as_revision_id=%s; the %s result is outside its meaning" % (
                                      x["s"], row["kind"], c["par"], c["t"], x["ih"], x["ar"], path),
                                  {"c": c, "kind": row["kind"], "res": x, "map": row["ob"]["map"]})
            else:
                ctx.violation("law:%s:%s" % (law, "remote" if row["kind"] == "remote" else "local"),
                              "law %s fails on %s branch: graph %s, tip %s: getrev %s / %s, map %s, round trips %s" % (
                                  law, row["kind"], c["par"], c["t"], row["ob"]["getrev"], row["ob"]["getrev2"],
                                  row["ob"]["map"], row["ob"]["back"]),
                              {"c": c, "kind": row["kind"], "ob": {k: row["ob"][k] for k in ("getrev", "getrev2", "map", "back")}})
    ctx.rule("branches: graphs as in C21 (revision i has <= 2 (3) ordered parents among revisions < i, optionally the "
             "ghost as a merged parent), tip t such that t and one other tip cover the graph (the repository holds the "
             "whole graph); specifiers = History!SpecsOf. Model-checked: %s. Replayed: the exported branches (Stride > 1 "
             "= every Stride-th of TLC's enumeration, offset by the seed); 2a all, RemoteBranch / pack-0.92 every "
             "%d-th / %d-th graph. Query orders are shuffled with the seeded rng. Non-trivial = the branch has merged "
             "(dotted) revisions." % ("; ".join("%s %s" % (p[0], p[1]) for p in plan), remote_every, pack_every))
    ctx.assume("ghosts occur only as non-left-hand parents; every revision carries one tag")
