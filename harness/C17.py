"""C17 — tree merges obey the three-way merge laws."""
import hashlib
import os
import shutil

from vf import core, env, table
from harness import table_common

META = dict(
    property_id="C17", level="model_checking", design_ref="DESIGN.md §4 C17",
    technique="TLA+ model of trees (file identities with parent / name / kind / content / executable bit), edit sets and "
              "the four merge laws with their antecedents and result trees; TLC enumerates the triples (BASE, edits of "
              "THIS, edits of OTHER) per law and checks the laws' consistency on the model; every exported triple becomes "
              "three real revisions, OTHER is merged into a real working tree at THIS by Merger.do_merge() for merge3 / "
              "weave / lca, and the resulting working tree and conflict list are judged by the same TLA+ laws",
    level_text="Bounded-exhaustive generation by TLC over BASE trees from {a, b, d/, d/a}, edit sets of <= 2 (thorough 3) "
               "edits per side from {modify, rename, move, delete, chmod, kind change, add} for laws 1-3 and 1+1 (thorough "
               "up to 2+1) edits for law 4; TLC proves on the model that all applicable laws accept a common, well-formed "
               "result tree, that law 4's union is the sequential application in either order, and (thorough) that the "
               "constructive enumeration equals brute force. Each replayed case is a real on-disk merge (2a and git "
               "working trees; plain BASE->THIS/OTHER histories with explicit BASE, and criss-cross histories where "
               "_entries_lca is used) whose versioned projection, on-disk projection and conflict list TLC compares with "
               "the law's result tree. A seeded sample stratified by law and flavour is replayed; failing triples are "
               "reduced to their smallest failing sub-triple before they are reported.",
    level_note="One representative per edit kind and a four-item namespace: the merger decides per entry on equality of "
               "parent / name / kind / content hash / executable bit only. For native trees identical additions carry "
               "the same file id. For git trees a file is a path: law 4's antecedent and union are path-level (the "
               "union that follows a directory rename is accepted as well) and directories are implicit. All symlinks "
               "created by a kind change have the same target. Trusted: TLC, the JSON bridge, the projection of trees.",
)

WITNESSES = {"ids": ("WitnessDirRename", "WitnessRealUnion", "WitnessSameAdd", "WitnessKind"),
             "paths": ("WitnessPathRename", "WitnessTwoUnions")}
FULL = '{"a", "b", "d", "da"}'
MERGE_TYPES = ("merge3", "weave", "lca")
FMT = {"ids": "2a", "paths": "git"}

# item -> (parent item, name, kind, executable) in BASE / when added; mirrors MergeLaws!Entry0 (FixtureOk checks it)
ITEM0 = {"a": ("", "a", "file", False), "b": ("", "b", "file", True), "d": ("", "d", "directory", False),
         "da": ("d", "a", "file", False), "n": ("", "n", "file", False), "dn": ("d", "n", "file", False)}


def text(token):
    """Concrete text of a content token '<item>.<version>': ten lines, version 1 changes one line and appends one."""
    item, ver = token.split(".")
    lines = ["%s line %d of the original text\n" % (item, k) for k in range(1, 11)]
    if ver == "1":
        lines[4] = "%s line 5 CHANGED\n" % item
        lines.append("%s appended line\n" % item)
    return "".join(lines).encode()


TOKENS = {hashlib.sha1(text("%s.%s" % (i, v))).hexdigest(): "%s.%s" % (i, v) for i in ITEM0 for v in "01"}


def versioned(tree):
    """world.tree_proj, tolerant of versioned paths that are missing on disk (content token '!missing')."""
    out = {}
    with tree.lock_read():
        for path, ie in tree.iter_entries_by_dir():
            if path == "":
                continue
            try:
                if ie.kind == "file":
                    out[path] = ["file", hashlib.sha1(tree.get_file_text(path)).hexdigest(), bool(tree.is_executable(path))]
                elif ie.kind == "symlink":
                    out[path] = ["symlink", tree.get_symlink_target(path), False]
                else:
                    out[path] = [ie.kind, None, False]
            except Exception as e:
                out[path] = [ie.kind, "!" + type(e).__name__, False]
    return out


def entries(proj):
    """world.tree_proj / disk_proj output -> sorted list of [p, k, c, x] records with content tokens."""
    out = []
    for p, (kind, val, ex) in sorted(proj.items()):
        if kind == "file":
            c = TOKENS.get(val, val if val.startswith("!") else "?" + val[:10])
        elif kind == "symlink":
            c = val
        else:
            c = ""
        out.append({"p": p, "k": kind, "c": c, "x": bool(ex)})
    return out


class Builder:
    """Real revisions for the trees of a case, built with ordinary working-tree operations."""

    def __init__(self, workdir):
        self.top = os.path.join(workdir, "c17")
        os.makedirs(self.top)
        self.templates = {}
        self.n = 0

    def fresh(self, name):
        self.n += 1
        return os.path.join(self.top, "%s%d" % (name, self.n))

    def template(self, fmt, base):
        """A committed working tree holding BASE; returns (path, base revision id)."""
        from breezy import controldir
        key = (fmt, tuple(sorted(base)))
        if key not in self.templates:
            p = self.fresh("tmpl")
            os.makedirs(p)
            wt = controldir.ControlDir.create_standalone_workingtree(p, format=controldir.format_registry.make_controldir(fmt))
            cur = {}
            for i in sorted(base, key=lambda i: ITEM0[i][0] != ""):
                self._create(wt, p, fmt, i, cur)
            self.templates[key] = (p, wt.commit("base"))
        return self.templates[key]

    @staticmethod
    def _path(cur, i):
        par, name = cur[i]
        return name if par == "" else Builder._path(cur, par) + "/" + name

    def _create(self, wt, root, fmt, i, cur):
        par, name, kind, ex = ITEM0[i]
        cur[i] = [par, name]
        rel = self._path(cur, i)
        full = os.path.join(root, rel)
        if kind == "directory":
            os.mkdir(full)
        else:
            with open(full, "wb") as f:
                f.write(text(i + ".0"))
            os.chmod(full, 0o755 if ex else 0o644)
        if fmt == "2a":
            wt.add([rel], ids=[("%s-id" % i).encode()])
        elif kind != "directory":
            wt.add([rel])

    def copy(self, src, name):
        from breezy.workingtree import WorkingTree
        p = self.fresh(name)
        shutil.copytree(src, p, symlinks=True)
        return WorkingTree.open(p), p

    def apply(self, wt, root, fmt, base, edits):
        """Carry out an edit set (MergeLaws!Apply) with rename_one / remove / add / chmod / file writes."""
        ops = {(e["op"], e["i"]) for e in edits}
        cur = {i: [ITEM0[i][0], ITEM0[i][1]] for i in base}
        final = {}
        for i in cur:
            par, name = cur[i]
            if ("mov", i) in ops:
                par = "d" if par == "" else ""
            if ("ren", i) in ops:
                name += "2"
            final[i] = [par, name]
        moving = [i for i in sorted(cur) if final[i] != cur[i]]
        for i in moving:                                   # park, so that swaps and chains need no ordering
            wt.rename_one(self._path(cur, i), "parked_" + i)
            cur[i] = ["", "parked_" + i]
        dels = [i for op, i in sorted(ops) if op == "del"]
        for i in dels:
            if ITEM0[i][2] != "directory":
                wt.remove([self._path(cur, i)], keep_files=False, force=True)
                del cur[i]
        for i in sorted(moving, key=lambda i: ITEM0[i][2] != "directory"):
            par, name = final[i]
            wt.rename_one(self._path(cur, i), name if par == "" else self._path(cur, par) + "/" + name)
            cur[i] = [par, name]
        for i in dels:
            if ITEM0[i][2] == "directory":
                rel = self._path(cur, i)
                if fmt == "2a":
                    wt.remove([rel], keep_files=False, force=True)
                if os.path.isdir(os.path.join(root, rel)):
                    os.rmdir(os.path.join(root, rel))
                del cur[i]
        for op, i in sorted(ops):
            if op in ("mod", "chm", "knd"):
                full = os.path.join(root, self._path(cur, i))
                if op == "mod":
                    with open(full, "wb") as f:
                        f.write(text(i + ".1"))
                elif op == "chm":
                    os.chmod(full, 0o644 if os.stat(full).st_mode & 0o100 else 0o755)
                else:
                    os.unlink(full)
                    os.symlink("t", full)
        for op, i in sorted(ops, key=lambda o: ITEM0[o[1]][0] != ""):
            if op == "add":
                self._create(wt, root, fmt, i, cur)

    def build(self, c, fmt, shape):
        """-> (path of a working tree at THIS, branch holding OTHER, base revid or None, other revid, projections)."""
        from vf import world
        tmpl, rb = self.template(fmt, c["base"])
        this, tp = self.copy(tmpl, "this")
        other, op = self.copy(tmpl, "other")
        if shape == "criss":
            rx = this.commit("x: nothing changed")
            ry = other.commit("y: nothing changed")
            this.branch.fetch(other.branch, ry)
            other.branch.fetch(this.branch, rx)
            this.set_parent_ids([rx, ry])
            other.set_parent_ids([ry, rx])
        self.apply(this, tp, fmt, c["base"], c["dT"])
        self.apply(other, op, fmt, c["base"], c["dO"])
        rt = this.commit("this")
        ro = other.commit("other")
        repo = other.branch.repository
        proj = {"base": entries(world.tree_proj(repo.revision_tree(rb))),
                "this": entries(world.tree_proj(this.branch.repository.revision_tree(rt))),
                "other": entries(world.tree_proj(repo.revision_tree(ro)))}
        # the working tree the merges run in: a fresh checkout of THIS (the builder's own tree is not reused: committing
        # a kind change leaves a git index without the path)
        cp = self.fresh("clean")
        this.controldir.sprout(cp, revision_id=rt).open_workingtree()
        shutil.rmtree(tp, ignore_errors=True)
        return cp, op, other.branch, (rb if shape == "plain" else None), ro, proj


def merge_types():
    from breezy import merge as M
    return {"merge3": M.Merge3Merger, "weave": M.WeaveMerger, "lca": M.LCAMerger}


def _replay(sub, jobs):
    import logging
    from breezy import merge as M
    logging.getLogger("brz").setLevel(logging.CRITICAL)      # "criss-cross merge encountered", "Text conflict in ..."
    from vf import world
    bld = Builder(sub.workdir)
    rows = sub.cov.setdefault("_collect", [])
    types = merge_types()
    for c, shape in jobs:
        fmt = FMT[c["fl"]]
        try:
            tp, op, obranch, rb, ro, proj = bld.build(c, fmt, shape)
        except Exception as e:       # only legitimate for sub-triples of the reduction step that are not well-formed
            empty = {"base": [], "this": [], "other": [], "tree": [], "disk": [], "conflicts": []}
            rows.extend({"c": c, "mt": mt, "shape": shape, "impl": empty, "err": "", "lca_trees": False,
                         "unbuilt": "%s: %s" % (type(e).__name__, str(e)[:200])} for mt in MERGE_TYPES)
            continue
        for mt in MERGE_TYPES:
            w, mp = bld.copy(tp, "m")
            impl = dict(proj)
            err = ""
            cooked = []
            used_lca = False
            try:
                with w.lock_write():                # as cmd_merge does
                    mg = M.Merger.from_revision_ids(w, ro, base=rb, other_branch=obranch)
                    mg.merge_type = types[mt]
                    used_lca = bool(mg._is_criss_cross and mg._lca_trees)
                    cooked = [_conf(k) for k in mg.do_merge()]
            except Exception as e:   # judged through the tree it leaves behind
                err = "%s: %s" % (type(e).__name__, str(e)[:200])
            try:
                recorded = [_conf(k) for k in w.conflicts()]
            except Exception as e:
                recorded = ["conflicts() raised %s" % type(e).__name__]
            impl["conflicts"] = cooked + [k for k in recorded if k not in cooked]
            impl["tree"] = entries(versioned(w))
            impl["disk"] = entries(world.disk_proj(mp))
            rows.append({"c": c, "mt": mt, "shape": shape, "impl": impl, "err": err, "lca_trees": used_lca})
            sub.count(1)
            shutil.rmtree(mp, ignore_errors=True)
        if c["dT"] or c["dO"]:
            sub.nontrivial((c["law"], c["fl"], shape, tuple(c["base"]), _ops(c["dT"], True), _ops(c["dO"], True)))
        shutil.rmtree(tp, ignore_errors=True)
        shutil.rmtree(op, ignore_errors=True)
    shutil.rmtree(bld.top, ignore_errors=True)


def _conf(k):
    return "%s: %s" % (getattr(k, "typestring", type(k).__name__), getattr(k, "path", "?"))


def _ops(edits, items=False):
    return "+".join(sorted((e["op"] + ":" + e["i"]) if items else e["op"] for e in edits)) or "-"


def _generate(sub, configs):
    """One TLC run per configuration (thorough: one per BASE x flavour, side by side)."""
    out = sub.cov.setdefault("_collect", [])
    for consts, wit in configs:
        cases, _ = table_common.generate(sub, "MergeLawsGen", consts, witnesses=wit, workers=4 if sub.quick else 1,
                                         timeout=1500, label="MergeLawsGen %s %s" % (consts["Bases"], consts["Flavours"]))
        out.extend(cases)


def selftest(ctx):
    """Binding self-test: a correct synthetic observation passes; a wrong tree, a reported conflict, a leftover file on
    disk and a wrong fixture are each flagged by TLC."""
    c = {"law": "L2", "fl": "ids", "base": ["a"], "dT": [], "dO": [{"op": "mod", "i": "a"}]}
    a0 = [{"p": "a", "k": "file", "c": "a.0", "x": False}]
    a1 = [{"p": "a", "k": "file", "c": "a.1", "x": False}]
    good = {"base": a0, "this": a0, "other": a1, "tree": a1, "disk": a1, "conflicts": []}
    probes = [("ok", good, None),
              ("tree", dict(good, tree=a0), "L2.tree"),
              ("conflicts", dict(good, conflicts=["text conflict: a"]), "L2.conflicts"),
              ("disk", dict(good, disk=a1 + [{"p": "a.OTHER", "k": "file", "c": "a.1", "x": False}]), "L2.disk"),
              ("fixture", dict(good, other=a0), "fixture")]
    rows = [{"c": c, "impl": impl} for _, impl, _ in probes]
    got = {id(r): v for r, v in _judge(ctx, rows)}
    for (name, _, want), r in zip(probes, rows):
        v = got.get(id(r))
        have = set() if v is None else set(v["failed"]) | (set() if v["fixture"] else {"fixture"})
        if (want is None and have) or (want is not None and want not in have):
            ctx.machinery("binding self-test: probe %r judged %s, expected %s" % (name, sorted(have), want))
    ctx.cov["traces_validated_against_impl"] -= len(rows)       # synthetic rows are not implementation traces


def run(ctx):
    env.init()
    selftest(ctx)
    both = '{"ids", "paths"}'
    if ctx.quick:
        consts = {"Bases": "{%s}" % FULL, "MaxSide": 2, "MaxPair": 1, "MaxSum": 2}
        configs = [(dict(consts, Flavours=both, CrossCheck="FALSE"), WITNESSES["ids"] + WITNESSES["paths"])]
    else:
        consts = {"Bases": '{%s, {"a", "b", "d"}, {"a", "b"}, {"d", "da"}}' % FULL, "MaxSide": 3, "MaxPair": 2, "MaxSum": 3}
        configs = [(dict(consts, Bases="{%s}" % b, Flavours='{"%s"}' % fl, CrossCheck="FALSE"),
                    WITNESSES[fl] if b == FULL else ())
                   for b in (FULL, '{"a", "b", "d"}', '{"a", "b"}', '{"d", "da"}') for fl in ("ids", "paths")
                   if not (fl == "paths" and b == '{"a", "b", "d"}')]        # git has no empty directories
        # the constructive enumeration of the generator against brute force over all pairs of edit sets (small bounds)
        table_common.generate(ctx, "MergeLawsGen", {"Bases": "{%s}" % FULL, "MaxSide": 2, "MaxPair": 1, "MaxSum": 2,
                                                    "Flavours": both, "CrossCheck": "TRUE"}, workers=4, timeout=1500,
                              label="MergeLawsGen cross-check against brute force")
    core.fork_map(ctx, _generate, configs)
    cases = list(ctx.collected)
    del ctx.collected[:]
    if not cases:
        ctx.machinery("generator exported no cases")
    total = len(cases)
    cases.sort(key=lambda c: (c["law"], c["fl"], c["base"], _ops(c["dT"], True), _ops(c["dO"], True)))
    jobs = []
    per_law = 50 if ctx.quick else 400
    for law in ("L1", "L2", "L3", "L4"):
        for fl in ("ids", "paths"):
            pool = [c for c in cases if c["law"] == law and c["fl"] == fl]
            n = per_law if fl == "ids" else per_law // 2
            if law == "L4":
                n *= 2
            pick = pool if len(pool) <= n else ctx.rng.sample(pool, n)
            for k, c in enumerate(pick):
                # native trees: every third case (and all of law 4's first third) also on a criss-cross history
                jobs.append((c, "plain"))
                if fl == "ids" and k % 3 == 0:
                    jobs.append((c, "criss"))
    core.fork_map(ctx, _replay, jobs)
    rows = list(ctx.collected)
    if len(rows) != len(jobs) * len(MERGE_TYPES):
        ctx.machinery("replayed %d of %d merges" % (len(rows), len(jobs) * len(MERGE_TYPES)))
    for r in rows:
        if r.get("unbuilt"):
            ctx.machinery("could not build the revisions of %s: %s" % (r["c"], r["unbuilt"]))
    criss = [r for r in rows if r["shape"] == "criss"]
    if not criss or not all(r["lca_trees"] for r in criss):
        ctx.machinery("criss-cross histories did not make the merger use LCA trees (%d of %d did)" % (
            sum(r["lca_trees"] for r in criss), len(criss)))
    for r in rows:
        if r["err"]:
            ctx.drift("do_merge raised %s (%s, %s history) on %s" % (r["err"], r["mt"], r["shape"], r["c"]), r)
    for pick in (lambda r: r["c"]["law"] == "L4" and r["c"]["fl"] == "ids" and r["shape"] == "plain",
                 lambda r: r["c"]["law"] == "L3" and r["shape"] == "criss" and r["mt"] == "lca",
                 lambda r: r["c"]["law"] == "L2" and r["c"]["fl"] == "paths" and r["c"]["dO"]):
        r = next((r for r in rows if pick(r)), None)
        if r is not None:
            ctx.sample(r)
    bad = _judge(ctx, rows)
    for row, verdict in bad:
        if not verdict["wf"] or not verdict["fixture"]:
            c = row["c"]
            ctx.machinery("fixture of %s (%s history) is not the triple of the case: base %s this %s other %s" % (
                c, row["shape"], row["impl"]["base"], row["impl"]["this"], row["impl"]["other"]))
    _report(ctx, [(r, v) for r, v in bad if v["failed"]])
    ctx.rule("TLC enumerates, for BASE item sets %(Bases)s and both tree flavours, every well-formed triple per law: laws "
             "1-3 with edit sets of <= %(MaxSide)s edits, law 4 with <= %(MaxPair)s edits per side and <= %(MaxSum)s together "
             "(edits: mod / ren / mov / del / chm / knd on a, b, d, d/a and add of n, d/n)" % consts +
             "; %d cases enumerated, a seeded sample stratified by law and flavour replayed (%d histories x 3 merge types; "
             "native trees additionally on criss-cross histories). Non-trivial = some side has an edit" % (total, len(jobs)))
    ctx.cov["cases_enumerated"] = total
    ctx.cov["exhaustive"] = False
    ctx.cov["merges"] = len(rows)
    ctx.cov["criss_cross_merges_using_lca_trees"] = len(criss)
    ctx.assume("native trees: identical additions on both sides carry the same file id (as when both sides took the "
               "addition from a common source); independently added files with different ids are a duplicate by design")
    ctx.assume("git trees: a file is a path; law 4 is stated on path-level changes and directories are implicit")
    ctx.assume("contents are ten-line texts, the modified version changes one line and appends one (git rename detection "
               "sees renamed-and-modified files as renames)")


def _key(c):
    return (c["fl"], tuple(c["base"]), _ops(c["dT"], True), _ops(c["dO"], True))


def _kinds(edits):
    return "+".join(sorted("%s(%s)" % (e["op"], ITEM0[e["i"]][2]) for e in edits)) or "-"


def input_class(k, row):
    """Abstract class of a (reduced) failing triple, from the path-level shape of its three trees:
        same-dir-rename           both sides move every file of a BASE directory to the same new directory
        entry-into-renamed-dir    one side moves every file of a directory to a new directory, the other puts a new entry
                                  into the old one
        entry-into-emptied-dir    one side removes every file of a directory, the other puts a new entry into it
        path-reuse                a path that holds one file in BASE holds a different file on a side
        same-content-new-entries  the two sides create equal content (e.g. symlinks with one target) at different paths
    and, when none applies, the edit kinds of the two sides."""
    base, this, other = ({e["p"]: e for e in row["impl"][t] if e["k"] != "directory"} for t in ("base", "this", "other"))

    def item(e):
        return e["c"].split(".")[0] if e["k"] == "file" and "." in e["c"] else None

    def dirs(t):
        return {p.rsplit("/", 1)[0] for p in t if "/" in p}

    def vacated(side):
        out = {}
        for d in dirs(base):
            if not any(p.startswith(d + "/") for p in side):
                items = {item(base[p]) for p in base if p.startswith(d + "/")} - {None}
                moved = any(item(side[p]) in items and "/" in p and p.rsplit("/", 1)[0] not in dirs(base) for p in side)
                out[d] = "renamed" if moved else "emptied"
        return out

    def new(side):
        return {p: (e["k"], e["c"]) for p, e in side.items() if p not in base or (base[p]["k"], base[p]["c"]) != (e["k"], e["c"])}
    f = set()
    for side in (this, other):
        if any(p in base and item(side[p]) and item(base[p]) and item(side[p]) != item(base[p]) for p in side):
            f.add("path-reuse")
    vt, vo = vacated(this), vacated(other)
    if any(vt[d] == "renamed" and vo.get(d) == "renamed" for d in vt):
        f.add("same-dir-rename")
    for v, side in ((vt, other), (vo, this)):
        for d, how in v.items():
            if any(p.startswith(d + "/") and p not in base for p in side):
                f.add("entry-into-%s-dir" % how)
    nt, no = new(this), new(other)
    if any(nt[p] == no[q] for p in nt for q in no if p != q):
        f.add("same-content-new-entries")
    return "+".join(sorted(f)) or "%s|%s" % (_kinds(k["dT"]), _kinds(k["dO"]))


def _report(ctx, bad):
    """Violations.  Every failing triple is first reduced: all sub-triples (subsets of the two edit sets) are replayed
    and judged the same way, and the failure is reported under the smallest sub-triple that still fails a law, so that
    one defect has one signature whatever unrelated edits accompany it:
        <laws failing on the reduced triple>:<tree format>:<history shape>:<input class of the reduced triple>"""
    import itertools
    if not bad:
        return

    def subsets(es):
        return [list(x) for n in range(len(es) + 1) for x in itertools.combinations(es, n)]
    subs = {}
    for row, _ in bad:
        c = row["c"]
        for t in subsets(c["dT"]):
            for o in subsets(c["dO"]):
                k = {"law": "sub", "fl": c["fl"], "base": c["base"], "dT": t, "dO": o}
                subs[(_key(k), row["shape"])] = (k, row["shape"])
    before = len(ctx.collected)
    core.fork_map(ctx, _replay, list(subs.values()))
    subrows = ctx.collected[before:]
    failed = {}                                      # (key, shape, mt) -> (failed clauses, row, verdict)
    for r in subrows:
        failed[(_key(r["c"]), r["shape"], r["mt"])] = ((), r, None)
    for r, v in _judge(ctx, subrows):
        if v["wf"] and r.get("unbuilt"):
            ctx.machinery("could not build the revisions of the well-formed triple %s: %s" % (r["c"], r["unbuilt"]))
        if v["wf"] and v["fixture"]:
            failed[(_key(r["c"]), r["shape"], r["mt"])] = (tuple(sorted(v["failed"])), r, v)
    groups = {}
    for row, verdict in bad:
        c = row["c"]
        best = None
        for t in subsets(c["dT"]):
            for o in subsets(c["dO"]):
                k = {"law": "sub", "fl": c["fl"], "base": c["base"], "dT": t, "dO": o}
                f = failed.get((_key(k), row["shape"], row["mt"]), ((), None, None))
                if f[0]:
                    rank = (len(t) + len(o), _key(k))
                    if best is None or rank < best[0]:
                        best = (rank, k, f)
        if best is None:                             # not reproduced on the second run: report the row as it is
            best = ((0,), c, (tuple(sorted(verdict["failed"])), row, verdict))
        groups.setdefault((_key(best[1]), row["shape"]), [best[1], best[2], row, set()])[3].add(row["mt"])
    for (key, shape), (k, f, example, _) in sorted(groups.items(), key=lambda kv: kv[0]):
        mts = [mt for mt in MERGE_TYPES if failed.get((key, shape, mt), ((),))[0]] or sorted(groups[(key, shape)][3])
        clauses = sorted({x for mt in MERGE_TYPES for x in failed.get((key, shape, mt), ((),))[0]} or f[0])
        r, v = f[1], f[2]
        laws = "+".join(sorted({x.split(".")[0] for x in clauses}))
        ctx.violation("%s:%s-tree:%s-history:%s" % (laws, FMT[k["fl"]], shape, input_class(k, r)),
                      "laws %s fail for merge types %s on a %s tree (%s history): BASE %s, THIS edits %s, OTHER edits %s; "
                      "working tree %s, on disk %s, conflicts %s%s; the law demands %s (reduced from THIS %s, OTHER %s)" % (
                          clauses, mts, FMT[k["fl"]], shape, k["base"], _ops(k["dT"], True), _ops(k["dO"], True),
                          [tuple(e.values()) for e in r["impl"]["tree"]], [tuple(e.values()) for e in r["impl"]["disk"]],
                          r["impl"]["conflicts"], (", do_merge raised " + r["err"]) if r["err"] else "",
                          [tuple(e.values()) for e in (v or {}).get("want", [])],
                          _ops(example["c"]["dT"], True), _ops(example["c"]["dO"], True)),
                      {"reduced": r, "example": example})


def _judge(ctx, rows, chunk=5000):
    """rows -> MergeLawsTrace -> [(row, verdict {wf, failed, fixture, want})] for the rows TLC flags."""
    import json
    from vf import tlc
    bad = []
    for off in range(0, len(rows), chunk):
        part = rows[off:off + chunk]
        fin = os.path.join(ctx.workdir, "rows_%d.json" % off)
        with open(fin, "w") as f:
            json.dump([{"c": r["c"], "impl": r["impl"]} for r in part], f)
        data, _ = tlc.json_cases(ctx, "MergeLawsTrace", cfg_text=table.cfg(), env={"VF_IN": fin}, label="MergeLawsTrace",
                                 workers=4)
        os.unlink(fin)
        if data["n"] != len(part):
            ctx.machinery("trace module consumed %s of %d rows" % (data["n"], len(part)))
        bad.extend((part[b["row"] - 1], b) for b in data["bad"])
        ctx.count(0, traces=len(part))
    return bad
