"""C07 — autopack planning is well-formed for every pack size distribution."""
import json
import os
import re
import types

from vf import core, env, table, tlc

META = dict(
    property_id="C07", level="model_checking", design_ref="DESIGN.md §4 C07",
    technique="TLA+ transcription of pack_distribution/_max_pack_count/plan_autopack_combinations/_do_autopack "
              "model-checked by TLC against the well-formedness laws over a bounded domain of pack-count multisets; "
              "TLC's case table executed on the real methods (stub packs) and end-to-end on real 2a repositories; "
              "recorded plans judged by the TLA+ laws",
    level_text="Exhaustive over multisets of at most 5 (7 in thorough) pack revision counts from "
               "{1,2,3,5,9,10,11,19,20,99,100,101} plus 0-2 revision-less packs, total = sum of the counts: TLC "
               "proves the laws on the transcription, every case runs through the four real methods, TLC evaluates "
               "the same laws on the recorded plans. The planner is a small integer function of the sorted counts "
               "and the decimal digits of the total, so small-scope exhaustion around the digit boundaries is the "
               "right level; real repositories (commit, fetch in batches, overlapping write groups, signature-only "
               "packs) confirm the stubbed environment and the domain assumption total = sum.",
    level_note="Domain assumption, measured on real repositories at every autopack: CombinedGraphIndex.key_count() is the "
               "SUM of the per-pack key counts (it does not de-duplicate revisions present in two packs), so "
               "total < sum is unreachable and out of the verdict domain (the planner raises IndexError there; "
               "recorded under coverage.out_of_domain). If a real repository ever shows total != sum the row is "
               "judged with the real total. Execution of a plan (Packer) is not modelled. Trusted: TLC, JSON bridge.",
)

VALS = "{1,2,3,5,9,10,11,19,20,99,100,101}"


class StubPack:
    """Stands for an ExistingPack: a revision count and a total order (real packs are ordered too)."""

    def __init__(self, idx, count):
        self.idx, self.count, self.name = idx, count, "p%02d" % idx

    def get_revision_count(self):
        return self.count

    def __lt__(self, other):          # reverse sort => equal counts in ascending idx, like the spec's indices
        return self.idx > other.idx

    def __repr__(self):
        return "P%d(%d)" % (self.idx, self.count)


def _collection_class():
    from breezy.bzr.pack_repo import RepositoryPackCollection

    class StubCollection(RepositoryPackCollection):
        """Real planner methods; only the environment (packs, key_count, execution) is stubbed."""
        normal_packer_class = None

        def __init__(self, packs, total):
            self.repo = None
            self._stub = list(packs)
            self._names = {p.name: None for p in packs}
            self.revision_index = types.SimpleNamespace(
                combined_index=types.SimpleNamespace(key_count=lambda: total))
            self.captured = None

        def all_packs(self):
            return list(self._stub)

        def _execute_pack_operations(self, pack_operations, packer_class=None, reload_func=None):
            self.captured = pack_operations
            return True

        def __repr__(self):
            return "StubCollection"
    return StubCollection


def out(kind, count=0, packs=(), exc=""):
    return {"kind": kind, "count": count, "packs": list(packs), "exc": exc}


def classify(res, index_of):
    """A plan as returned by plan_autopack_combinations -> outcome record (pack objects -> indices)."""
    if res == []:
        return out("none")
    if (isinstance(res, list) and len(res) == 1 and isinstance(res[0], (list, tuple)) and len(res[0]) == 2
            and isinstance(res[0][0], int) and not isinstance(res[0][0], bool) and isinstance(res[0][1], list)
            and 0 <= res[0][0] < 2 ** 31):
        return out("plan", res[0][0], sorted(index_of(p) for p in res[0][1]))
    return out("malformed", exc=repr(res)[:200])


def guarded(fn, index_of):
    try:
        return classify(fn(), index_of)
    except Exception as e:      # "planning never fails with an internal error": any exception is an error outcome
        return out("error", exc=type(e).__name__)


def observe_stub(Coll, c, rng):
    counts, zeros, total = list(c["counts"]), c["zeros"], c["total"]
    packs = [StubPack(i + 1, n) for i, n in enumerate(counts)]
    zp = [StubPack(100 + i, 0) for i in range(zeros)]
    allp = packs + zp
    rng.shuffle(allp)
    pc = Coll(allp, total)
    idx = lambda p: p.idx if isinstance(p, StubPack) and p.idx <= len(counts) else 0
    try:
        dist = [int(x) for x in pc.pack_distribution(total)]
        maxc = int(pc._max_pack_count(total))
    except Exception as e:
        dist, maxc = [], 0
    existing = [(p.count, p) for p in allp if p.count > 0]
    plan = guarded(lambda: pc.plan_autopack_combinations(existing, pc.pack_distribution(total)), idx)

    def auto():
        r = pc._do_autopack()
        return None if pc.captured is None else pc.captured
    try:
        r = auto()
        a = out("skip") if r is None else classify(r, idx)
    except Exception as e:
        a = out("error", exc=type(e).__name__)
    return {"dist": dist, "maxc": maxc, "plan": plan, "auto": a, "e2e": False, "after": 0}


# ------------------------------------------------------------------------------------ end to end
class Recorder:
    """Wraps _do_autopack of a real RepositoryPackCollection: records (counts, zeros, total) before, the operations
    handed to _execute_pack_operations, and the number of packs afterwards."""

    def __init__(self, ctx, rows, tag):
        self.ctx, self.rows, self.tag = ctx, rows, tag

    def attach(self, repo):
        pc = repo._pack_collection
        if getattr(pc, "_vf_wrapped", False):
            return
        pc._vf_wrapped = True
        orig_do, orig_exec = pc._do_autopack, pc._execute_pack_operations
        rec = self

        def do():
            packs = pc.all_packs()
            order = sorted([(p.get_revision_count(), p) for p in packs if p.get_revision_count() > 0], reverse=True)
            counts = [n for n, _ in order]
            ids = {id(p): i + 1 for i, (_, p) in enumerate(order)}
            index_of = lambda p: ids.get(id(p), 0)
            total = pc.revision_index.combined_index.key_count()
            c = {"counts": counts, "zeros": len(packs) - len(counts), "total": total}
            if len(pc._names) != len(packs):
                rec.ctx.drift("len(_names) != len(all_packs()) at autopack", c)
            if total != sum(counts):
                rec.ctx.cov["e2e_total_ne_sum"] = rec.ctx.cov.get("e2e_total_ne_sum", 0) + 1
                rec.ctx.drift("domain assumption broken: key_count() %d != sum of pack counts %d" % (total, sum(counts)), c)
            try:
                dist = [int(x) for x in pc.pack_distribution(total)]
                maxc = int(pc._max_pack_count(total))
            except Exception:
                dist, maxc = [], 0
            plan = guarded(lambda: pc.plan_autopack_combinations(list(order), pc.pack_distribution(total)), index_of)
            cap = []

            def ex(pack_operations, *a, **kw):
                cap.append(classify(pack_operations, index_of))
                return orig_exec(pack_operations, *a, **kw)
            pc._execute_pack_operations = ex
            a, err = None, None
            try:
                r = orig_do()
            except Exception as e:
                err = e
                # an exception out of the Packer is not a *planning* failure; one before execution is
                a = cap[0] if cap else out("error", exc=type(e).__name__)
            finally:
                pc._execute_pack_operations = orig_exec
            if a is None:
                a = cap[0] if cap else out("skip")
            row = {"c": c, "impl": {"dist": dist, "maxc": maxc, "plan": plan, "auto": a, "e2e": err is None,
                                    "after": len(pc._names)}, "tag": rec.tag}
            rec.rows.append(row)
            if err is not None:
                if cap:      # raised while carrying the plan out (Packer): not a planning failure, noted only
                    rec.ctx.cov["e2e_plan_execution_raised"] = rec.ctx.cov.get("e2e_plan_execution_raised", 0) + 1
                raise err
            return r
        pc._do_autopack = do


def e2e(ctx, rows):
    """Real 2a repositories: the pack sizes arise from commits, batched fetches, overlapping write groups (the same
    revision in two packs) and signature-only packs; every autopack decision is recorded."""
    from breezy import controldir, errors
    from breezy.repository import Repository
    from breezy.transport import get_transport
    from breezy.bzr import vf_search
    from dromedary import memory
    srv = memory.MemoryServer()
    srv.start_server()
    fmt = controldir.format_registry.make_controldir("2a")
    n_commits = 45 if ctx.quick else 230

    def mkrepo(url):
        get_transport(url).ensure_base()
        return fmt.initialize(url).create_repository()
    try:
        # A: plain commits, one pack each
        b = controldir.ControlDir.create_branch_convenience(srv.get_url() + "a", format=fmt)
        t = b.create_memorytree()
        revs = []
        with t.lock_write():
            Recorder(ctx, rows, "commit").attach(b.repository)
            t.add(["", "f"], ["directory", "file"])
            for i in range(n_commits):
                t.put_file_bytes_non_atomic("f", b"l%d\n" % i)
                try:
                    revs.append(t.commit("c%d" % i, rev_id=b"r%04d" % i))
                except Exception as e:     # the failing autopack decision is already recorded as a row and judged
                    ctx.cov.setdefault("e2e_aborted", []).append("commit: %s" % type(e).__name__)
                    break
        src = b.repository
        # B: fetch the history in random batches (packs of 1..12 revisions)
        for k in range(2 if ctx.quick else 12):
            tgt = mkrepo(srv.get_url() + "b%d" % k)
            Recorder(ctx, rows, "fetch").attach(tgt)
            pos = 0
            while pos < len(revs):
                pos = min(len(revs), pos + ctx.rng.choice([1, 1, 2, 3, 5, 9, 10, 11, 12]))
                try:
                    tgt.fetch(src, revision_id=revs[pos - 1])
                except Exception as e:     # recorded as a row and judged
                    ctx.cov.setdefault("e2e_aborted", []).append("fetch: %s" % type(e).__name__)
                    break
        # C: two writers with overlapping write groups: the same revisions end up in two packs
        for k in range(2 if ctx.quick else 8):
            url = srv.get_url() + "c%d" % k
            mkrepo(url)
            pos, broken = 0, False
            with src.lock_read():
                while pos + 3 < min(len(revs), 40 if ctx.quick else 120):
                    ra, rb = Repository.open(url), Repository.open(url)
                    Recorder(ctx, rows, "overlap").attach(ra)
                    Recorder(ctx, rows, "overlap").attach(rb)
                    na = ctx.rng.choice([1, 2, 3])
                    nb = na + ctx.rng.choice([1, 2, 3])
                    with ra.lock_write(), rb.lock_write():
                        ra.start_write_group()
                        rb.start_write_group()
                        for r, n in ((ra, na), (rb, nb)):
                            want = set(revs[pos:pos + n])
                            sr = vf_search.SearchResult({revs[pos + n - 1]}, {revs[pos - 1]} if pos else set(), len(want), want)
                            missing = r._get_sink().insert_stream_without_locking(
                                src._get_source(r._format).get_stream(sr), src._format)
                            if missing:
                                ctx.machinery("overlap scenario: missing keys %r" % (missing,))
                        for r in (ra, rb):
                            if r is rb:
                                # rb learns about ra's pack before it commits (what a retry would do), so that the
                                # number of packs after its autopack is not inflated by a pack it never planned with
                                rb._pack_collection.reload_pack_names()
                            try:
                                r.commit_write_group()
                            except Exception as e:
                                # carrying out a plan over packs with duplicated content can fail in the Packer (the
                                # combined pack is byte-identical to an existing one): execution, not planning - noted
                                ctx.cov.setdefault("e2e_execution_errors", []).append(str(e)[:120])
                                broken = True
                                if r is ra:
                                    rb.abort_write_group()
                                break
                    if broken:
                        break
                    pos += nb
            if broken:
                continue
            r = Repository.open(url)
            with r.lock_read():
                pc = r._pack_collection
                pc.ensure_loaded()
                per = [p.get_revision_count() for p in pc.all_packs()]
                kc, distinct = pc.revision_index.combined_index.key_count(), len(r.all_revision_ids())
            ctx.cov.setdefault("overlap_repos", []).append({"packs": sorted(per, reverse=True), "key_count": kc,
                                                            "distinct_revisions": distinct})
            if kc != sum(per):
                ctx.drift("key_count() %d != sum of per-pack counts %d with duplicated revisions" % (kc, sum(per)))
            if distinct >= sum(per):
                ctx.machinery("overlap scenario produced no duplicated revision")
        # D: signature-only packs (zero revisions) mixed with commits
        b = controldir.ControlDir.create_branch_convenience(srv.get_url() + "d", format=fmt)
        t = b.create_memorytree()
        with t.lock_write():
            repo = b.repository
            Recorder(ctx, rows, "signature").attach(repo)
            t.add(["", "f"], ["directory", "file"])
            for i in range(25 if ctx.quick else 60):
                t.put_file_bytes_non_atomic("f", b"l%d\n" % i)
                try:
                    rid = t.commit("c%d" % i, rev_id=b"s%04d" % i)
                    if i % 4 == 1:
                        repo.start_write_group()
                        repo.add_signature_text(rid, b"sig %d" % i)
                        repo.commit_write_group()
                except Exception as e:     # recorded as a row and judged
                    ctx.cov.setdefault("e2e_aborted", []).append("signature: %s" % type(e).__name__)
                    break
    finally:
        srv.stop_server()


def _sig(law, row):
    c, o = row["c"], row["impl"]
    det = lambda r: r["exc"] if r["kind"] == "error" else r["kind"]
    cls = "zeros" if c["zeros"] else ("total=sum" if c["total"] == sum(c["counts"]) else "total!=sum")
    return "law-%s:plan_autopack_combinations=%s,_do_autopack=%s:%s" % (law, det(o["plan"]), det(o["auto"]), cls)


def _judge(ctx, rows, label):
    for row, failed, drift in table.judge(ctx, "AutopackTrace", rows, workers=2, label=label):
        for law in failed:
            ctx.violation(_sig(law, row), "law %s fails on %s -> %s" % (law, row["c"], row["impl"]), row)
        if drift and not failed:
            ctx.drift("implementation differs from transcription on %s: %s" % (row["c"], row["impl"]), row)


def _stub_chunk(sub, cases):
    Coll = _collection_class()
    rows = []
    for k in cases:
        c = k["c"]
        rows.append({"c": c, "impl": observe_stub(Coll, c, sub.rng)})
        sub.count(1)
        if len(c["counts"]) + c["zeros"] > sum(int(d) for d in str(c["total"])):     # the planner is consulted
            sub.nontrivial((tuple(c["counts"]), c["zeros"]))
    planned = [r for r in rows if r["impl"]["auto"]["kind"] == "plan"]
    if planned:
        sub.sample(planned[len(planned) // 2], limit=1)
    sub.cov.setdefault("_collect", []).append({"rows": len(rows), "planned": len(planned)})
    _judge(sub, rows, "AutopackTrace case table")


def run(ctx):
    env.init()
    consts = {"Vals": VALS, "MaxPacks": 5 if ctx.quick else 7, "MaxZeros": 2, "Dedup": "FALSE"}
    small = dict(consts, Vals="{1,3,10,11}", MaxPacks=4)
    cases = table.generate(ctx, "AutopackGen", consts)
    # anti-vacuity: TLC must reach all three witness states (one run, -continue reports every violated invariant)
    wit = ("WitnessPlan", "WitnessNoneAbove", "WitnessPartBucket")
    res = tlc.run(ctx, "AutopackGen", cfg_text=table.cfg(small, wit), extra=("-continue",), allow_violation=True, workers=2)
    found = set(re.findall(r"Invariant (\w+) is violated", res["output"]))
    if set(wit) - found:
        ctx.machinery("vacuity guard: witnesses not reached: %s" % sorted(set(wit) - found))
    ctx.add_tlc(res, "witnesses " + ",".join(wit))
    if not cases:
        ctx.machinery("empty case table")
    # the case table on the real methods (stub packs), judged by TLC, in parallel workers
    core.fork_map(ctx, _stub_chunk, cases, nproc=4 if ctx.quick else 16, chunks_per_proc=1)
    planned = [x for x in ctx.collected if "planned" in x]
    if sum(x["rows"] for x in planned) != len(cases):
        ctx.machinery("judged %d of %d cases" % (sum(x["rows"] for x in planned), len(cases)))
    if not sum(x["planned"] for x in planned):
        ctx.machinery("no case produced a plan on the real code")
    Coll = _collection_class()
    # end to end
    rows = []
    e2e(ctx, rows)
    n_e2e = len(rows)
    e2e_plans = [r for r in rows if r["impl"]["auto"]["kind"] == "plan"]
    if n_e2e < 20 or len(e2e_plans) < 4:
        ctx.machinery("end-to-end scenarios recorded %d autopack calls, %d plans" % (n_e2e, len(e2e_plans)))
    ctx.count(n_e2e)
    for r in rows:
        ctx.nontrivial(("e2e", tuple(r["c"]["counts"]), r["c"]["zeros"], r["c"]["total"]))
    ctx.sample(e2e_plans[-1])
    ctx.cov["e2e"] = {"autopack_calls": n_e2e, "plans": len(e2e_plans),
                      "by_scenario": {t: sum(1 for r in rows if r["tag"] == t)
                                      for t in ("commit", "fetch", "overlap", "signature")}}
    for r in rows:
        r.pop("tag", None)
    ctx.cov["exhaustive"] = True
    ctx.rule("all non-increasing sequences of 1..%(MaxPacks)s counts from %(Vals)s x 0..%(MaxZeros)s revision-less packs, "
             "total = sum, enumerated by TLC and run on the real methods with stub packs in shuffled order; plus every "
             "_do_autopack call of real 2a repositories built by commits, batched fetches, overlapping write groups "
             "and signature-only packs; non-trivial = more packs than the digit sum of the total (planner consulted) "
             "or end-to-end" % consts)
    _judge(ctx, rows, "AutopackTrace end-to-end")
    # ---- out of domain (documented, no verdict): total < sum, i.e. a key_count() that de-duplicated.  The real
    #      planner and the transcription are compared there (conformance of the IndexError behaviour only).
    import itertools
    ood = []
    for n in (2, 3, 4):
        for counts in itertools.combinations_with_replacement((11, 10, 3, 2, 1), n):
            for total in range(counts[0], sum(counts)):
                c = {"counts": list(counts), "zeros": 0, "total": total}
                ood.append({"c": c, "impl": observe_stub(Coll, c, ctx.rng)})
    fin = os.path.join(ctx.workdir, "ood.json")
    with open(fin, "w") as f:
        json.dump(ood, f)
    data, _ = tlc.json_cases(ctx, "AutopackTrace", cfg_text=table.cfg(None), env={"VF_IN": fin}, workers=2,
                             label="out-of-domain total<sum: conformance only")
    kinds = {}
    for r in ood:
        key = r["impl"]["plan"]["exc"] or r["impl"]["plan"]["kind"]
        kinds[key] = kinds.get(key, 0) + 1
    nd = sum(1 for b in data["bad"] if b.get("drift"))
    if nd:
        ctx.drift("out-of-domain (total < sum): %d of %d cases differ from the transcription" % (nd, len(ood)),
                  ood[data["bad"][0]["row"] - 1])
    if not kinds.get("IndexError"):
        ctx.drift("out-of-domain (total < sum): the planner no longer raises IndexError", kinds)
    ctx.cov["out_of_domain"] = {"class": "total < sum of pack counts (unreachable: key_count() sums)", "cases": len(ood),
                                "plan_outcomes": kinds, "differ_from_transcription": nd}
    ctx.assume("CombinedGraphIndex.key_count() = sum of per-pack revision index key counts (checked at every recorded "
               "autopack of the real repositories, including repositories with the same revision in two packs)")
