"""C50 — command-line splitting inverts shell-style quoting."""
from vf import env, table, core
from harness import table_common

META = dict(
    property_id="C50", level="model_checking", design_ref="DESIGN.md §4 C50",
    technique="TLA+ transcription of the cmdline.Splitter state machine and of the documented quoting rule, "
              "model-checked by TLC over the whole bounded input space; TLC case table replayed into the real "
              "cmdline.split / Splitter; recorded tokens judged by the same TLA+ laws",
    level_text="Exhaustive over the alphabet {a, space, \", ', \\}: every argument list up to the tier's bounds is "
               "written both by the double-quote rule and by the minimal rule (bare, only quote characters escaped) and every string up to the tier's length is split, with single quotes "
               "enabled and disabled. TLC proves split(join(quote(args))) = args for both rules and the no-loss law on the "
               "transcription, every case is executed on the real splitter, and TLC evaluates the same laws on the "
               "recorded tokens. The splitter is a small finite-state transducer whose behaviour depends only on the "
               "character class, so small-scope exhaustion is the right level.",
    level_note="Characters outside the alphabet behave like 'a' (the code tests only whitespace / quote / backslash "
               "membership); whitespace is represented by space (and TAB in thorough). Trusted: TLC, the JSON bridge.",
)

# TLC evaluates the transcribed machine at ~0.3 ms per case, so the bounds are set by the time budget
BOUNDS = {"quick": [dict(A1=4, A2=3, A3=1, M2=2, MaxStr=5, WithTab="FALSE")],
          "thorough": [dict(A1=5, A2=3, A3=2, M2=3, MaxStr=6, WithTab="FALSE"),
                       dict(A1=0, A2=0, A3=0, M2=0, MaxStr=5, WithTab="TRUE")]}
WITNESSES = ("WitnessEscapedSingle", "WitnessTrailingRun", "WitnessEmptyArg", "WitnessPushback", "WitnessEmptyTokens",
             "WitnessBareBackslash", "WitnessBareQuote")


def _s(chars):
    return "".join(chars)


def _replay(ctx, cases):
    from breezy import cmdline
    rows = []
    for k in cases:
        c = k["c"]
        line, sq = _s(c["line"]), c["sq"]
        toks = cmdline.split(line, single_quotes_allowed=sq)
        it = list(cmdline.Splitter(line, single_quotes_allowed=sq))
        impl = {"toks": [list(t) for t in toks], "flags": [bool(q) for q, _ in it]}
        if [t for _, t in it] != toks:       # split() is defined as the tokens of Splitter; keep both observable
            impl["flags"] = ["split/Splitter disagree"]
        rows.append({"c": c, "impl": impl})
        ctx.count(1)
        if c["quoted"]:
            if any(ch in '"\'\\ ' for a in c["args"] for ch in a) or [] in c["args"]:
                ctx.nontrivial(("q", c["minimal"], line, sq))
        elif len(toks) != 1 or toks[0] != line:
            ctx.nontrivial(("s", line, sq))
    for row, failed, drift in table.judge(ctx, "CmdlineTrace", rows, workers=2):
        c = row["c"]
        for law in failed:
            cls = (("bare-args" if c["minimal"] else "quoted-args") if c["quoted"] else "raw-string") + (",single-quotes" if c["sq"] else ",double-only")
            ctx.violation("law:%s:cmdline.split:%s" % (law, cls),
                          "law %s fails: split(%r, single_quotes_allowed=%s) -> %r%s" % (
                              law, _s(c["line"]), c["sq"], [_s(t) for t in row["impl"]["toks"]],
                              " for args %r" % [_s(a) for a in c["args"]] if c["quoted"] else ""), row)
        if drift and not failed:
            ctx.drift("split(%r, %s) -> %r differs from the transcribed machine" % (
                _s(c["line"]), c["sq"], row["impl"]), row)
    for r in rows:       # one written-out case per worker: the first quoted list with a backslash before a quote
        a = [_s(x) for x in r["c"]["args"]]
        if r["c"]["quoted"] and any("\\'" in x or '\\"' in x for x in a):
            ctx.sample({"args": a, "single_quotes_allowed": r["c"]["sq"], "quoted_line": _s(r["c"]["line"]),
                        "real_tokens": [_s(t) for t in r["impl"]["toks"]]}, limit=1)
            break


def run(ctx):
    env.init()
    table_common.narrow_jvm()
    cases, seen = [], set()
    for n, consts in enumerate(BOUNDS[ctx.tier]):
        # one TLC run: laws proved on every case, witnesses reached (they live in the first configuration), table exported
        part, _ = table_common.generate(ctx, "CmdlineGen", consts, witnesses=WITNESSES if n == 0 else (), workers=8)
        for k in part:
            key = (k["c"]["quoted"], k["c"]["minimal"], _s(k["c"]["line"]), k["c"]["sq"], tuple(_s(a) for a in k["c"]["args"]))
            if key not in seen:
                seen.add(key)
                cases.append(k)
    if not cases:
        ctx.machinery("CmdlineGen exported no cases")
    core.fork_map(ctx, _replay, cases, nproc=8 if ctx.quick else 16, chunks_per_proc=1)
    b = BOUNDS[ctx.tier][0]
    ctx.rule("argument lists: [], 1 arg of <=%(A1)s chars, 2 args of <=%(A2)s chars, 3 args of <=%(A3)s chars, quoted by "
             "the spec's double-quote rule and joined with a space; the same lists (2 args of <=%(M2)s chars) written by the "
             "minimal rule (bare, only quote characters escaped; wrapped only if empty or containing whitespace); arbitrary strings of <=%(MaxStr)s chars" % b
             + ("" if ctx.quick else " (and of <=5 chars with TAB added)")
             + "; alphabet {a, space, \", ', \\}; both single_quotes_allowed settings; all enumerated by TLC. Non-trivial = "
             "a quoted list containing a syntax character or an empty argument, or a raw string that is not returned "
             "as one identical token")
    ctx.cov["exhaustive"] = True
    ctx.assume("characters other than whitespace, quotes and backslash are interchangeable for the splitter")
