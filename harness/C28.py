"""C28 — reentrant locking acquires and releases the physical lock exactly once."""
import json
import os
import re
import shutil

from vf import env, tlc, table, core, sched

META = dict(
    property_id="C28", level="model_checking", design_ref="DESIGN.md §4 C28",
    technique="TLA+ state machine of the reentrant lock wrappers (count / mode / underlying lock / on-disk lock, one "
              "deterministic step function with per-wrapper variants) model-checked by TLC over all call sequences; a "
              "transition cover of TLC's state graph and random longer call sequences executed on real CountedLock, "
              "LockableFiles+LockDir, branch, pack and knit repository and working-tree objects; TLC judges every recorded "
              "observation against the specification",
    level_text="TLC explores every sequence of at most 8 calls (lock_read, lock_write without / with the valid / with a "
               "wrong token, lock_tree_write, unlock, and a second holder taking or releasing the on-disk lock) for each "
               "wrapper variant and proves: the underlying lock is acquired exactly at the first lock and released "
               "exactly at the matching last unlock, refused calls change nothing, write-in-read and surplus unlocks "
               "are refused. Every edge of the resulting state graphs is executed on the real objects (2a format, "
               "plus a knit repository for the generic Repository locking, on disk) and the observation after every call - outcome, count, mode, calls on the underlying lock object, "
               "renames of <lock>/held, lock directories on disk - is compared by TLC with the specified one. The "
               "wrappers are small counters, so exhausting their state graph is the right level.",
    level_note="Single-threaded use of one wrapper object plus one other holder; LockDir internals are C26/C27. Counts and "
               "modes are read from the wrappers' private fields (_lock_count, _lock_mode, _write_lock_count). lockdir "
               "timeout is set to 0 so that contention is reported at once. Trusted: TLC, JSON bridge, the harness's "
               "FakeLock (CountedLock variant only).",
)

INV = ("TypeOK", "PhysMatchesMode", "Balanced", "DiskExclusive")
PROPS = ("AcquireOnlyAtFirstLock", "ReleaseOnlyAtLastUnlock", "FirstLockAcquires", "LastUnlockReleases",
         "DiskFollowsPhys", "RefusedUnchanged", "WriteInReadRefused", "ExtraUnlockRefused")
WITNESSES = ("WitnessDeep", "WitnessRefusedWrite", "WitnessRelock", "WitnessAdopt")
WRAPPERS = ("counted", "lockable", "branch", "repo", "knitrepo", "tree")
OPS = {"repo": ["lock_read", "lock_write", "lock_write_good", "lock_write_bad", "unlock"],
       "tree": ["lock_read", "lock_write", "lock_tree_write", "unlock"]}
TOK_OPS = ["lock_read", "lock_write", "lock_write_good", "lock_write_bad", "unlock", "ext_acquire", "ext_release"]


def cfg(w, maxcalls, hist, inv=INV, props=PROPS):
    return ("SPECIFICATION Spec\nCONSTANTS\n  W = \"%s\"\n  MaxCalls = %d\n  History = %s\n" % (
        w, maxcalls, "TRUE" if hist else "FALSE") + "".join("INVARIANT %s\n" % i for i in inv)
        + "".join("PROPERTY %s\n" % p for p in props))


# ----------------------------------------------------------------------------------------- fixtures
class FakeDisk:
    def __init__(self):
        self.holder = None
        self.n = 0


class FakeLock:
    """A lock object with LockDir's interface and token semantics that logs what is asked of it."""

    def __init__(self, disk, log=None, devlog=None):
        self.disk, self.log, self.devlog = disk, log, devlog
        self.nonce, self.held, self.via_token, self.reading = None, False, False, False

    def lock_read(self):
        from breezy import errors
        if self.held or self.reading:
            raise errors.LockContention(self)
        self.reading = True
        self._ev("acqR")

    def validate_token(self, token):
        from breezy import errors
        if token is not None and token != self.disk.holder:
            raise errors.TokenMismatch(token, self.disk.holder)

    def lock_write(self, token=None):
        from breezy import errors
        if token is not None:
            self.validate_token(token)
            self.nonce, self.held, self.via_token = token, True, True
            self._ev("acqW")
            return token
        if self.disk.holder is not None:
            raise errors.LockContention(self)
        self.disk.n += 1
        self.nonce = b"nonce%d" % self.disk.n
        self.disk.holder, self.held, self.via_token = self.nonce, True, False
        self._ev("acqW")
        self._dev("take")
        return self.nonce

    def unlock(self):
        from breezy import errors
        if self.reading:
            self.reading = False
            self._ev("rel")
            return
        if not self.held:
            raise errors.LockNotHeld(self)
        if not self.via_token:
            self.disk.holder = None
            self._dev("drop")
        self.held = self.via_token = False
        self._ev("rel")

    def peek(self):
        return self.disk.holder

    def _ev(self, e):
        if self.log is not None:
            self.log.append(e)

    def _dev(self, e):
        if self.devlog is not None:
            self.devlog.append(e)


class Fixture:
    """One wrapper object under test plus a second holder; call(op) performs one call and returns the observation."""
    w = None

    def __init__(self):
        self.ev, self.dev = [], []
        self.last_token = None
        self.ext_held = False

    # -- per wrapper
    def obj_call(self, op, token):
        o = self.obj
        if op == "lock_read":
            return o.lock_read()
        if op == "lock_tree_write":
            return o.lock_tree_write()
        if op == "unlock":
            return o.unlock()
        if op == "lock_write":
            return o.lock_write()
        return o.lock_write(token=token)

    def token_of(self, result):
        return result

    def wrap_lock(self, lk):
        """Log the successful calls on the underlying lock object."""
        for name, e in (("lock_read", "acqR"), ("lock_write", "acqW"), ("unlock", "rel")):
            orig = getattr(lk, name)

            def f(*a, _orig=orig, _e=e, **k):
                r = _orig(*a, **k)
                self.ev.append(_e)
                return r
            setattr(lk, name, f)

    def call(self, op):
        del self.ev[:]
        del self.dev[:]
        self.before()
        out = "ok"
        try:
            if op == "ext_acquire":
                self.last_token = self.ext_acquire()
                self.ext_held = True
            elif op == "ext_release":
                self.ext_release()
                self.ext_held = False
            else:
                tok = None
                if op == "lock_write_good":
                    tok = self.last_token or b"stale-token"
                elif op == "lock_write_bad":
                    tok = b"bad-token"
                r = self.obj_call(op, tok)
                if op.startswith("lock_write"):
                    t = self.token_of(r)
                    if t is not None:
                        self.last_token = t
        except Exception as e:
            out = type(e).__name__
        ob = self.observe()
        ob["out"] = out
        ob["ev"] = "+".join(self.ev) or "none"
        ob["dev"] = "+".join(self.dev) or "none"
        return ob

    def before(self):
        pass

    def cleanup(self):
        for _ in range(64):
            if not self.observe()["locked"]:
                break
            try:
                self.obj.unlock()
            except Exception:
                break
        if self.ext_held:
            try:
                self.ext_release()
            except Exception:
                pass
            self.ext_held = False


class Counted(Fixture):
    w = "counted"

    def __init__(self, sub, base):
        super().__init__()
        from breezy import counted_lock
        self.disk = FakeDisk()
        self.fake = FakeLock(self.disk, self.ev, self.dev)
        self.obj = counted_lock.CountedLock(self.fake)
        self.ext = FakeLock(self.disk)

    def ext_acquire(self):
        return self.ext.lock_write()

    def ext_release(self):
        self.ext.unlock()

    def observe(self):
        c = self.obj
        return {"count": c._lock_count, "mode": c._lock_mode or "none", "bmode": "none", "locked": bool(c.is_locked()),
                "disk": self.fake.held and not self.fake.via_token and self.disk.holder == self.fake.nonce,
                "bdisk": False}


class DiskFixture(Fixture):
    """Objects whose underlying lock is a LockDir; `lockrel` is the lock directory relative to the world root."""
    lockrel = None

    def world_events(self):
        out = []
        for e in self.world.log[self.mark:]:
            if e["op"] != "rename" or e["res"] != "ok":
                continue
            if e.get("to") == self.lockrel + "/held":
                out.append("take")
            elif e["path"] == self.lockrel + "/held":
                out.append("drop")
        return out

    def before(self):
        self.mark = len(self.world.log)

    def held_on_disk(self, rel=None):
        return os.path.isdir(os.path.join(self.root, rel or self.lockrel, "held"))

    def call(self, op):
        ob = Fixture.call(self, op)
        dev = self.world_events()
        ob["dev"] = "+".join(dev) or "none"
        return ob


class Lockable(DiskFixture):
    w = "lockable"
    _n = [0]

    def __init__(self, sub, base):
        super().__init__()
        from breezy import lockdir
        from breezy.bzr import lockable_files
        self.world, self.root = base["world"], base["root"]
        Lockable._n[0] += 1
        name = "lf%d" % Lockable._n[0]
        self.dir = os.path.join(self.root, name)
        os.mkdir(self.dir)
        self.lockrel = name + "/lock"
        self.obj = lockable_files.LockableFiles(self.world.transport(name + "/"), "lock", lockdir.LockDir)
        self.obj.create_lock()
        self.wrap_lock(self.obj._lock)
        self.ext = lockable_files.LockableFiles(self.world.raw(name + "/"), "lock", lockdir.LockDir)

    def ext_acquire(self):
        return self.ext.lock_write()

    def ext_release(self):
        self.ext.unlock()

    def observe(self):
        lf = self.obj
        return {"count": lf._lock_count, "mode": lf._lock_mode or "none", "bmode": "none", "locked": bool(lf.is_locked()),
                "disk": self.held_on_disk() and not self.ext_held, "bdisk": False}

    def cleanup(self):
        Fixture.cleanup(self)
        shutil.rmtree(self.dir, ignore_errors=True)


class BranchFx(DiskFixture):
    w = "branch"
    lockrel = "t/.bzr/branch/lock"

    def __init__(self, sub, base):
        super().__init__()
        from breezy.branch import Branch
        self.world, self.root = base["world"], base["root"]
        self.obj = Branch.open(self.world.url("t/"))
        self.wrap_lock(self.obj.control_files._lock)
        self.ext = Branch.open(os.path.join(self.root, "t"))

    def token_of(self, result):
        return result.token

    def ext_acquire(self):
        return self.ext.lock_write().token

    def ext_release(self):
        self.ext.unlock()

    def observe(self):
        b = self.obj
        cf = b.control_files
        r = b.repository
        rmode = "w" if r.is_write_locked() else ("r" if r.is_locked() else "none")
        return {"count": cf._lock_count, "mode": cf._lock_mode or "none", "bmode": rmode, "locked": bool(b.is_locked()),
                "disk": self.held_on_disk() and not self.ext_held, "bdisk": False}


class RepoFx(DiskFixture):
    w = "repo"
    lockrel = "t/.bzr/repository/lock"

    def __init__(self, sub, base):
        super().__init__()
        from breezy.repository import Repository
        self.world, self.root = base["world"], base["root"]
        self.obj = Repository.open(self.world.url("t/"))
        self.wrap_lock(self.obj.control_files._lock)

    def token_of(self, result):
        return None

    def observe(self):
        r = self.obj
        cf = r.control_files
        wc = r._write_lock_count
        return {"count": wc or cf._lock_count, "mode": "w" if wc else (cf._lock_mode or "none"), "bmode": "none",
                "locked": bool(r.is_locked()), "disk": self.held_on_disk(), "bdisk": False}


class KnitRepoFx(DiskFixture):
    """breezy.repository.Repository.lock_write / lock_read / unlock (the generic implementation over control_files,
    tokens passed through) as used by a knit-format repository."""
    w = "knitrepo"
    lockrel = "k/.bzr/repository/lock"

    def __init__(self, sub, base):
        super().__init__()
        from breezy.repository import Repository
        self.world, self.root = base["world"], base["root"]
        self.obj = Repository.open(self.world.url("k/"))
        self.wrap_lock(self.obj.control_files._lock)
        self.ext = Repository.open(os.path.join(self.root, "k"))

    def token_of(self, result):
        return result.repository_token

    def ext_acquire(self):
        return self.ext.lock_write().repository_token

    def ext_release(self):
        self.ext.unlock()

    def observe(self):
        r = self.obj
        cf = r.control_files
        return {"count": cf._lock_count, "mode": cf._lock_mode or "none", "bmode": "none", "locked": bool(r.is_locked()),
                "disk": self.held_on_disk() and not self.ext_held, "bdisk": False}


class TreeFx(Fixture):
    w = "tree"

    def __init__(self, sub, base):
        super().__init__()
        from breezy.workingtree import WorkingTree
        self.root = base["root"]
        self.obj = WorkingTree.open(os.path.join(self.root, "t"))
        self.wrap_lock(self.obj._control_files._lock)

    def held(self, what):
        return os.path.isdir(os.path.join(self.root, "t/.bzr", what, "lock/held"))

    def before(self):
        self.was = self.held("checkout")

    def observe(self):
        t = self.obj
        cf = t._control_files
        bcf = t.branch.control_files
        return {"count": cf._lock_count, "mode": cf._lock_mode or "none", "bmode": bcf._lock_mode or "none",
                "locked": bool(t.is_locked()), "disk": self.held("checkout"), "bdisk": self.held("branch"),
                "_bcount": bcf._lock_count,
                "_ds": (getattr(t._dirstate, "_lock_state", None) if t._dirstate is not None else None) or "none"}

    def call(self, op):
        ob = Fixture.call(self, op)
        now = ob["disk"]
        ob["dev"] = "take" if now and not self.was else "drop" if self.was and not now else "none"
        # harness-side consistency of the two locks the tree holds besides its own (conformance detail)
        self.extra = None
        if ob.pop("_bcount") != ob["count"]:
            self.extra = "branch lock count differs from tree lock count"
        ds = ob.pop("_ds")
        if ds != ob["mode"]:
            self.extra = "dirstate lock state %r with tree mode %r" % (ds, ob["mode"])
        return ob


FIXTURES = {"counted": Counted, "lockable": Lockable, "branch": BranchFx, "repo": RepoFx, "knitrepo": KnitRepoFx,
            "tree": TreeFx}


def make_base(workdir):
    """A scratch root with a logging transport world above it; the on-disk objects are created on first use."""
    from breezy import lockdir
    lockdir._DEFAULT_TIMEOUT_SECONDS = 0
    root = os.path.join(workdir, "c28root")
    os.makedirs(root)
    world = sched.World("file://" + root + "/", significant=lambda op, path: op == "rename")
    world.transport()        # registers the decorator
    return {"root": root, "world": world, "made": set()}


DISK_OBJECT = {"branch": "t", "repo": "t", "tree": "t", "knitrepo": "k"}


def ensure_object(base, w):
    """The 2a standalone tree (t) / the knit repository (k) the wrapper lives in."""
    from breezy import controldir
    what = DISK_OBJECT.get(w)
    if what is None or what in base["made"]:
        return
    if what == "t":
        fmt = controldir.format_registry.make_controldir("2a")
        controldir.ControlDir.create_standalone_workingtree(os.path.join(base["root"], "t"), format=fmt)
    else:
        os.mkdir(os.path.join(base["root"], "k"))
        controldir.format_registry.make_controldir("knit").initialize(os.path.join(base["root"], "k")).create_repository()
    base["made"].add(what)


def execute(sub, base, w, ops):
    fx = FIXTURES[w](sub, base)
    obs = []
    try:
        for op in ops:
            ob = fx.call(op)
            obs.append(ob)
            extra = getattr(fx, "extra", None)
            if extra:
                sub.drift("%s after %s" % (extra, ops[:len(obs)]))
    finally:
        fx.cleanup()
    leftover = fx.observe()
    if leftover["locked"] or leftover["disk"] or leftover["bdisk"]:
        sub.machinery("fixture %s not clean after %s: %s" % (w, ops, leftover))
    return {"w": w, "ops": list(ops), "obs": obs}


def _replay_chunk(sub, chunk):
    """Workers replay their call sequences; on-disk objects are built on first use.  If the tree under test is so
    broken that an object cannot even be created, the sequences needing it are skipped and reported (the remaining
    wrappers are still judged; run() turns skipped sequences without any violation into a machinery failure)."""
    base = make_base(sub.workdir)
    rows, skipped, errors = [], 0, {}
    try:
        for w, ops in chunk:
            if w not in errors:
                try:
                    ensure_object(base, w)
                except Exception as e:
                    errors[w] = "%s: %s: %s" % (w, type(e).__name__, str(e)[:160])
                    for other in DISK_OBJECT:
                        if DISK_OBJECT[other] == DISK_OBJECT[w]:
                            errors.setdefault(other, errors[w])
            if w in errors:
                skipped += 1
                continue
            rows.append(execute(sub, base, w, ops))
            sub.count(1)
    finally:
        base["world"].close()
    sub.cov.setdefault("_collect", []).append({"rows": rows, "skipped": skipped, "error": "; ".join(sorted(set(errors.values()))) or None})


def random_ops(rng, w, n):
    """A call sequence chosen by the harness (not derived from the specification), with the second holder acting only
    when it can succeed (tracked with the obvious bookkeeping: who holds the on-disk lock)."""
    ops = []
    depth, mode, own_disk, adopted, ext = 0, None, False, False, False
    for _ in range(n):
        cand = list(OPS.get(w, TOK_OPS))
        if "ext_acquire" in cand:
            cand.remove("ext_acquire")
            cand.remove("ext_release")
            if not ext and not own_disk:
                cand.append("ext_acquire")
            if ext and not adopted:
                cand.append("ext_release")
        if depth == 0 and rng.random() < 0.5:
            cand = [c for c in cand if c != "unlock"] or cand
        op = rng.choice(cand)
        ops.append(op)
        # bookkeeping only to keep the second holder's calls legal
        if op == "ext_acquire":
            ext = True
        elif op == "ext_release":
            ext = False
        elif op == "unlock":
            if depth:
                depth -= 1
                if depth == 0:
                    mode, own_disk, adopted = None, False, False
        elif op == "lock_read":
            if depth == 0:
                mode = "r"
            depth += 1
        else:
            if depth == 0:
                if w in ("repo", "tree"):
                    depth, mode, own_disk = 1, "w", w == "tree"
                elif op == "lock_write" and not ext:
                    depth, mode, own_disk = 1, "w", True
                elif op == "lock_write_good" and ext:
                    depth, mode, adopted = 1, "w", True
            elif mode == "w" and op != "lock_write_bad":
                depth += 1       # (over-approximation for the tree's lock_write in tree-write mode is harmless)
    return ops


_call = re.compile(r'Call\("(\w+)"\)')
_refused_locked = re.compile(r'count \|-> [1-9].*out \|-> "(?!ok)|out \|-> "(?!ok)\w+".*count \|-> [1-9]', re.S)


def close(ops):
    """Follow a call sequence through to the end: as many unlocks as it has lock calls (reaching the matching last
    unlock whatever was refused on the way) plus one surplus unlock."""
    return list(ops) + ["unlock"] * (sum(1 for o in ops if o.startswith("lock_")) + 1)


def run(ctx):
    env.init()
    maxcalls = 8
    jobs = []
    graphs = {}
    # E1: per wrapper family the state graph of all call sequences <= 8 (invariants and action properties checked on it)
    # "branch" = the token-passing step function of counted / lockable / knitrepo plus bmode = mode (its repository's lock):
    # one graph serves the four of them (same edges, the others' bmode is constantly "none")
    for w in ("branch", "repo", "tree"):
        nodes, edges, inits, res = tlc.graph(ctx, "CountedLockMC", cfg_text=cfg(w, maxcalls, False), workers=4,
                                             label="state graph + invariants + action properties: %s" % w)
        graphs[w] = (nodes, edges, inits)
    graphs["counted"] = graphs["lockable"] = graphs["knitrepo"] = graphs["branch"]
    if not ctx.quick:
        # the same with the call sequence kept in the state: every sequence is explored separately
        for w in ("counted", "branch", "repo", "tree"):
            tlc.check(ctx, "CountedLockMC", cfg_text=cfg(w, maxcalls, True), label="all call sequences <= %d: %s" % (maxcalls, w))
    res = tlc.run(ctx, "CountedLockMC", cfg_text=cfg("counted", 4, False, WITNESSES, ()), extra=("-continue",),
                  allow_violation=True, workers=2)
    found = set(re.findall(r"Invariant (\w+) is violated", res["output"]))
    if set(WITNESSES) - found:
        ctx.machinery("vacuity guard: witnesses not reached: %s" % sorted(set(WITNESSES) - found))
    ctx.add_tlc(res, "witnesses")
    cap = 300 if ctx.quick else None
    for w in WRAPPERS:
        nodes, edges, inits = graphs[w]
        paths = list(tlc.transition_cover(nodes, edges, inits, rng=ctx.rng))
        if not paths:
            ctx.machinery("empty transition cover for %s" % w)
        total = len(paths)
        if cap and len(paths) > cap:
            # keep first the paths with calls refused while the wrapper is locked (bad-token re-lock, write-in-read)
            def refused_while_locked(p):
                return sum(1 for _, nid in p[1:] if _refused_locked.search(nodes[nid]))
            paths.sort(key=refused_while_locked, reverse=True)
            paths = paths[:cap]
        else:
            ctx.cov["exhaustive_transition_cover_" + w] = True
        ctx.cov.setdefault("graph", []).append({"wrapper": w, "nodes": len(nodes), "edges": len(edges),
                                                "cover_paths": total, "replayed": len(paths)})
        for p in paths:
            ops = []
            for act, _ in p[1:]:
                m = _call.match(act)
                if not m:
                    ctx.machinery("unexpected edge label %r" % act)
                ops.append(m.group(1))
            jobs.append((w, close(ops)))
    n_cover = len(jobs)
    # directed follow-through (both tiers, every wrapper): a call refused while locked at depth 1..3, then down to the
    # matching last unlock and one surplus unlock
    for w in WRAPPERS:
        ops_w = OPS.get(w, TOK_OPS)
        for depth in (1, 2, 3):
            for first in ("lock_write", "lock_tree_write", "lock_read"):
                if first not in ops_w:
                    continue
                for refused in ("lock_write_bad", "lock_write", "lock_write_good", "lock_tree_write"):
                    if refused not in ops_w:
                        continue
                    for reps in (1, 2):
                        jobs.append((w, close([first] * depth + [refused] * reps)))
                        jobs.append((w, close([first] * depth + [refused] * reps + [first])))
    n_directed = len(jobs) - n_cover
    # E3: call sequences chosen by the harness, longer than the model-checked bound
    for w in WRAPPERS:
        for _ in range(40 if ctx.quick else 400):
            jobs.append((w, close(random_ops(ctx.rng, w, ctx.rng.randint(9, 30)))))
    core.fork_map(ctx, _replay_chunk, jobs)
    rows = [r for x in ctx.collected for r in x["rows"]]
    skipped = sum(x["skipped"] for x in ctx.collected)
    fixture_errors = sorted({x["error"] for x in ctx.collected if x["error"]})
    if len(rows) + skipped != len(jobs):
        ctx.machinery("replayed %d (+%d skipped) of %d call sequences" % (len(rows), skipped, len(jobs)))
    for r in rows:
        if any(o["out"] != "ok" for o in r["obs"]) or max(o["count"] for o in r["obs"]) >= 2:
            ctx.nontrivial((r["w"], tuple(r["ops"])))
    for w in ("branch", "tree"):
        smp = next((r for r in rows if r["w"] == w and len(r["ops"]) >= 6), None)
        if smp is not None:
            ctx.sample(smp)
    ctx.rule("call sequences = transition cover (every edge) of TLC's state graph of CountedLockMC with MaxCalls=%d per "
             "wrapper variant (%d sequences%s), %d directed sequences (a call refused while locked at depth 1..3) and %d "
             "harness-chosen random sequences of 9..30 calls, every sequence followed through with as many unlocks as it has "
             "lock calls plus one surplus unlock; each executed on a fresh real object; non-trivial = contains a refused call or nesting depth >= 2"
             % (maxcalls, n_cover, ", capped at %d per wrapper, refused-while-locked first" % cap if cap else "", n_directed,
                len(jobs) - n_cover - n_directed))
    corrupted = selftest_rows(ctx, rows, tolerant=bool(skipped))
    for off in range(0, len(rows), 20000):
        part = rows[off:off + 20000]
        extra = [{k: v for k, v in c[0].items() if k != "_src"} for c in corrupted] if off == 0 else []
        fin = os.path.join(ctx.workdir, "c28judge.json")
        with open(fin, "w") as f:
            json.dump(part + extra, f)
        data, _ = tlc.json_cases(ctx, "CountedLockTrace", cfg_text=table.cfg(None), env={"VF_IN": fin}, workers=2,
                                 label="CountedLockTrace (+%d self-test rows)" % len(extra))
        os.unlink(fin)
        if data["n"] != len(part) + len(extra):
            ctx.machinery("trace module consumed %s of %d rows" % (data["n"], len(part) + len(extra)))
        ctx.count(0, traces=len(part))
        flagged, bad_src = {}, {b["row"] - 1 for b in data["bad"]}
        for b in data["bad"]:
            if b["row"] > len(part):
                flagged[b["row"] - len(part)] = {f[0] for f in b["failed"]}
                continue
            row = part[b["row"] - 1]
            for clause, op, premode in b["failed"]:
                ctx.violation("%s:%s.%s:pre-mode=%s" % (clause, row["w"], op, premode),
                              "clause %s fails for %s at call %d of %s: observations %s" % (
                                  clause, row["w"], b["at"], row["ops"], row["obs"][:b["at"]]), row)
            if not b["failed"]:
                ctx.drift("%s differs from the specification at call %d of %s: %s" % (
                    row["w"], b["at"], row["ops"], row["obs"][b["at"] - 1]), row)
        # binding self-test: the corrupted observations must be flagged with the right clause
        for i, (cr, clause) in enumerate(extra and corrupted):
            if cr["_src"] in bad_src:
                continue        # the source observation itself deviates (reported above); nothing to learn from corrupting it
            if clause not in flagged.get(i + 1, set()):
                ctx.machinery("binding self-test: corrupted row %d not flagged as %s (got %s)" % (i + 1, clause, flagged.get(i + 1)))
    if skipped:
        ctx.drift("%d call sequences skipped: the on-disk fixture (2a tree / knit repository) could not be built: %s" % (
            skipped, fixture_errors))
        if not ctx.violations:
            ctx.machinery("on-disk fixture could not be built and no violation explains it: %s" % fixture_errors)


def selftest_rows(ctx, rows, tolerant=False):
    """Corrupted copies of real observations (binding self-test)."""
    def pick(pred):
        for idx, r in enumerate(rows[:20000]):
            for k, (op, o) in enumerate(zip(r["ops"], r["obs"])):
                if pred(r, k, op, o):
                    c = json.loads(json.dumps(r))
                    c["_src"] = idx
                    return c, k
        if tolerant:
            return None, None
        ctx.machinery("self-test: no suitable row")
    bad = []

    def add(pred, corrupt, clause):
        r, k = pick(pred)
        if r is not None:
            corrupt(r["obs"][k])
            bad.append((r, clause))
    add(lambda r, k, op, o: o["ev"] == "acqW" and r["w"] == "branch", lambda o: o.update(ev="none"), "phys")
    add(lambda r, k, op, o: o["ev"] == "rel" and r["w"] == "lockable",
        lambda o: o.update(dev="none" if o["dev"] == "drop" else "drop"), "phys")
    add(lambda r, k, op, o: o["out"] == "LockNotHeld", lambda o: o.update(out="ok"), "extra_unlock")
    add(lambda r, k, op, o: o["out"] == "ReadOnlyError" and o["mode"] == "r", lambda o: o.update(count=o["count"] + 1),
        "write_in_read")
    return bad
