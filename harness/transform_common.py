"""Shared by C13 / C14: on-disk bzr 2a and git working-tree fixtures, projections, the counter-based fault injector
for the file-system calls of TreeTransform.apply(), and the TLC judge call."""
import json
import os
import shutil
import time

from vf import tlc

FLAVOURS = {"bzr": "2a", "git": "git"}
CTL = {"bzr": ".bzr", "git": ".git"}


def tag(c, t):
    return ("%s-%s\n" % (c, t)).encode()


def untag(b):
    s = b.decode("utf-8", "replace").strip()
    c, _, t = s.partition("-")
    return (c, t) if c in ("old", "new") and t else ("?", s[:20])


def make_base(workdir, flavour, tree):
    """A committed working tree holding `tree` = {tid: {"path": [names], "kind": kind[, "x": executable]}}; file content = tag("old", tid)."""
    from breezy import controldir
    p = os.path.join(workdir, "base_" + flavour)
    wt = controldir.ControlDir.create_standalone_workingtree(
        p, format=controldir.format_registry.make_controldir(FLAVOURS[flavour]))
    paths = []
    for t, e in sorted(tree.items(), key=lambda kv: len(kv[1]["path"])):
        rel = "/".join(e["path"])
        if e["kind"] == "directory":
            os.mkdir(os.path.join(p, rel))
        else:
            with open(os.path.join(p, rel), "wb") as f:
                f.write(tag("old", t))
            if e.get("x"):
                os.chmod(os.path.join(p, rel), 0o755)
        paths.append(rel)
    wt.add(paths)
    wt.commit("base")
    return p


def fresh(base, dest):
    if os.path.exists(dest):
        shutil.rmtree(dest)
    shutil.copytree(base, dest, symlinks=True)
    return dest


def disk_obs(root):
    """[{path: [names], kind, c, t}] of everything below root outside the control directory."""
    out = []
    for d, dirs, files in os.walk(root):
        if d == root:
            dirs[:] = [x for x in dirs if x not in (".bzr", ".git")]
        for n in dirs:
            full = os.path.join(d, n)
            rel = os.path.relpath(full, root).split(os.sep)
            if os.path.islink(full):
                out.append({"path": rel, "kind": "symlink", "c": "", "t": ""})
            else:
                out.append({"path": rel, "kind": "directory", "c": "", "t": ""})
        for n in files:
            full = os.path.join(d, n)
            rel = os.path.relpath(full, root).split(os.sep)
            if os.path.islink(full):
                out.append({"path": rel, "kind": "symlink", "c": "", "t": ""})
                continue
            with open(full, "rb") as f:
                c, t = untag(f.read())
            out.append({"path": rel, "kind": "file", "c": c, "t": t})
    return sorted(out, key=lambda e: e["path"])


def ver_obs(root):
    """[{path, kind}] of the versioned paths a re-opened working tree reports (root excluded)."""
    from breezy.workingtree import WorkingTree
    wt = WorkingTree.open(root)
    out = []
    with wt.lock_read():
        for p in sorted(x for x in wt.all_versioned_paths() if x):
            out.append({"path": p.split("/"), "kind": wt.stored_kind(p)})
    return out


def leftovers(root, flavour):
    """names of non-empty limbo / pending-deletion directories"""
    from breezy.workingtree import WorkingTree
    ctl = WorkingTree.open(root)._transport.local_abspath(".")
    left = {}
    for n in ("limbo", "pending-deletion"):
        d = os.path.join(ctl, n)
        if os.path.isdir(d):
            l = sorted(os.listdir(d))
            if l:
                left[n] = l
    return left


class Inject:
    """Counts the file-system calls made while apply() runs and makes the k-th raise OSError(EIO).

    Call sites (breezy/transform.py): _FileMover.rename -> os.rename; _FileMover.apply_deletions -> delete_any (the
    name imported into breezy.transform; implemented in Rust); DiskTreeTransform.finalize -> osutils.delete_any.
    os.unlink / os.rmdir / os.mkdir / os.symlink are counted too should apply() start using them.  Calls made by
    _FileMover.rollback are not counted (single-fault model).  The metadata update (tree.apply_inventory_delta /
    tree._apply_index_changes) is one more fault point, outside the numbering."""

    def __init__(self, k, root, tree=None, meta_method=None, meta_fault=False):
        """tree / meta_method: the working tree object the transform updates and the name of its metadata-update method
        (apply_inventory_delta / _apply_index_changes): the call is logged (not counted) and raises when meta_fault."""
        self.k, self.root, self.n, self.log, self.fault = k, root, 0, [], None
        self.tree, self.meta_method, self.meta_fault = tree, meta_method, meta_fault
        self.in_rollback = False
        self.rolled_back = False

    def _phase(self, what, args):
        if what == "rename":
            src = args[0]
            return "insertion" if "/limbo/" in src or src.endswith("/limbo") else "removal"
        return {"pending-delete": "deletion", "cleanup-delete": "cleanup"}.get(what, "other-" + what)

    def hit(self, what, *args):
        if self.in_rollback:
            return
        self.n += 1
        rel = tuple(os.path.relpath(a, self.root) if isinstance(a, str) and a.startswith("/") else a for a in args)
        self.log.append((what,) + rel)
        if self.n == self.k:
            self.fault = (self._phase(what, [a for a in args if isinstance(a, str)]), what) + rel
            raise OSError(5, "injected fault")

    def __enter__(self):
        import breezy.transform as bt
        from breezy import osutils
        inj = self
        self._saved = [(os, "rename", os.rename), (os, "unlink", os.unlink), (os, "rmdir", os.rmdir), (os, "mkdir", os.mkdir),
                       (os, "symlink", os.symlink), (bt, "delete_any", bt.delete_any), (osutils, "delete_any", osutils.delete_any),
                       (bt._FileMover, "rollback", bt._FileMover.rollback)]

        def wrap(name, fn):
            def w(*a, **kw):
                inj.hit(name, *a)
                return fn(*a, **kw)
            return w

        for mod, name, fn in self._saved[:5]:
            setattr(mod, name, wrap(name, fn))
        bt.delete_any = wrap("pending-delete", self._saved[5][2])
        osutils.delete_any = wrap("cleanup-delete", self._saved[6][2])
        orig_rb = self._saved[7][2]

        def rollback(mover):
            inj.in_rollback = inj.rolled_back = True
            try:
                return orig_rb(mover)
            finally:
                inj.in_rollback = False
        bt._FileMover.rollback = rollback
        if self.tree is not None:
            orig_meta = getattr(self.tree, self.meta_method)

            def meta(*a, **kw):
                inj.log.append(("metadata-update",))
                if inj.meta_fault:
                    inj.fault = ("metadata", "metadata-update")
                    raise OSError(5, "injected fault")
                return orig_meta(*a, **kw)
            setattr(self.tree, self.meta_method, meta)        # instance attribute, shadows the method
        return self

    def __exit__(self, *a):
        for mod, name, fn in self._saved:
            setattr(mod, name, fn)
        if self.tree is not None:
            delattr(self.tree, self.meta_method)


def judge(ctx, module, rows, cfg_text, chunk=4000, label=None):
    """rows -> TLC Trace module (JsonDeserialize(IOEnv.VF_IN)) -> [(row, verdict_record)] for the rows it flags."""
    bad = []
    for off in range(0, len(rows), chunk):
        part = rows[off:off + chunk]
        fin = os.path.join(ctx.workdir, "rows_%d.json" % int(time.time() * 1e6))
        with open(fin, "w") as f:
            json.dump(part, f)
        data, res = tlc.json_cases(ctx, module, cfg_text=cfg_text, env={"VF_IN": fin}, label=label or module, workers=1)
        os.unlink(fin)
        if data["n"] != len(part):
            ctx.machinery("trace module consumed %s of %d rows" % (data["n"], len(part)))
        for b in data["bad"]:
            bad.append((part[b["row"] - 1], b))
        ctx.count(0, traces=len(part))
    return bad
