"""C44 — fast-export followed by fast-import preserves history."""
import contextlib
import io
import os
import shutil
import tempfile

from vf import env, core
from harness import channel_common as cc

META = dict(
    property_id="C44", level="model_checking", design_ref="DESIGN.md §4 C44",
    technique="TLA+ specification of lossy history channels as the identity on an abstract projection (HistoryChannel: "
              "abstract trees, DropEmptyDirs, id-free Projection/Unfold, law FastRoundTrip clause by clause), model-checked "
              "by TLC on a generated universe of histories; the TLC-generated histories are materialised as real 2a branches, "
              "exported with the real BzrFastExporter to a byte stream and imported with the real GenericProcessor into an "
              "empty 2a repository; the projection of the imported repository is judged by TLC with the same law text",
    level_text="TLC checks on every reachable state of the generator (exhaustive for small constants, random walks for the "
               "larger ones) that the projection (number of revisions, unfolded graph with ordered parents, trees, messages, "
               "committers, timestamps + timezones, tags) is independent of revision numbers and file ids, that the ideal "
               "channel satisfies every clause, that the clause-wise law equals Projection(imported) = Projection(source), and "
               "that channels which drop an executable bit, exchange merge parents, add a revision or move a tag are "
               "rejected. The implementation is bound by replaying every generated history through the real exporter and "
               "importer and letting TLC evaluate the clauses on what was observed. Bounded small-scope exploration of an "
               "unbounded input space, hence model_checking level.",
    level_note="Histories <= 4 (quick) / 5 (thorough) revisions over <= 10 paths (depth 2; a non-ASCII name, names with a space, "
               "every fourth history a one-character name), files / symlinks / directories, executable bits, renames (also of "
               "directories, swaps, rename onto a freed path), kind changes, deletions, pointless commits, merges (<= 3 parents "
               "in thorough), several roots, tags, committers with and without e-mail part and non-ASCII, multi-line / empty / "
               "non-ASCII messages, whole-second timestamps (the stream format has no fractions), timezones incl. negative "
               "non-whole-hour offsets; every fifth history carries the branch-nick revision property of an ordinary commit. "
               "Trees are compared after DropEmptyDirs (the stream is git's format; the importer prunes directories that "
               "become empty); empty-directory differences are counted in the evidence, not judged. Exporter in rich and "
               "--plain mode by history index; the importer as `brz fast-import` constructs it. Violation signatures name the "
               "family of the delta-debugged minimal failing history (harness/channel_common.py cause_group); the python twin "
               "of the law used for shrinking must agree with TLC on every row (else drift). Trusted: TLC, the JSON bridge, "
               "CommitBuilder (fixture re-read and compared), the python-fastimport parser.",
)

VARIANTS = (("rich", False, True), ("plain", True, True))


def run_fast(ctx, h, idx, root):
    """One history through exporter and importer; a failing one (python twin of the law) is minimised for its signature."""
    names, variant, props = cc.names_of(idx), idx % len(VARIANTS), props_of(idx)
    row = fast_once(ctx, h, idx, root, names, variant, props)
    row["pyfail"] = kind_of(row)
    row["props"] = bool(props)
    if row["pyfail"] is not None:
        row["min"], row["cls"], row["min_runs"] = cc.minimise_row(
            h, kind_of, lambda c, nm: fast_once(ctx, c, idx, root, nm, variant, props), names)
        if VARIANTS[variant][0] != "rich" and kind_of(fast_once(ctx, row["min"], idx, root, names, 0, None)) is None:
            row["cls"] += "+" + VARIANTS[variant][0]             # needs the --plain stream (which carries no properties)
        if props and kind_of(fast_once(ctx, row["min"], idx, root, names, variant, None)) is None:
            row["cls"] += "+revision-property"                   # needs a revision property (every `brz commit` sets one)
    return row


NICK = {"branch-nick": "trunk"}


def props_of(idx):
    """Every fifth history carries the revision property an ordinary commit records (concretisation choice, like the
    names): the properties' projection does not contain revision properties, but real histories do."""
    return NICK if idx % 5 == 4 else None


def kind_of(row):
    return cc.py_failed(row["c"], row["o"])


IMPORT_CPU, IMPORT_MEMORY, IMPORT_WALL = 120, 2 << 30, 1800
HANG = {"ok": False, "exc": "Hang", "site": "fastimport:unbounded-allocation", "stage": "import",
        "emsg": "import did not finish within %d s of CPU time / %d MB of address space" % (IMPORT_CPU, IMPORT_MEMORY >> 20)}


def guarded(fn):
    """Run fn() in a forked child with an address-space limit and a CPU-time limit and return its (picklable) result.
    An import that does not terminate (an inventory delta that creates a parent cycle makes the compiled CHKInventory
    code append to a list for ever, un-interruptibly and at ~60 MB/s) must become an observation, not a dead worker.
    The limits are on the child's own CPU time and memory, never on wall-clock time: a loaded machine must not turn a
    slow import into a "hang" (a wall-clock limit did exactly that when six checks ran at once).  The wall-clock
    backstop is a machinery failure, not an observation."""
    import pickle
    import resource
    import select
    import signal
    import time as _time
    r, w = os.pipe()
    pid = os.fork()
    if pid == 0:
        code = 0
        try:
            os.close(r)
            resource.setrlimit(resource.RLIMIT_AS, (IMPORT_MEMORY, IMPORT_MEMORY))
            resource.setrlimit(resource.RLIMIT_CPU, (IMPORT_CPU, IMPORT_CPU + 5))
            try:
                out = fn()
            except MemoryError:
                out = HANG
            if isinstance(out, dict) and out.get("exc") == "MemoryError":
                out = HANG
            data = pickle.dumps(out)
            while data:
                data = data[os.write(w, data):]
        except BaseException:  # noqa
            code = 1
        finally:
            os._exit(code)
    os.close(w)
    chunks, deadline = [], _time.time() + IMPORT_WALL
    try:
        while True:
            left = deadline - _time.time()
            if left <= 0:
                os.kill(pid, signal.SIGKILL)
                chunks = None
                break
            if select.select([r], [], [], min(left, 1.0))[0]:
                b = os.read(r, 1 << 16)
                if not b:
                    break
                chunks.append(b)
    finally:
        os.close(r)
        _, status = os.waitpid(pid, 0)
    if chunks is None:
        raise core.MachineryError("an import child made no progress for %d s of wall-clock time" % IMPORT_WALL)
    if chunks:
        try:
            return pickle.loads(b"".join(chunks))
        except Exception:  # noqa
            pass
    if os.WIFSIGNALED(status) and os.WTERMSIG(status) in (signal.SIGXCPU, signal.SIGKILL, signal.SIGABRT, signal.SIGSEGV):
        return dict(HANG)        # CPU limit reached, or the allocator gave up at the address-space limit
    raise core.MachineryError("an import child ended without a result (wait status %r)" % (status,))


def fast_once(ctx, h, idx, root, names, variant, props=None):
    from breezy import branch as B
    from breezy.plugins.fastimport import exporter
    from breezy.plugins.fastimport.processors import generic_processor
    from fastimport import parser
    cc.set_names(names)
    name, plain, prune = VARIANTS[variant]
    work = tempfile.mkdtemp(prefix="c44-", dir=root)
    o, stream = None, b""
    try:
        b = cc.materialise(ctx, h, os.path.join(work, "src"), props)
        try:
            out = io.BytesIO()
            exporter.BzrFastExporter(b, out, ref=b"refs/heads/master", plain_format=plain).run()
            stream = out.getvalue()
        except Exception as e:  # noqa
            o = dict(cc.failure(e), stage="export")
        if o is None:
            def do_import():
                try:
                    nb = cc.new_branch(os.path.join(work, "dst"))
                    proc = generic_processor.GenericProcessor(nb.controldir, params=None, prune_empty_dirs=prune)
                    with contextlib.redirect_stdout(io.StringIO()):          # the importer prints "ABORT: ..." on errors
                        proc.process(parser.ImportParser(io.BytesIO(stream)).iter_commands)
                    nb = B.Branch.open(os.path.join(work, "dst"))
                    tip = nb.last_revision()
                    if tip == b"null:":
                        return {"ok": False, "exc": "NoTip", "site": "generic_processor", "emsg": "imported branch is empty",
                                "stage": "import"}
                    return cc.observe(nb.repository, tip, nb.tags.get_tag_dict())
                except Exception as e:  # noqa
                    return dict(cc.failure(e), stage="import")
            o = guarded(do_import)
    finally:
        shutil.rmtree(work, ignore_errors=True)
    return {"kind": "fast", "c": h, "o": o, "idx": idx, "variant": name,
            "diag": {"stream": stream.decode("utf-8", "replace")[-6000:]}}


def replay_chunk(sub, chunk):
    root = cc.scratch_root() or sub.workdir
    rows = []
    for idx, h in chunk:
        rows.append(run_fast(sub, h, idx, root))
        sub.count(1)
    sub.cov.setdefault("_collect", []).extend(rows)


def meta_signature(h, o, field):
    """Which values of a metadata field did not survive (by abstract index), for the signature."""
    want = sorted(m[field] for m in h["M"])
    got = sorted(m[field] for m in o["M"])
    lost = sorted(set(want) - set(got)) or sorted(set(got) - set(want))
    return ",".join(map(str, lost)) or "position"


def run(ctx):
    env.init()
    cc.preload()
    import breezy.plugins.fastimport.exporter  # noqa: F401
    import breezy.plugins.fastimport.processors.generic_processor  # noqa: F401
    import fastimport.parser  # noqa: F401
    cc.quiet()
    q = ctx.quick
    hs = cc.universe(ctx, nsmall=25 if q else 250, nlarge=50 if q else 900, max_revs=4 if q else 5)
    items = list(enumerate(hs))
    core.fork_map(ctx, replay_chunk, items)
    rows = ctx.collected
    if len(rows) != len(items):
        ctx.machinery("replayed %d of %d histories" % (len(rows), len(items)))
    feats = {}
    for r in rows:
        for x in cc.features(r["c"]):
            feats[x] = feats.get(x, 0) + 1
        if len(r["c"]["P"]) > 1 or len(r["c"]["T"][0]) > 1:
            ctx.nontrivial((r["variant"], cc.hkey(r["c"])))
    for x in ("merge", "emptydir", "symlink", "exec", "rename", "kindchange", "chmod", "delete", "tags"):
        if not feats.get(x):
            ctx.machinery("no replayed history has the feature %r" % x)
    if not q and not feats.get("dirrename"):                   # (rare in small samples; the quick tier has a run for it)
        ctx.machinery("no replayed history renames a directory")
    ctx.cov["features"] = feats
    ctx.cov["histories"] = len(hs)
    for r in (rows[0], rows[len(rows) // 2], rows[-1]):
        ctx.sample({"variant": r["variant"], "c": r["c"], "o": cc.lean(r["o"])})
    ctx.rule("histories = final states of TLC random walks of HistoryChannelGen (every revision graph of the bound is an "
             "initial state; small constants: 3 paths, <= 3 revisions; large: 10 paths, 4 contents, <= 3 edits per commit, "
             "merges, roots, tags, <= %d revisions) after TLC checked the in-spec laws exhaustively on the small universes; "
             "every history goes through the exporter (rich / --plain by index) and the importer; "
             "non-trivial = more than one revision or more than one path; distinct = (variant, history)" % (4 if q else 5))
    ctx.assume("trees are compared after DropEmptyDirs: the stream format is git's and the importer prunes directories that "
               "become empty; the property lists paths, contents, executable bits and symlinks")
    ctx.assume("timestamps are whole seconds (the stream format carries no fractions)")
    bad = cc.judge(ctx, rows)
    emptydirs = 0
    judged_bad = set()
    for row, failed, drifts, notes in bad:
        h, o = row["c"], row["o"]
        if "emptydirs" in notes:
            emptydirs += 1
        if not failed:
            continue
        judged_bad.add(row["idx"])
        fine = row.get("cls") or ("unminimised-" + ("merge" if any(len(ps) > 1 for ps in h["P"]) else "linear"))
        cls = cc.cause_group(row["min"], fine) if row.get("min") else fine
        rep = dict(cc.lean(row), stream=row["diag"]["stream"], raw=o.get("raw"), minimal=row.get("min"))
        where = "variant %s, class %s, minimal failing history %s, found in %s" % (
            row["variant"], fine, cc.hkey(row.get("min") or h), cc.hkey(h))
        if cls in ("second-root", "revision-property"):
            ctx.violation(cls, "fast-export | fast-import: %s (%s)" % (
                "import fails with %s: %s" % (o["exc"], o.get("emsg")) if not o["ok"] else
                "clauses %s fail, imported graph %s, source graph %s" % (sorted(failed), o["P"], h["P"]), where), rep)
        elif not o["ok"]:
            ctx.violation("%s:%s:%s@%s" % (cls, o.get("stage"), o["exc"], o["site"]),
                          "fast-%s fails with %s: %s (%s)" % (o.get("stage"), o["exc"], o.get("emsg"), where), rep)
        elif {"count", "shape", "left"} & set(failed):
            ctx.violation("%s:graph" % cls,
                          "imported revision graph is %s (%d revisions in the repository), source graph is %s; failing "
                          "clauses %s (%s)" % (o["P"], o["nrevs"], h["P"], sorted(failed), where), rep)
        elif "trees" in failed:
            _, desc = cc.tree_signature(h, o)
            ctx.violation("%s:trees" % cls, "imported tree differs: %s (%s)" % (desc, where), rep)
        else:
            for clause, fields in (("message", ("msg",)), ("committer", ("who",)), ("time", ("ts", "tz"))):
                if clause in failed:
                    ctx.violation("%s:%s" % (clause, ";".join("%s=%s" % (f, meta_signature(h, o, f)) for f in fields)),
                                  "imported %s differs: %s -> %s (%s)" % (clause, h["M"], o.get("raw"), where), rep)
            if "tags" in failed and not ({"message", "committer", "time"} & set(failed)):
                ctx.violation("%s:tags" % cls, "imported tags are %s, source tags are %s (%s)" % (o["tags"], h["tags"], where), rep)
    for r in rows:                                             # the python twin only serves minimisation; it must agree
        if (r["pyfail"] is not None) != (r["idx"] in judged_bad):
            ctx.drift("python twin of the law (%s) and TLC (%s) disagree on history %s" % (
                r["pyfail"], r["idx"] in judged_bad, cc.hkey(r["c"])), cc.lean(r))
    ctx.cov["histories_with_empty_directory_differences"] = emptydirs
    ctx.cov["minimisation_runs"] = sum(r.get("min_runs", 0) for r in rows)


def replay(ctx, rep):
    """./check C44 --replay FILE: run the recorded (minimal, else original) history again and let TLC judge it."""
    import json
    env.init()
    cc.preload()
    cc.quiet()
    row = rep["replay"]
    h = row.get("minimal") or row["c"]
    idx = row.get("idx", 0)
    now = fast_once(ctx, h, idx, cc.scratch_root() or ctx.workdir, cc.names_of(idx), idx % len(VARIANTS), props_of(idx))
    print(json.dumps({"history": h, "variant": now["variant"], "observed_now": cc.lean(now["o"]),
                      "error": {k: now["o"].get(k) for k in ("stage", "exc", "site", "emsg")}}, indent=1))
    print(now["diag"]["stream"])
    for _, failed, drifts, notes in cc.judge(ctx, [now]):
        for f in failed:
            ctx.violation("replay:" + f, "clause %s fails on replay" % f, cc.lean(now))
