"""C16 — uncommit undoes commit."""
import hashlib
import json
import os
import shutil

from vf import env, tlc, table, core, world

META = dict(
    property_id="C16", level="model_checking", design_ref="DESIGN.md §4 C16",
    technique="TLA+ transcription of commit / uncommit() (left-hand walk collecting merged parents, head filter of "
              "set_parent_ids, tag removal over find_unique_ancestors) model-checked by TLC against the declaratively "
              "stated laws of C16 over all bounded histories; TLC-enumerated cases and behaviours replayed on real "
              "on-disk 2a working trees (standalone and bound), recorded observations judged by the same TLA+ laws",
    level_text="TLC enumerates every revision graph up to 5 (thorough: 6) revisions with merges, every working tree on it "
               "(tip + pending merges), every uncommit depth 1..3, keep_tags or not, standalone or bound, and proves on "
               "the transcription: new tip = requested left-hand ancestor, revno, re-recorded pending merges = heads of "
               "(new tip, old pending, merged parents of removed revisions), tags into the removed region dropped and "
               "no other, master follows, and Commit . Uncommit(1) = identity; a state-machine run checks the same laws "
               "along arbitrary Commit / Uncommit sequences. A sample of the cases plus TLC-simulated behaviours are "
               "executed through the real WorkingTree.commit / breezy.uncommit.uncommit (Rust remove_tags) and the "
               "observed tip, revno, tree parents, tags, master record, working-file digest and iter_changes digest are "
               "judged by TLC with the same law text.",
    level_note="Graphs without ghosts; revision trees are BranchBuilder snapshots, pending merges are recorded with "
               "set_parent_ids (no merged file content). The order of re-recorded pending merges is compared with the "
               "transcription as drift only. On a null new tip the tree's first parent is never head-filtered, so the law "
               "there is reachability-equivalence. Trusted: TLC, the JSON bridge, BranchBuilder.",
)

MC_INV = ("TreeWellFormed", "RevnoConsistent", "LawsHold", "InverseHolds")


def mc_cfg(initrev, maxrev, maxpar, tagnames, guarded, invariants):
    return ("SPECIFICATION Spec\nCONSTANTS\n  InitRev = %d\n  MaxRev = %d\n  MaxPar = %d\n  MaxN = 3\n  TagNames = {%s}\n"
            "  Guarded = %s\n" % (initrev, maxrev, maxpar, ", ".join('"%s"' % t for t in tagnames),
                                  "TRUE" if guarded else "FALSE")
            + "".join("INVARIANT %s\n" % i for i in invariants))


# ----------------------------------------------------------------------------- real world
def rev_id(n):
    return b"null:" if n == 0 else (b"ghost99" if n == 99 else b"r%d" % n)


def rev_num(r):
    if r in (b"null:", None):
        return 0
    if r == b"ghost99":
        return 99
    if r.startswith(b"r") and r[1:].isdigit():
        return int(r[1:])
    return 98


def build_graph(P):
    """Materialise graph P (P[i] = parents of revision i + 1; several roots allowed) as an in-memory 2a branch with
    BranchBuilder: every revision rewrites file 'f' and adds a file of its own, roots start from an empty tree."""
    from breezy.tests import branchbuilder
    from breezy import transport as T
    from dromedary import memory
    srv = memory.MemoryServer()
    srv.start_server()
    bb = branchbuilder.BranchBuilder(T.get_transport(srv.get_url()), format="2a")
    bb.start_series()
    for i, ps in enumerate(P, 1):
        own = ("f_r%d" % i, b"id-f_r%d" % i, "file", b"own r%d\n" % i)
        if ps:
            actions = [("modify", ("f", b"content of r%d\n" % i)), ("add", own)]
        else:
            actions = [("add", ("", b"root-id", "directory", None)),
                       ("add", ("f", b"id-f", "file", b"content of r%d\n" % i)), ("add", own)]
        bb.build_snapshot([rev_id(p) for p in ps], actions, revision_id=rev_id(i), timestamp=1000000000 + i,
                          committer="C <c@e.com>", message="msg r%d" % i)
    bb.finish_series()
    return bb.get_branch(), srv


class quiet_stderr:
    """a Rust panic inside uncommit prints its message (and backtrace) on fd 2: keep the check's output readable"""

    def __enter__(self):
        self.saved = os.dup(2)
        self.null = os.open(os.devnull, os.O_WRONLY)
        os.dup2(self.null, 2)

    def __exit__(self, *a):
        os.dup2(self.saved, 2)
        os.close(self.saved)
        os.close(self.null)


class Real:
    """One real world: an in-memory master holding graph P, a heavyweight checkout of it on disk (unbound for the
    standalone cases) at `tip` with pending merges, tags, and a dirty working tree."""

    def __init__(self, c, base):
        from breezy.workingtree import WorkingTree  # noqa
        self.c = c
        self.path = base
        P = c["P"]
        self.master, self.srv = build_graph(P) if P else world.memory_branch()
        self.nrev = len(P)
        with self.master.lock_write():
            self.master.set_last_revision_info(c["revno"], rev_id(c["tip"]))
        wt = self.master.create_checkout(base, lightweight=False)
        self.master_url = self.master.base
        wt.branch.repository.fetch(self.master.repository)
        if c["wtp"]:
            wt.set_parent_ids([rev_id(r) for r in c["wtp"]])
        if not c["bound"]:
            wt.branch.unbind()
        with wt.branch.lock_write():
            for t in c["tags"]:
                wt.branch.tags.set_tag(t["name"], rev_id(t["rev"]))
        # a dirty tree: a modified file, a new versioned file, an unversioned file
        if os.path.exists(os.path.join(base, "f")):
            with open(os.path.join(base, "f"), "a") as f:
                f.write("local change\n")
        with open(os.path.join(base, "w"), "w") as f:
            f.write("new file\n")
        wt.add(["w"])
        with open(os.path.join(base, "junk"), "w") as f:
            f.write("unversioned\n")

    def observe(self, exc=""):
        from breezy.workingtree import WorkingTree
        from breezy.branch import Branch
        wt = WorkingTree.open(self.path)
        with wt.lock_read():
            revno, tip = wt.branch.last_revision_info()
            parents = wt.get_parent_ids()
            tags = wt.branch.tags.get_tag_dict()
            basis = wt.basis_tree()
            with basis.lock_read():
                ch = sorted(json.dumps([list(x.path), bool(x.changed_content), list(x.versioned), list(x.kind),
                                        list(x.executable)]) for x in wt.iter_changes(basis))
            np = []
            if tip != b"null:":
                np = [rev_num(p) for p in wt.branch.repository.get_revision(tip).parent_ids]
        o = {"tip": rev_num(tip), "revno": revno, "wtp": [rev_num(p) for p in parents],
             "tags": [{"name": k, "rev": rev_num(v)} for k, v in sorted(tags.items())],
             "mtip": 0, "mrevno": 0, "np": np, "exc": exc,
             "files": hashlib.sha1(json.dumps(world.disk_proj(self.path), sort_keys=True).encode()).hexdigest()[:16],
             "changes": hashlib.sha1("\n".join(ch).encode()).hexdigest()[:16], "nchanges": len(ch), "mtags": -1}
        if self.c["bound"]:
            m = Branch.open(self.master_url)
            mrevno, mtip = m.last_revision_info()
            o["mtip"], o["mrevno"] = rev_num(mtip), mrevno
            o["mtags"] = int(m.tags.get_tag_dict() == tags)
        return o

    def act(self, a):
        from breezy.workingtree import WorkingTree
        from breezy.uncommit import uncommit
        wt = WorkingTree.open(self.path)
        if a["op"] == "commit":
            self.nrev += 1
            wt.commit("commit r%d" % self.nrev, rev_id=b"r%d" % self.nrev)
        else:
            from breezy.branch import Branch
            revno = wt.branch.revno()
            kw = {}
            if a["n"] != 1 or a["keep"] or not a.get("tree", True):
                kw = dict(revno=revno - a["n"] + 1, keep_tags=a["keep"])                    # as cmd_uncommit calls it
            if not a.get("tree", True):
                target, tree = Branch.open(self.path), None                                # a branch without (knowledge of) a tree
            else:
                target, tree = wt.branch, wt
            if a.get("refuse"):
                from breezy import errors
                mbase = self.master.base

                def refuse(params):
                    if params.branch.base == mbase:
                        raise errors.TipChangeRejected("the master does not take this tip")
                Branch.hooks.install_named_hook("pre_change_branch_tip", refuse, "vf-c16-refuse")
                try:
                    uncommit(target, tree=tree, **kw)
                finally:
                    Branch.hooks.uninstall_named_hook("pre_change_branch_tip", "vf-c16-refuse")
            else:
                uncommit(target, tree=tree, **kw)

    def close(self):
        shutil.rmtree(self.path, ignore_errors=True)
        self.srv.stop_server()


def execute(c, base):
    """Run the behaviour c['acts'] on a fresh real world; returns the observations (initial one first)."""
    w = Real(c, base)
    try:
        obs = [w.observe()]
        dead = False
        for a in c["acts"]:
            exc = ""
            if dead:
                exc = "skipped"
            else:
                try:
                    with quiet_stderr():
                        w.act(a)
                except (KeyboardInterrupt, SystemExit):
                    raise
                except BaseException as e:      # noqa - pyo3's PanicException is a BaseException; law "completes"
                    exc = "%s:%s" % (a["op"], type(e).__name__)
                    dead = not (a.get("refuse") and exc == "uncommit:TipChangeRejected")
            obs.append(w.observe(exc))
        return obs
    finally:
        w.close()



class scratch:
    """Directory for the real worlds: RAM-backed when the machine has /dev/shm (commits fsync), else the check's workdir."""

    def __init__(self, sub):
        self.sub = sub

    def __enter__(self):
        import tempfile
        self.made = None
        if os.path.isdir("/dev/shm") and os.access("/dev/shm", os.W_OK):
            self.made = tempfile.mkdtemp(prefix="vf-C16-", dir="/dev/shm")
            return self.made
        return self.sub.workdir

    def __exit__(self, *a):
        if self.made:
            shutil.rmtree(self.made, ignore_errors=True)


def replay_cases(sub, chunk):
    rows = []
    with scratch(sub) as root:
        for idx, c in chunk:
            impl = execute(c, os.path.join(root, "t%d" % idx))
            # binding sanity: the materialised world is the case's pre-state
            o = impl[0]
            if (o["tip"], o["revno"], o["wtp"], o["tags"]) != (c["tip"], c["revno"], c["wtp"],
                                                                 sorted(c["tags"], key=lambda t: t["name"])):
                sub.machinery("could not materialise case %s: observed %s" % (c, o))
            rows.append({"c": c, "impl": impl})
            sub.count(1)
    sub.cov.setdefault("_collect", []).extend(rows)


# ----------------------------------------------------------------------------- classification
def is_merge_removed(c):
    """does the (first) uncommit of the behaviour remove a merge revision?"""
    P, tip = c["P"], c["tip"]
    for a in c["acts"]:
        if a["op"] == "uncommit":
            r, k = tip, a["n"]
            while r and k and r <= len(P):
                if len(P[r - 1]) > 1:
                    return True
                r, k = (P[r - 1][0] if P[r - 1] else 0), k - 1
            return False
        return False
    return False


def anc(P, revs):
    out, todo = set(), [r for r in revs if 0 < r <= len(P)]
    while todo:
        r = todo.pop()
        if r not in out:
            out.add(r)
            todo.extend(p for p in P[r - 1] if 0 < p <= len(P))
    return out


def tags_to_drop(P, pre, a):
    """tags of the observed pre-state that point into the region Uncommit(n) removes (classification only)"""
    lh, r = [], pre["tip"]
    while 0 < r <= len(P):
        lh.append(r)
        r = P[r - 1][0] if P[r - 1] else 0
    removed, rest = lh[:a["n"]], lh[a["n"]:]
    keep = set(rest[:1])
    if a.get("tree", True):
        keep |= set(pre["wtp"][1:])
        for x in removed:
            keep |= set(P[x - 1][1:])
    gone = anc(P, [pre["tip"]]) - anc(P, keep)
    return [t["name"] for t in pre["tags"] if t["rev"] in gone]


def input_class(law, row):
    c, impl = row["c"], row["impl"]
    if law == "completes":
        i = next(k for k, o in enumerate(impl) if o["exc"])
        a, P = c["acts"][i - 1], [list(p) for p in c["P"]]
        for k in range(1, i):
            if c["acts"][k - 1]["op"] == "commit":
                P.append(impl[k]["np"])
        cls = impl[i]["exc"] + (":bound" if c["bound"] else ":standalone")
        if a["op"] == "uncommit" and not a["keep"] and tags_to_drop(P, impl[i - 1], a):
            cls += "+tags-to-drop"
        return cls
    if law == "inverse":
        for i, a in enumerate(c["acts"]):
            if i and a["op"] == "uncommit" and a["n"] == 1 and c["acts"][i - 1]["op"] == "commit":
                before = impl[i - 1]
                if before["tip"] == 0 and before["wtp"]:
                    return "commit-on-null-tip-with-tree-parents"
                return ("bound" if c["bound"] else "standalone") + ("+pending" if len(before["wtp"]) > 1 else "")
    notree = any(a["op"] == "uncommit" and not a.get("tree", True) for a in c["acts"])
    return ("bound" if c["bound"] else "standalone") + ("+merge-removed" if is_merge_removed(c) else "") + ("+notree" if notree else "")


def nontrivial_key(c):
    return (json.dumps(c["P"]), tuple(c["wtp"]), c["bound"], json.dumps(c["acts"]))


def case_from_trace(trace):
    """TLC behaviour of UncommitMC [(action, state)] -> case (initial world + the actions remembered in h)."""
    s0 = trace[0][1]
    acts = []
    for _, st in trace[1:]:
        a = st["h"][-1]["act"]
        acts.append({"op": a["op"], "n": a["n"], "keep": bool(a["keep"]), "tree": bool(a["tree"]), "refuse": bool(a["refuse"])})
    s = s0["s"]
    return {"P": [list(p) for p in s["P"]], "tip": s["tip"], "revno": s["revno"], "wtp": list(s["wtp"]),
            "tags": sorted(({"name": t[0], "rev": t[1]} for t in s["tags"]), key=lambda t: t["name"]),
            "bound": bool(s0["bound"]), "acts": acts}


def quiet_locks():
    """as breezy's own test fixture does: a lock that is held is reported at once instead of after 30 s of polling"""
    from breezy import lockdir
    lockdir._DEFAULT_TIMEOUT_SECONDS = 0


def run(ctx):
    env.init()
    quiet_locks()
    q = ctx.quick
    # ---- E1: the state machine (design check on behaviours) + anti-vacuity + the known counter-example
    mc = (3, 4, 3, ("a", "b")) if q else (4, 6, 3, ("a", "b"))
    tlc.check(ctx, "UncommitMC", cfg_text=mc_cfg(*mc, True, MC_INV), label="MC guarded %s" % (mc,), workers=16)
    res = tlc.run(ctx, "UncommitMC", cfg_text=mc_cfg(2, 3, 2, ("a",), False, ("InverseHolds",)), allow_violation=True,
                  workers=2)
    ctx.add_tlc(res, "MC unguarded: commit on a null tip with tree parents")
    if res["violated"] != "InverseHolds":
        ctx.machinery("the unguarded model was expected to violate InverseHolds (null tip with tree parents)")
    directed = [case_from_trace(res["trace"])]
    for b in (False, True):     # the empty world
        directed.append({"P": [], "tip": 0, "revno": 0, "wtp": [], "tags": [], "bound": b,
                         "acts": [{"op": "commit", "n": 0, "keep": False, "tree": True, "refuse": False},
                                  {"op": "uncommit", "n": 1, "keep": False, "tree": True, "refuse": False}]})
    # ---- E1 + E2: the case space
    plans = [dict(MinRev=1, MaxRev=5, MaxPar=2, OneRoot="FALSE", GStride=4, Stride=41)] if q else \
            [dict(MinRev=1, MaxRev=5, MaxPar=3, OneRoot="FALSE", GStride=8, Stride=16),
             dict(MinRev=6, MaxRev=6, MaxPar=2, OneRoot="TRUE", GStride=16, Stride=16)]
    cases = list(directed)
    for p in plans:
        consts = dict(p, MaxN=3, Offset=ctx.seed % p["Stride"])
        got = table.generate(ctx, "UncommitGen", consts, label="Gen %s" % p, workers=16, timeout=3000)
        if not got:
            ctx.machinery("UncommitGen exported no cases for %s" % consts)
        cases += [k["c"] for k in got]
        ctx.cov.setdefault("plans", []).append(dict(consts, exported=len(got)))
    # ---- E3: random behaviours of the state machine (longer sequences, the real tree carried along)
    behs, sres = tlc.simulate(ctx, "UncommitMC", cfg_text=mc_cfg(3, 8, 3, ("a", "b"), True, MC_INV),
                           num=60 if q else 600, depth=7, seed=ctx.seed + 1, label="simulate")
    if sres.get("violated"):
        ctx.machinery("simulation of UncommitMC violates %s" % sres["violated"])
    nsim = 0
    for b in behs:
        if len(b) > 1:
            cases.append(case_from_trace(b))
            nsim += 1
    if not nsim:
        ctx.machinery("no simulated behaviours")
    ctx.cov["simulated_behaviours"] = nsim
    # ---- replay on real trees, judged by TLC
    core.fork_map(ctx, replay_cases, list(enumerate(cases)))
    rows = ctx.collected
    if len(rows) != len(cases):
        ctx.machinery("replayed %d of %d cases" % (len(rows), len(cases)))
    for r in rows:
        c = r["c"]
        if len(c["P"]) > 1 or len(c["acts"]) > 1:
            ctx.nontrivial(nontrivial_key(c))
    for r in (rows[0], rows[len(rows) // 2], rows[-1]):
        ctx.sample({"c": r["c"], "observed": [{k: o[k] for k in ("tip", "revno", "wtp", "mtip", "exc")} for o in r["impl"]]})
    seen_directed = False
    for row, failed, drift in table.judge(ctx, "UncommitTrace", rows, chunk=4000):
        c = row["c"]
        for law in failed:
            cls = input_class(law, row)
            if law == "inverse" and cls == "commit-on-null-tip-with-tree-parents" and c == directed[0]:
                seen_directed = True
            ctx.violation("%s:%s" % (law, cls),
                          "law %s fails on graph %s tree %s %s acts %s: observed %s" % (
                              law, c["P"], c["wtp"], "bound" if c["bound"] else "standalone",
                              [(a["op"], a["n"], a["keep"]) + (() if a.get("tree", True) else ("tree=None",)) + (("master refuses",) if a.get("refuse") else ()) for a in c["acts"]],
                              [(o["tip"], o["revno"], o["wtp"], o["exc"]) for o in row["impl"]]), row)
        if drift and not failed:
            ctx.drift("observed states differ from the transcription (order of pending merges / tags / master)", row)
    if not seen_directed:
        ctx.drift("the model's counter-example (Commit . Uncommit on a null tip with tree parents) is not reproduced "
                  "by the code: the transcription is out of date", directed[0])
    for r in rows:
        for o in r["impl"]:
            if o["mtags"] == 0:
                ctx.drift("master's tag dictionary differs from the bound branch's", r)
                break
    ctx.cov["exhaustive"] = False
    ctx.rule("TLC checks the laws on EVERY case of the bounded space (graphs x trees x uncommit depth 1..3 x keep_tags x "
             "standalone/bound, behaviours Uncommit(n) - also with tree=None, and refused by the master of a bound branch - and Commit.Uncommit(1)); replayed on real trees: the cases with "
             "Key %% Stride = seed %% Stride of every GStride-th graph, the TLC counter-example of the unguarded model, "
             "the empty world, and TLC-simulated Commit/Uncommit sequences of depth <= 7; non-trivial = more than one "
             "revision or more than one action; distinct = (graph, tree parents, bound, actions)")


def replay(ctx, rep):
    env.init()
    quiet_locks()
    row = rep["replay"]
    impl = execute(row["c"], os.path.join(ctx.workdir, "replay"))
    print(json.dumps({"c": row["c"], "observed_now": impl, "recorded": row["impl"]}, indent=1))
    for _, failed, drift in table.judge(ctx, "UncommitTrace", [{"c": row["c"], "impl": impl}]):
        for law in failed:
            ctx.violation("%s:%s" % (law, input_class(law, {"c": row["c"], "impl": impl})), "replayed: law %s fails" % law, row)
