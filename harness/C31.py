"""C31 — smart server clients cannot reach files outside the served directory."""
import os
import shutil
import urllib.parse

from vf import env, table, core, tlc

META = dict(
    property_id="C31", level="model_checking", design_ref="DESIGN.md §4 C31",
    technique="TLA+ model of the path pipeline (translate_client_path: root match + joinpath stack machine + escape; "
              "VfsRequest un-escape + escaped-separator guard; userdir filter; chroot URL normalisation; transport decoding) checked by TLC "
              "over a bounded hostile path alphabet; the TLC case table is sent through the real "
              "SmartServerRequestHandler over a backing transport built by BzrServerFactory._make_backing_transport; "
              "the places the served transport was asked to touch are judged by the TLA+ laws",
    level_text="Exhaustive over client paths of up to 3 (quick, for root '/'; 4 thorough) names from {a, ., .., empty, %2E%2E, "
               "%252E%252E, ~, ~user, e-acute, %00} joined by '/' or '%2F' (also '%252F' for <=3 names in thorough), "
               "relative / absolute / root-prefixed, roots {/, /srv/, /a/}, plus control-directory opens by URL "
               "under two jail roots. TLC proves on the model that no accepted path leaves the served directory "
               "(and that without the escaped-separator guard exactly the two historical input classes would), and "
               "exhibits the one remaining jail-hook deviation (known finding); every case is executed for VFS and non-VFS verbs on the real "
               "handler and TLC evaluates 'not rejected => touched location inside the served directory' on what "
               "the served transport actually received. Path translation is a finite-state transducer over token "
               "classes, so small-scope exhaustion is the right level.",
    level_note="Observation point: a logging decorator directly below the chroot (the path string handed to the "
               "served transport, decoded and normalised lexically) plus sentinel files outside the served "
               "directory. dromedary's chroot / pathfilter / local transports (site-packages, Rust) are executed, "
               "not re-verified; their path handling is modelled and any disagreement is reported as drift. "
               "Userdir expansion uses an injected expander ('~' -> inside, '~user' -> outside). Trusted: TLC, "
               "the JSON bridge, the tokeniser that abstracts real relpaths.",
)

QUICK_VERBS = ("get", "stat", "put", "mkdir", "iter_files_recursive", "BzrDir.open_2.1", "BzrDir.find_repositoryV3")
THOROUGH_VERBS = QUICK_VERBS + ("has", "list_dir", "delete", "rmdir", "append", "BzrDirFormat.initialize",
                                "Branch.get_config_file")
VFS = {"get", "has", "stat", "put", "mkdir", "list_dir", "iter_files_recursive", "delete", "rmdir", "readv", "append"}
QUICK_SAMPLE = 1600          # 3-name paths replayed in the quick tier (of 4000; all shorter ones are replayed)
CLONING = {"iter_files_recursive"}      # verbs the chroot implements by cloning the served transport
MUTATING = {"put", "mkdir", "delete", "rmdir", "append", "BzrDirFormat.initialize"}
ROOTFORMS = [("/", "rel"), ("/", "abs"), ("/srv/", "rel"), ("/srv/", "abs"), ("/srv/", "rooted"),
             ("/a/", "rel"), ("/a/", "abs"), ("/a/", "rooted")]
NAMES = ["a", ".", "..", "", "%2E%2E", "%252E%252E", "~", "~user", "U+00E9", "%00"]

# ----------------------------------------------------------------------------- token abstraction of real strings
RAW = {"sep": "/", "a": "a", "d": ".", "dd": "..", "t": "~", "u": "user", "srv": "srv", "h": "h", "e": "é",
       "z": "\x00"}


def _text(kind, level):
    s = RAW[kind]
    if level == 0:
        return s
    s = "".join("%%%02X" % b for b in s.encode("utf-8"))
    for _ in range(level - 1):
        s = s.replace("%", "%25")
    return s


_TOKS = sorted(((_text(k, l), k, l) for k in RAW for l in range(0, 5)), key=lambda t: -len(t[0]))


def tokenise(s):
    """Real relpath string -> [{k, l}] (longest match); unknown text -> a token that matches nothing."""
    out, i = [], 0
    while i < len(s):
        for text, k, l in _TOKS:
            if s.startswith(text, i):
                out.append({"k": k, "l": l})
                i += len(text)
                break
        else:
            return [{"k": "?" + s, "l": 0}]
    return out


def render(c):
    """Case -> client path bytes."""
    names = ["é" if n == "U+00E9" else n for n in c["names"]]
    body = ""
    for i, n in enumerate(names):
        if i:
            body += _text("sep", c["seps"][i - 1])
        body += n
    pre = {"rel": "", "abs": "/", "rooted": c.get("root", "/")}[c.get("form", "rel")]
    return (pre + body).encode("utf-8")


def input_class(c, spec, verb):
    if spec.get("dev"):
        return "%2F-inside-dotdot-segment"
    if spec.get("dev2") and verb in CLONING:
        return "%2F-at-segment-start"
    ns, seps = set(c["names"]), set(c.get("seps", ()))
    feats = [f for f, on in (("plain-dotdot", ".." in ns), ("encoded-dotdot", "%2E%2E" in ns),
                             ("double-encoded-dotdot", "%252E%252E" in ns), ("userdir", "~" in ns or "~user" in ns),
                             ("encoded-separator", bool(seps - {0})), ("nul", "%00" in ns)) if on]
    return "+".join(feats) or "plain-names"


# ----------------------------------------------------------------------------- the served world
class World:
    """<D>/l1/l2/l3/l4/srv is served; every file holds its own path, so a returned body names what was read."""
    current = None

    def __init__(self, workdir):
        from breezy import transport as T, urlutils
        from breezy.bzr.smart import server as sserver, request
        from breezy import registry
        _register()
        self.D = os.path.join(workdir, "jail%d" % os.getpid())
        self.srv = os.path.join(self.D, "l1", "l2", "l3", "l4", "srv")
        self.jaildir = self.srv
        self.log = []
        self.build()
        self.pristine = self.snapshot()
        World.current = self
        base = T.get_transport_from_url("jl+" + urlutils.local_path_to_url(self.srv))
        home = os.path.join(self.srv, "a", "h")
        out_home = os.path.join(self.D, "l1", "l2", "l3", "l4")

        def expander(p):
            if p == "~" or p.startswith("~/"):
                return home + p[1:]
            return out_home + "/" + p[1:]           # "~user..." -> outside the served directory
        self.factory = sserver.BzrServerFactory(userdir_expander=expander, get_base_path=lambda t: self.srv + "/")
        self.factory._make_backing_transport(base)
        self.backing = self.factory.transport
        self.sub = self.backing.clone("a")
        self.request = request
        self.probe = registry.Registry()
        self.probe.register(b"VF.open_url", _probe_class(request))

    def close(self):
        for c in reversed(self.factory.cleanups):
            c()
        World.current = None
        shutil.rmtree(self.D, ignore_errors=True)

    def build(self):
        shutil.rmtree(self.D, ignore_errors=True)
        os.makedirs(os.path.join(self.srv, "a", "a"))
        os.makedirs(os.path.join(self.srv, "a", "h"))
        files = ["l1/l2/l3/l4/srv/a/a/a", "l1/l2/l3/l4/srv/a/h/a", "l1/l2/l3/l4/srv/~", "l1/l2/l3/l4/a", "l1/l2/l3/a",
                 "l1/l2/a", "l1/a", "a"]
        for f in files:
            with open(os.path.join(self.D, f), "w") as fp:
                fp.write("F:" + f)

    def snapshot(self):
        snap = {}
        for dp, dns, fns in os.walk(self.D):
            rel = os.path.relpath(dp, self.D)
            snap[rel] = "dir"
            for fn in fns:
                try:
                    with open(os.path.join(dp, fn), "rb") as fp:
                        snap[os.path.join(rel, fn)] = fp.read(200)
                except OSError:
                    snap[os.path.join(rel, fn)] = "?"
        return snap

    def inside(self, path):
        return path == self.jaildir or path.startswith(self.jaildir + "/")

    def outside_changes(self):
        """Paths outside the served directory that differ from the pristine fixture; restores the fixture."""
        now = self.snapshot()
        if now == self.pristine:
            return []
        srvrel = os.path.relpath(self.srv, self.D)
        diff = [p for p in set(now) | set(self.pristine) if now.get(p) != self.pristine.get(p)
                and not (p == srvrel or p.startswith(srvrel + "/"))]
        self.build()
        return sorted(diff)


_registered = False


def _register():
    global _registered
    if _registered:
        return
    from breezy import transport as T, urlutils
    from dromedary import decorator
    from dromedary.errors import TransportError

    class JT(decorator.TransportDecorator):
        @classmethod
        def _get_url_prefix(cls):
            return "jl+"

    def place(self, rel):
        """Where the served transport is asked to go: (class, physical path)."""
        w = World.current
        try:
            self._decorated.abspath(rel)
            basedir = urlutils.local_path_from_url(self._decorated.base)
        except Exception:
            return "unres", None
        phys = os.path.normpath(basedir + "/" + urllib.parse.unquote(rel))
        if w.inside(phys):
            return "in", phys
        if phys == w.D or phys.startswith(w.D + "/"):
            return "out", phys
        return "host", phys

    def mk(n, npaths):
        def f(self, *a, **k):
            w = World.current
            if w is None:
                return getattr(self._decorated, n)(*a, **k)
            rels = [x if isinstance(x, str) else "." for x in a[:npaths]] or ["."]
            blocked = False
            for rel in rels:
                cls, phys = place(self, rel)
                w.log.append((n, rel, cls, phys))
                blocked = blocked or cls == "host"
            if blocked:      # never let the check touch the host outside its sandbox
                raise TransportError("blocked by the C31 harness: outside the sandbox")
            return getattr(self._decorated, n)(*a, **k)
        f.__name__ = n
        return f

    one = ("get", "get_bytes", "has", "stat", "list_dir", "put_bytes", "put_file", "put_bytes_non_atomic",
           "put_file_non_atomic", "mkdir", "delete", "rmdir", "append_bytes", "append_file", "readv", "_readv",
           "open_write_stream", "delete_tree", "lock_read", "lock_write", "ensure_base", "create_prefix",
           "local_abspath", "iter_files_recursive", "copy_tree_to_transport", "hardlink", "symlink", "readlink")
    for n in one:
        if hasattr(JT, n):
            setattr(JT, n, mk(n, 0 if n == "iter_files_recursive" else 1))
    for n in ("rename", "move", "copy", "copy_tree"):
        setattr(JT, n, mk(n, 2))
    T.register_transport("jl+", lambda url: JT(url))
    _registered = True


def _probe_class(request):
    class OpenUrlRequest(request.SmartServerRequest):
        """Stands for any verb that opens a control directory by URL while serving a request."""

        def do(self, url):
            from breezy.controldir import ControlDir
            ControlDir.open(url.decode("utf-8"))
            return request.SuccessfulSmartServerResponse((b"ok",))
    return OpenUrlRequest


# ----------------------------------------------------------------------------- one request
def _request(w, verb, cp, root, commands=None, jail_root=None):
    """Send one request through the real handler; -> observation {w: [...], leak: bool} + details."""
    request = w.request
    del w.log[:]
    h = request.SmartServerRequestHandler(w.backing, commands or request.request_handlers, root_client_path=root,
                                          jail_root=jail_root or w.backing)
    v = verb.encode()
    args = (v, cp, b"") if verb in ("put", "append", "mkdir") else (v, cp)      # (path, mode) / (path)
    h.args_received(args)
    if verb in ("put", "append") and h.response is None:
        h.accept_body(b"written by C31")
        h.end_received()
    resp = h.response
    ok = bool(resp is not None and resp.is_successful())
    places = sorted({"out" if cls == "host" else cls for _, _, cls, _ in w.log})
    leak = []
    if verb == "get" and ok and resp.body is not None:
        body = resp.body
        phys = next((p for n, _, cls, p in w.log if p is not None), None)
        if body.startswith(b"F:"):
            read = os.path.join(w.D, body[2:].decode())
            if phys is not None and read != phys:
                raise core.MachineryError("observation model wrong: get %r returned the file %s but the logged "
                                          "location is %s" % (cp, read, phys))
            if not w.inside(read):
                leak.append("read " + body[2:].decode())
    if verb in MUTATING:
        leak += ["changed " + p for p in w.outside_changes()]
    detail = {"ok": ok, "resp": resp.args if resp is not None else None,
              "ops": [(n, r, cls, (p or "").replace(w.D, "$D")) for n, r, cls, p in w.log[:6]], "leak": leak}
    return {"w": places, "leak": bool(leak)}, detail


def _translate(w, cls, cp, root):
    from dromedary import errors as terr
    from breezy import urlutils
    try:
        rel = cls(w.backing, root).translate_client_path(cp)
    except urlutils.InvalidURLJoin as e:
        return {"rej": "escaped-separator" if "escaped path separator" in str(e) else "above-root", "rel": []}
    except terr.PathNotChild:
        return {"rej": "not-child", "rel": []}
    except Exception as e:
        return {"rej": type(e).__name__, "rel": []}
    return {"rej": "no", "rel": tokenise(rel)}


def _open_url(w, c):
    names = c["names"]
    path = "/".join(names)
    if c["scheme"] == "backing":
        return w.backing.base + path
    basedir = w.srv if c["scheme"] == "foreign-in" else os.path.dirname(w.srv)
    return "jl+file://" + basedir + "/" + path


def _replay_judge(ctx, w, cases):
    from breezy.bzr.smart import vfs
    verbs = QUICK_VERBS if ctx.quick else THOROUGH_VERBS
    rows, details = [], []
    for k in cases:
        c, spec = k["c"], k["spec"]
        det = {}
        if c["kind"] == "path":
            w.jaildir = w.srv
            cp = render(c)
            impl = {}
            for verb in verbs:
                impl[verb], det[verb] = _request(w, verb, cp, c["root"])
            tr = {"plain": _translate(w, w.request.SmartServerRequest, cp, c["root"]),
                  "vfs": _translate(w, vfs.GetRequest, cp, c["root"])}
            rows.append({"c": c, "impl": impl, "tr": tr})
            if set(c["names"]) - {"a"} or set(c["seps"]) - {0}:
                ctx.nontrivial((c["root"], c["form"], tuple(c["names"]), tuple(c["seps"])))
        else:
            jr = w.backing if c["jail"] == "root" else w.sub
            w.jaildir = w.srv if c["jail"] == "root" else os.path.join(w.srv, "a")
            url = _open_url(w, c).encode("utf-8")
            impl = {}
            impl["VF.open_url"], det["VF.open_url"] = _request(w, "VF.open_url", url, "/", w.probe, jr)
            rows.append({"c": c, "impl": impl})
            ctx.nontrivial(("open", c["jail"], c["scheme"], tuple(c["names"])))
        details.append((spec, det))
        ctx.count(len(impl))
    idx = {id(r): i for i, r in enumerate(rows)}
    for row, failed, drift in table.judge(ctx, "SmartJailTrace", rows, workers=2):
        c = row["c"]
        spec, det = details[idx[id(row)]]
        for f in failed:
            verb = f["verb"]
            if c["kind"] == "path":
                site = "vfs-cloning-verb" if verb in CLONING else "vfs-verb" if verb in VFS else "path-verb"
                sig = "outside-served-dir:%s:%s" % (site, input_class(c, spec, verb))
                what = "%s %r (root_client_path %r)" % (verb, render(c), c["root"])
            else:
                ns = c["names"]
                quirk = any(n == "" and set(ns[i + 1:]) & {"..", "%2E%2E"} for i, n in enumerate(ns))
                sig = "outside-jail:open-by-url:%s-url,jail-%s,%s" % (
                    c["scheme"], "backing-root" if c["jail"] == "root" else "subdirectory",
                    "empty-segment-before-dotdot" if quirk else "other-path")
                what = "control directory open of %s/%s under jail %s" % (c["scheme"], "/".join(c["names"]), c["jail"])
            ctx.violation(sig, "%s is not rejected and reaches a location outside [law %s]: %s" % (
                what, f["law"], det[verb]), {"case": c, "verb": verb, "observed": det[verb]})
        if drift and not failed:
            ctx.drift("observation differs from the SmartJail model for %s" % (
                render(c) if c["kind"] == "path" else c), {"case": c, "spec": spec, "impl": row["impl"],
                                                           "tr": row.get("tr")})
    if rows and not ctx.cov["samples"]:
        mid = len(rows) // 2
        ctx.sample({"case": rows[mid]["c"], "client_path": repr(render(rows[mid]["c"]))
                    if rows[mid]["c"]["kind"] == "path" else None, "spec": details[mid][0],
                    "observed": details[mid][1]}, limit=2)


def _slice(ctx, items):
    """Worker.  An item is a witness job, a TLC constant set (one slice of the case space: generate, replay, judge)
    or a list of already generated cases (replay, judge)."""
    w = World(ctx.workdir)
    try:
        for item in items:
            if isinstance(item, dict) and "witness" in item:
                _witness(ctx, item["witness"])
            elif isinstance(item, dict):
                cases = table.generate(ctx, "SmartJailGen", item, witnesses=(), workers=2,
                                       label="cases %s" % " ".join("%s=%s" % kv for kv in sorted(item.items())))
                if not cases:
                    ctx.machinery("empty case slice %s" % item)
                _replay_judge(ctx, w, cases)
            else:
                _replay_judge(ctx, w, item)
    finally:
        w.close()


def _consts(names, shallow, seplevel, r="all", f="all", first="all", opens="FALSE", deepall="TRUE"):
    q = '"%s"'
    return {"MaxNames": names, "ShallowNames": shallow, "DeepAll": deepall, "MaxSepLevel": seplevel, "RootSel": q % r, "FormSel": q % f,
            "FirstSel": q % first, "WithOpen": opens}


DEEP = [("/", "rel"), ("/a/", "rooted")]       # = DeepRootForms of the spec
WITNESSES = [{"witness": "WitnessUnguardedJailHolds"}, {"witness": "WitnessOpenJailHolds"}]


def _thorough_slices():
    out = list(WITNESSES)
    for r, f in DEEP:                                 # 4 names, separators / and %2F, one first name per TLC start
        for n in NAMES:
            out.append(_consts(4, 4, 1, r, f, first=n))
    for r, f in ROOTFORMS:                            # 3 names, separators /, %2F and %252F
        out.append(_consts(3, 3, 2, r, f))
    out.append(_consts(0, 0, 0, "/", "rel", opens="TRUE"))
    return out


SMALL = _consts(2, 2, 1, "/", "rel", opens="TRUE")


def _witness(ctx, name):
    """TLC must exhibit an input on which (a) the translation WITHOUT the escaped-separator guard and (b) the jail
    hook with a jail subdirectory (known finding) leave the jail on the model."""
    res = tlc.check(ctx, "SmartJailGen", cfg_text=table.cfg(SMALL, (name,)), expect_violation=name,
                    label="model deviation " + name, workers=2)
    ctx.sample({"model_counterexample_to": name, "input": res["trace"][-1][1] if res.get("trace") else None}, limit=4)


def run(ctx):
    env.init()
    os.environ.pop("BRZ_NO_SMART_VFS", None)
    if ctx.quick:
        # one TLC start enumerates the whole quick table, checks the model and the witnesses
        cases = table.generate(ctx, "SmartJailGen", _consts(3, 2, 1, opens="TRUE", deepall="FALSE"), witnesses=(),
                               workers=4,
                               env={"VF_WITNESSES": "1"}, label="cases + model check + witnesses")
        if len(cases) < 1000:
            ctx.machinery("case table too small: %d" % len(cases))
        # samples: a path only the escaped-separator guard keeps inside, and the model's own counter-example to the
        # jail-hook invariant (known finding); WitnessesReached requires both to exist
        for k in cases:
            sp = k["spec"]
            if (k["c"]["kind"] == "path" and sp["vfs"]["rej"] == "escaped-separator" and sp["dev"]) \
                    or sp.get("where") == "out":
                if not any(s_.get("kind") == k["c"]["kind"] for s_ in ctx.cov["samples"]):
                    ctx.sample({"kind": k["c"]["kind"], "guarded_or_escaping_case": k["c"], "model_verdict": sp}, limit=2)
        # TLC has checked the model on every case; replay all short ones and a seeded sample of the 3-name paths
        long_ = [k for k in cases if k["c"]["kind"] == "path" and len(k["c"]["names"]) >= 3]
        short = [k for k in cases if not (k["c"]["kind"] == "path" and len(k["c"]["names"]) >= 3)]
        ctx.rng.shuffle(long_)
        cases = short + long_[:QUICK_SAMPLE]
        ctx.cov["sampled_from"] = len(short) + len(long_)
        ctx.rng.shuffle(cases)
        n = 4
        # + one small slice with doubly encoded separators ('%252F'), generated in a worker
        items = [_consts(2, 2, 2, "/", "rel")] + [cases[i::n] for i in range(n)]
        core.fork_map(ctx, _slice, items, chunks_per_proc=1)
    else:
        tlc.check(ctx, "SmartJailGen", cfg_text=table.cfg(SMALL, ("LawsHoldOnSpec",)), env={"VF_WITNESSES": "1"},
                  label="witnesses reached", workers=4)
        core.fork_map(ctx, _slice, _thorough_slices(), chunks_per_proc=8)
    verbs = QUICK_VERBS if ctx.quick else THOROUGH_VERBS
    ctx.rule("client path = names from {a, ., .., empty, %2E%2E, %252E%252E, ~, ~user, e-acute, %00} joined by "
             "separators '/' | '%2F' (| '%252F'), as relative / absolute / root-prefixed path, for "
             "root_client_path in {/, /srv/, /a/}; every combination enumerated by TLC: " +
             ("<= 3 names for root '/' with relative paths (all of them model-checked, every path of <= 2 "
              "names and a seeded sample of %d of the 3-name paths replayed), <= 2 names for the other (root, "
              "form) pairs, and " % QUICK_SAMPLE +
              "<= 2 names with '%252F' as well for ('/', relative)"
              if ctx.quick else "<= 4 names with '/' | '%2F' for the (root, form) pairs that get past the root "
                                "match, <= 3 names with '/' | '%2F' | '%252F' for all pairs") +
             "; each sent with verbs " + ", ".join(verbs) +
             "; plus control-directory opens by URL (3 URL schemes x 2 jail roots x <= 3 names). Non-trivial = path "
             "contains anything besides the plain name 'a' and '/'.")
    ctx.cov["exhaustive"] = not ctx.quick
    ctx.assume("the place an operation touches is the path string handed to the served (local) transport, "
               "percent-decoded once and normalised lexically (for a cloned transport: its base); successful reads "
               "are cross-checked against the file content")


def replay(ctx, rep):
    """./check C31 --replay <file>: send the recorded request again and show what the served transport received."""
    env.init()
    os.environ.pop("BRZ_NO_SMART_VFS", None)
    r = rep["replay"]
    c, verb = r["case"], r["verb"]
    w = World(ctx.workdir)
    try:
        if c["kind"] == "path":
            obs, det = _request(w, verb, render(c), c["root"])
            what = "%s %r (root_client_path %r)" % (verb, render(c), c["root"])
        else:
            w.jaildir = w.srv if c["jail"] == "root" else os.path.join(w.srv, "a")
            obs, det = _request(w, verb, _open_url(w, c).encode("utf-8"), "/", w.probe,
                                w.backing if c["jail"] == "root" else w.sub)
            what = "open %s" % _open_url(w, c)
        print("replayed %s -> places %s leak %s\n  %s" % (what, obs["w"], obs["leak"], det))
        ctx.count(1, traces=1)
        if "out" in obs["w"] or obs["leak"]:
            ctx.violation(rep["signature"], "%s reaches a location outside: %s" % (what, det), r)
    finally:
        w.close()
