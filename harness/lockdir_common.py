"""Binding of specs/LockDir.tla to the real breezy.lockdir.LockDir (shared by C26 and C27).

A behaviour of the spec is a sequence of steps <<process, op>>; it is replayed by single-stepping real LockDir
objects (one per thread) through their transport operations with vf.sched.  After every step the real world
is projected to the spec's variables (held, tmpdirs, lockHeld) and compared (conformance = drift), and the
property monitors M1..M5 are evaluated on the REAL projection (verdict).
"""
import os
import re
import subprocess

from vf import sched
from vf.tlaval import to_py

NONE = ["none", 0]


def dead_pid():
    p = subprocess.Popen(["true"])
    p.wait()
    return p.pid


class Scenario:
    """Real-code side of one spec configuration."""

    def __init__(self, lockers, breakers, max_attempts, steal, dead_start, backing_url=None):
        from breezy import lockdir, config
        from breezy.errors import LockContention, LockFailed, LockBroken, LockBreakMismatch
        self.lockers, self.breakers = list(lockers), list(breakers)
        self.max_attempts = max_attempts
        self.w = sched.World(backing_url, significant=lambda op, path: path is not None and "lock" in path)
        w = self.w
        # global option locks.steal_dead, through the real configuration stack
        conf = config.GlobalStack()
        conf.set("locks.steal_dead", bool(steal))
        self.noncemap = {}          # nonce -> [proc, attempt]
        self.mk = self.att = {p: 0 for p in self.lockers + self.breakers}
        self.results = {p: "none" for p in self.lockers + self.breakers}
        self.examined = {}          # proc -> nonce passed to force_break (last call)
        self.fb_calls = []          # (proc, via, info dict)
        self.failed_attempts = []   # (proc, nonce) of attempt_lock calls that raised
        self.alive = {p: True for p in self.lockers + self.breakers}
        self.broken_live = False
        self.events = []
        t0 = w.raw()
        t0.mkdir("lock")
        if dead_start:
            info = lockdir.LockHeldInfo.for_this_process({})
            raw = info.to_bytes().decode()
            raw = re.sub(r"pid: \d+", "pid: %d" % dead_pid(), raw)
            self.noncemap[lockdir.LockHeldInfo.from_info_file_bytes(raw.encode()).nonce] = ["dead", 0]
            t0.mkdir("lock/held")
            t0.put_bytes("lock/held/info", raw.encode())
        scen = self

        self.last_peek = {}
        self.user_examined = {}

        class TLockDir(lockdir.LockDir):
            who = None

            def peek(self):
                info = super().peek()
                scen.last_peek[self.who] = info.nonce if info is not None else None
                return info

            def force_break(self, dead_holder_info):
                scen.examined[self.who] = dead_holder_info.nonce
                scen.fb_calls.append((self.who, "steal" if self.who in scen.lockers else "user", dead_holder_info))
                return super().force_break(dead_holder_info)

            def _create_pending_dir(self):
                scen.mk[self.who] += 1
                try:
                    return super()._create_pending_dir()
                finally:
                    n = getattr(self, "nonce", None)
                    if n is not None and n not in scen.noncemap:
                        scen.noncemap[n] = [self.who, scen.mk[self.who]]

        self.L = {}
        for p in self.lockers + self.breakers:
            l = TLockDir(w.transport(), "lock")
            l.who = p
            self.L[p] = l

        def locker(p):
            l = self.L[p]

            def prog():
                for _ in range(max_attempts):
                    try:
                        l.attempt_lock()
                    except LockContention:
                        self.results[p] = "contention"
                        self._failed(p, l)
                        continue
                    except LockFailed as e:
                        self.results[p] = "lock_failed"
                        self._failed(p, l)
                        continue
                    except sched.Killed:
                        raise
                    except Exception as e:
                        self.results[p] = "error:" + type(e).__name__
                        self._failed(p, l)
                        continue
                    self.results[p] = "acquired"
                    try:
                        l.unlock()
                    except LockBroken:
                        self.results[p] = "lock_broken"
                        return "stuck"
                    if l.is_held:
                        self.results[p] = "unlock_error_swallowed"
                        return "stuck"
                    self.results[p] = "released"
                return "done"
            return prog

        from breezy import ui as _ui

        class ConfirmingUI(_ui.SilentUIFactory):
            """The user looks at the holder shown in the prompt and says yes."""

            def confirm_action(self, prompt, confirmation_id, prompt_kwargs):
                me = w.me()
                if me is not None:
                    scen.user_examined[me] = scen.last_peek.get(me)
                return True

            def get_boolean(self, prompt):
                return True

            def show_message(self, msg):
                pass

        self._old_ui = _ui.ui_factory
        _ui.ui_factory = ConfirmingUI()

        def breaker(p):
            l = self.L[p]

            def prog():
                for _ in range(max_attempts):
                    try:
                        self.att[p] += 1
                        n0 = len(self.fb_calls)
                        self.user_examined.pop(p, None)
                        l.break_lock()          # peek, ask the user, force_break(what was shown)
                        if self.last_peek.get(p) is None and len(self.fb_calls) == n0:
                            self.results[p] = "nothing_to_break"
                            continue
                        self.results[p] = "broke"
                    except LockBreakMismatch:
                        self.results[p] = "mismatch"
                    except sched.Killed:
                        raise
                    except Exception as e:
                        self.results[p] = "error:" + type(e).__name__
                return "done"
            return prog

        for p in self.lockers:
            w.spawn(p, locker(p))
        for p in self.breakers:
            w.spawn(p, breaker(p))

    def _failed(self, p, l):
        self.failed_attempts.append((p, getattr(l, "nonce", None)))

    # ------------------------------------------------------------------ projection
    def _owner(self, raw):
        from breezy import lockdir
        try:
            n = lockdir.LockHeldInfo.from_info_file_bytes(raw).nonce
        except Exception:
            return ["corrupt", 0]
        return self.noncemap.get(n, ["unknown", 0])

    def project(self):
        t = self.w.raw("lock/")
        st = {"tmpdirs": []}
        try:
            st["held"] = self._owner(t.get_bytes("held/info"))
        except Exception:
            st["held"] = NONE if not t.has("held") else ["noinfo", 0]
        for name in sorted(t.list_dir(".")):
            if name == "held":
                continue
            kind = "releasing" if name.startswith("releasing.") else "broken" if name.startswith("broken.") else "pending"
            try:
                info = self._owner(t.get_bytes(name + "/info"))
            except Exception:
                info = NONE
            own = self.dir_owner.get(name, ["?", 0])
            st["tmpdirs"].append({"kind": kind, "owner": own[0], "n": own[1], "info": info})
        st["tmpdirs"].sort(key=repr)
        st["lockHeld"] = {p: bool(self.L[p].is_held) for p in self.L}
        return st

    dir_owner = None

    # ------------------------------------------------------------------ stepping
    def raw_held_nonce(self):
        from breezy import lockdir
        try:
            return lockdir.LockHeldInfo.from_info_file_bytes(self.w.raw("lock/").get_bytes("held/info")).nonce
        except Exception:
            return None

    def step(self, p, fault=False):
        """One spec action of process p on the real code; returns the op performed (log entry) or None."""
        if self.dir_owner is None:
            self.dir_owner = {}
        w = self.w
        if w.done(p):
            return None
        before = self.raw_held_nonce()
        live_before = [q for q in self.lockers if q != p and self.alive[q] and self.L[q].is_held
                       and getattr(self.L[q], "nonce", None) == before and before is not None]
        if fault:
            nxt = w.procs[p]["seq"] + 1
            w.faults[(p, nxt)] = sched.transport_error
        entries = w.step(p)
        for e in entries:
            self.events.append(e)
            if e["op"] == "mkdir" and e["res"] == "ok":
                self.dir_owner[e["path"].split("/")[-1]] = [e["p"], self.att[e["p"]]]
            if e["op"] == "rename" and e["res"] == "ok":
                src, dst = e["path"].split("/")[-1], e["to"].split("/")[-1]
                if dst != "held":
                    self.dir_owner[dst] = [e["p"], self.att[e["p"]]]
                if src == "held":
                    self._moved_held(e["p"], dst, before)
        # a live holder's lock disappeared from held/ by something that is not a break (force_break renames to broken.*)
        if live_before and self.raw_held_nonce() != before:
            broke = any(e["op"] == "rename" and e["res"] == "ok" and e["path"].endswith("/held")
                        and e["to"].split("/")[-1].startswith("broken.") for e in entries)
            if not broke and not self.broken_live:
                self.live_removed.append({"actor": p, "victim": live_before[0],
                                          "ops": [[e["op"], e["path"].split("/")[-1], e["res"]] for e in entries]})
        return entries[0] if entries else None

    def _moved_held(self, actor, dst, nonce):
        """Monitors M1 (live break bookkeeping) and M2 (wrong break) at the moment `held` is renamed away."""
        owner = self.noncemap.get(nonce, ["unknown", 0])
        live_holder = any(q != actor and self.alive[q] and self.L[q].is_held and getattr(self.L[q], "nonce", None) == nonce
                          for q in self.lockers)
        if dst.startswith("broken."):
            if live_holder:
                self.broken_live = True
            shown = self.user_examined.get(actor) if actor in self.breakers else self.examined.get(actor)
            if shown is None:
                shown = self.examined.get(actor)
            if shown != nonce:
                self.wrong_breaks.append({"breaker": actor, "examined": self.noncemap.get(shown),
                                          "force_break_arg": self.noncemap.get(self.examined.get(actor)),
                                          "removed": owner, "removed_holder_live": live_holder})

    wrong_breaks = None
    live_removed = None

    def crash(self, p):
        self.alive[p] = False
        self.w.crash(p)

    # ------------------------------------------------------------------ monitors
    def holders(self):
        return [p for p in self.lockers if self.alive[p] and self.L[p].is_held]

    def check_steals(self):
        """M3: every policy (steal) break examined a holder on our host, our user, with a dead pid."""
        import getpass
        import socket
        bad = []
        for who, via, info in self.fb_calls:
            if via != "steal":
                continue
            d = info.to_readable_dict()
            ok = d.get("hostname") == socket.gethostname() != "localhost" and d.get("user") == getpass.getuser()
            try:
                os.kill(int(d.get("pid")), 0)
                ok = False
            except ProcessLookupError:
                pass
            except Exception:
                ok = False
            if not ok:
                bad.append({"stealer": who, "holder": {k: d.get(k) for k in ("hostname", "user", "pid")}})
        return bad

    def snapshot_recoverable(self):
        """M5 (C27): on a copy of the current lock directory a FRESH LockDir can acquire the lock, directly or
        after one explicit break.  Returns None if fine, else a description."""
        from breezy import lockdir, transport as T
        from dromedary import memory
        srv = memory.MemoryServer()
        srv.start_server()
        try:
            src = self.w.raw()
            dst = T.get_transport(srv.get_url())
            _copy_tree(src, dst, "lock")
            f = lockdir.LockDir(dst, "lock")
            try:
                info = f.peek()
            except Exception as e:
                # unreadable holder information: the explicit break for corrupt info must work
                try:
                    f.force_break_corrupt(getattr(e, "file_data", None))
                    info = None
                except Exception as e2:
                    return "held with unreadable info and force_break_corrupt fails: %s" % type(e2).__name__
            how = "direct"
            if info is not None:
                how = "after-break"
                try:
                    f.force_break(info)
                except Exception as e:
                    return "explicit break fails: %s" % type(e).__name__
            try:
                f.attempt_lock()
            except Exception as e:
                return "fresh attempt_lock (%s) fails: %s" % (how, type(e).__name__)
            if not f.is_held:
                return "fresh attempt_lock returned without holding"
            f.unlock()
            return None
        finally:
            srv.stop_server()

    def close(self):
        from breezy import ui as _ui
        _ui.ui_factory = self._old_ui
        self.w.close()


def _copy_tree(src, dst, path):
    dst.mkdir(path)
    for n in src.list_dir(path):
        p = path + "/" + n
        try:
            src.list_dir(p)
            isdir = True
        except Exception:
            isdir = False
        if isdir:
            _copy_tree(src, dst, p)
        else:
            dst.put_bytes(p, src.get_bytes(p))


def run_monitors(sc, monitors, schedule, p, op):
    hs = sc.holders()
    if len(hs) > 1 and not sc.broken_live:
        monitors("mutex", {"holders": hs}, schedule)
    for wb in sc.wrong_breaks:
        monitors("wrong_break", wb, schedule)
    sc.wrong_breaks = []
    for lr in sc.live_removed:
        monitors("live_lock_removed_without_break", lr, schedule)
    sc.live_removed = []
    for fp, nonce in sc.failed_attempts:
        if nonce is not None and sc.raw_held_nonce() == nonce:
            monitors("failed_attempt_holds", {"proc": fp, "after": [p, op]}, schedule)
    sc.failed_attempts = []


def spec_projection(state):
    """The part of a spec state that the real world exposes, in the shape of Scenario.project()."""
    s = to_py(state)
    tm = [{"kind": d["kind"], "owner": d["owner"], "n": d["n"], "info": list(d["info"])} for d in s["tmpdirs"]]
    tm.sort(key=repr)
    return {"held": list(s["held"]), "tmpdirs": tm, "lockHeld": dict(s["lockHeld"])}


_ctr = [0]


def replay(ctx, params, behaviour, monitors, backing_url=None, check_recover=False):
    """Replay one spec behaviour [(action, state), ...] on the real code.

    monitors: callable(kind, detail, schedule) invoked for each property-level observation on the REAL execution.
    Returns number of steps executed."""
    # local disk by default: real os.rename semantics (dromedary's MemoryTransport.rename silently accepts a
    # missing source, which the lock protocol's error paths depend on)
    tmpd = None
    if backing_url is None:
        _ctr[0] += 1
        tmpd = os.path.join(ctx.workdir, "lk%d" % _ctr[0])
        os.makedirs(tmpd)
        backing_url = "file://" + tmpd + "/"
    sc = Scenario(params["Lockers"], params["Breakers"], params["MaxAttempts"], params["Steal"], params["DeadStart"],
                  backing_url)
    sc.wrong_breaks = []
    sc.live_removed = []
    sc.dir_owner = {}
    schedule = []
    n = 0
    try:
        for act, st in behaviour[1:]:
            p, op = to_py(st["step"])
            schedule.append([p, op])
            if op == "crash":
                sc.crash(p)
                e = None
            else:
                e = sc.step(p, fault=(op == "fault"))
                if e is None:
                    ctx.drift("spec step %s/%s but real process already finished" % (p, op), schedule)
                    break
                opk = {"put_bytes_non_atomic": "put", "get_bytes": "get"}.get(e["op"], e["op"])
                if op != "fault" and opk != op:
                    ctx.drift("spec op %s, real op %s (%s) for %s" % (op, e["op"], e["path"], p), schedule)
                if op == "fault" and e["res"] != "FAULT":
                    ctx.drift("fault was not injected at %s" % (e,), schedule)
            n += 1
            real = sc.project()
            want = spec_projection(st)
            if real != want:
                ctx.drift("after %s/%s real %s != spec %s" % (p, op, real, want), schedule)
            # ---- verdict monitors, on the real execution only
            run_monitors(sc, monitors, schedule, p, op)
            if check_recover:
                why = sc.snapshot_recoverable()
                if why:
                    monitors("unrecoverable", {"why": why, "state": real}, schedule)
        for bad in sc.check_steals():
            monitors("steal_not_dead", bad, schedule)
    finally:
        sc.close()
        if tmpd:
            import shutil
            shutil.rmtree(tmpd, ignore_errors=True)
    return n


def cfg_text(params, invariants=(), view=True):
    def tla(v):
        if isinstance(v, bool):
            return "TRUE" if v else "FALSE"
        if isinstance(v, (list, tuple, set)):
            return "{" + ", ".join('"%s"' % x for x in v) + "}"
        return str(v)
    t = "SPECIFICATION Spec\n" + ("VIEW View\n" if view else "")
    t += "CONSTANTS\n" + "".join("  %s = %s\n" % (k, tla(v)) for k, v in params.items())
    return t + "".join("INVARIANT %s\n" % i for i in invariants)


SAFE = ("TypeOK", "MutualExclusion", "HolderOnDisk", "StealOnlyDead", "Recoverable", "QuiescentClean")


# ----------------------------------------------------------------------------- E3: code -> spec
def random_run(ctx, rng, params, backing_url=None, p_crash=0.0, p_fault=0.0, max_steps=400, monitors=None):
    """Drive the real code with a random schedule (not derived from the spec); returns the recorded trace."""
    tmpd = None
    if backing_url is None:
        _ctr[0] += 1
        tmpd = os.path.join(ctx.workdir, "lk%d" % _ctr[0])
        os.makedirs(tmpd)
        backing_url = "file://" + tmpd + "/"
    sc = Scenario(params["Lockers"], params["Breakers"], params["MaxAttempts"], params["Steal"], params["DeadStart"],
                  backing_url)
    sc.wrong_breaks = []
    sc.live_removed = []
    sc.dir_owner = {}
    events = []
    schedule = []
    faults = crashes = 0
    # half of the runs switch process at every operation, half run a process for a burst of operations
    # (coarse races such as "B locks completely between two operations of A" are rare under uniform switching)
    bursty = rng.random() < 0.5
    cur, left = None, 0
    try:
        for _ in range(max_steps):
            live = [p for p in sc.L if sc.alive[p] and not sc.w.done(p)]
            if not live:
                break
            if bursty and cur in live and left > 0:
                p = cur
                left -= 1
            else:
                p = rng.choice(live)
                cur, left = p, rng.choice((0, 1, 2, 3, 3, 4, 5, 8))
            if crashes < params["MaxCrashes"] and rng.random() < p_crash:
                sc.crash(p)
                crashes += 1
                op = "crash"
            else:
                f = faults < params["MaxFaults"] and rng.random() < p_fault
                e = sc.step(p, fault=f)
                if e is None:
                    continue
                if f:
                    faults += 1
                op = "fault" if e["res"] == "FAULT" else {"put_bytes_non_atomic": "put", "get_bytes": "get"}.get(e["op"], e["op"])
            pr = sc.project()
            events.append({"p": p, "op": op, "held": pr["held"], "tmpdirs": pr["tmpdirs"], "lockHeld": pr["lockHeld"]})
            schedule.append([p, op])
            if monitors is not None:
                run_monitors(sc, monitors, schedule, p, op)
        if monitors is not None:
            for bad in sc.check_steals():
                monitors("steal_not_dead", bad, schedule)
    finally:
        sc.close()
        if tmpd:
            import shutil
            shutil.rmtree(tmpd, ignore_errors=True)
    return {"events": events}


_accept = re.compile(r'<<"ACCEPT", (\d+), (\{[^}]*\})>>')
_at = re.compile(r'<<"AT", (\d+), (\d+)>>')


def validate_traces(ctx, params, traces, label="trace validation"):
    """TLC validates a batch of recorded traces against LockDir. Returns (accepted {tid: violated-invariants}, rejected
    {tid: first unmatched event index})."""
    import json
    from vf import tlc
    fin = os.path.join(ctx.workdir, "lktraces_%d.json" % _ctr[0])
    _ctr[0] += 1
    with open(fin, "w") as f:
        json.dump(traces, f)
    cfg = cfg_text(params, view=False).replace("SPECIFICATION Spec", "SPECIFICATION TraceSpec")
    res = tlc.run(ctx, "LockDirTrace", cfg_text=cfg, env={"VF_IN": fin}, workers=8)
    ctx.add_tlc(res, label)
    acc = {int(t): sorted(re.findall(r'"(\w+)"', v)) for t, v in _accept.findall(res["output"])}
    rej = {}
    for tid in range(1, len(traces) + 1):
        if tid in acc:
            continue
        with open(fin, "w") as f:
            json.dump([traces[tid - 1]], f)
        r2 = tlc.run(ctx, "LockDirTrace", cfg_text=cfg + "CONSTRAINT Progress\n", env={"VF_IN": fin}, workers=1)
        rej[tid] = max([int(b) for a, b in _at.findall(r2["output"])] or [0])
    os.unlink(fin)
    return acc, rej
