"""C13 — applying a tree transform is all-or-nothing on the file system."""
import os

from vf import env, tlc, core
from vf.tlaval import to_py
from harness import transform_common as tc

META = dict(
    property_id="C13", level="model_checking", design_ref="DESIGN.md §4 C13",
    technique="TLA+ state machine of TreeTransform.apply (one action per file-system call: removals children-first, "
              "insertions parents-first, pending deletions, metadata update, limbo clean-up; rollback journal) model-checked "
              "by TLC for every conflict-free transform of a 4-entry tree x every fault index; every enumerated "
              "(transform, k) executed on real bzr 2a and git working trees with the k-th os.rename / delete_any call "
              "failing; the re-opened tree's disk + versioning projection judged by TLC against the same laws",
    level_text="TLC enumerates the transforms (create, delete, rename, swap, move into an existing / new directory, "
               "file<->directory kind changes, up to 2 (quick) / 3 (thorough) changed entries) and proves on the model that "
               "the journal rollback restores the tree exactly, that no rename clobbers, and that - with the metadata "
               "update placed before the deletions - every terminal state is all-or-nothing; with the deletions first "
               "it produces the counter-example. Which of the two orders each flavour of the tree implements is probed first "
               "(InventoryFirst), and the counter-example must reproduce exactly on the flavours with the old order. Every (transform, fault index) is then run on the real code and the "
               "observed terminal state is judged by the TLA+ laws; the number and phase of the real file-system calls "
               "must match the model (drift).",
    level_note="Single fault per apply(); a fault is OSError(EIO) raised instead of the call (no partial effect of the "
               "failing call itself); rollback's own renames are not failed. Faults are injected at os.rename, "
               "breezy.transform.delete_any (Rust) and osutils.delete_any as called during apply(), plus the "
               "metadata update (tree.apply_inventory_delta / tree._apply_index_changes raising on entry) as one more fault point. Tree of 4 entries, single-letter names. Trusted: TLC, JSON bridge, "
               "dulwich / bzrformats as executed.",
)

WORLD = "CONSTANTS\n  Tids <- GenTids\n  Tree <- GenTree\n  NameRank <- GenRank\n"
SAFE = ("NotStuck", "RollbackExact", "Conformant")
ALL = SAFE + ("AllOrNothing", "MetaConsistent", "DeletionFailureNewMeta", "MetaFailureRollsBack")
SIG_META = "metadata-update-failure-not-rolled-back:metadata-update-outside-try-block:%s"
SIG_KNOWN = "old-metadata-after-deletion-failure:apply_deletions-before-metadata-update:%s"
SIG_GIT_STALE = "stale-index-keys-under-moved-directory:git-_generate_index_changes:untouched-children"


def gen_cfg(maxchanged, invfirst, invariants, focus=None, intry=False):
    return ("SPECIFICATION Spec\n" + WORLD + "  Cases <- GenCases\n  MaxK = 40\n  InventoryFirst = %s\n  MetaInTry = %s\n"
            "  MaxChanged = %d\n  Focus %s\n" % ("TRUE" if invfirst else "FALSE", "TRUE" if intry else "FALSE", maxchanged,
                              "= {%s}" % ", ".join('"%s"' % t for t in focus) if focus else "<- GenTids")
            + "".join("INVARIANT %s\n" % i for i in invariants))


TRACE_CFG = "SPECIFICATION Spec\n" + WORLD + "  Cases = {}\n  MaxK = 0\n  InventoryFirst = FALSE\n  MetaInTry = FALSE\n"
META_K = 99                                   # Transform.tla!MetaK: "the metadata update itself raises"
META_METHOD = {"bzr": "apply_inventory_delta", "git": "_apply_index_changes"}


def build_transform(tt, m, tree, flavour):
    """The real builder calls for the op maps m (new directories before their children, so that children get their
    limbo names inside the parent's limbo directory - the placement Transform.tla!Rides describes)."""
    tid = {"root": tt.root}
    for t, e in tree.items():
        tid[t] = tt.trans_id_tree_path("/".join(e["path"]))
    new = [t for t in sorted(m["name"]) if t not in tree and m["name"][t] != "none"]
    while new:
        ready = [t for t in new if m["parent"][t] in tid]
        if not ready:
            raise ValueError("new trans-ids with unknown parents: %s" % new)
        for t in ready:
            tid[t] = tt.create_path(m["name"][t], tid[m["parent"][t]])
            new.remove(t)
    for t in sorted(tree):
        if m["name"][t] != "none":
            tt.adjust_path(m["name"][t], tid[m["parent"][t]], tid[t])
    for t in m["removed"]:
        tt.delete_contents(tid[t])
    dirs = [t for t in sorted(m["contents"]) if m["contents"][t] == "directory"]
    while dirs:                                     # parents first
        for t in list(dirs):
            par = m["parent"][t]
            if par in dirs:
                continue
            tt.create_directory(tid[t])
            dirs.remove(t)
    for t in sorted(m["contents"]):
        if m["contents"][t] == "file":
            tt.create_file([tc.tag("new", t)], tid[t])
    for t in m["remid"]:
        tt.unversion_file(tid[t])
    for t in m["newid"]:
        if flavour == "bzr":
            tt.version_file(tid[t], file_id=("id-new-" + t).encode())
        else:
            tt.version_file(tid[t])
    return tid


def run_once(case, fl, k, dest):
    from breezy.workingtree import WorkingTree
    p = tc.fresh(BASES[fl], dest)
    wt = WorkingTree.open(p)
    tt = wt.transform()
    exc = fexc = None
    inj = None
    try:
        build_transform(tt, case["m"], TREE, fl)
        with tc.Inject(0 if k == META_K else k, p, wt, META_METHOD[fl], k == META_K) as inj:
            try:
                tt.apply()
            except Exception as e:
                exc = e
    finally:
        try:
            tt.finalize()
        except Exception as e:
            fexc = e
    left = tc.leftovers(p, fl)
    obs = {"disk": tc.disk_obs(p), "ver": tc.ver_obs(p), "left": bool(left), "phase": inj.fault[0] if inj.fault else "none",
           "nops": inj.n, "reusable": True}
    if exc is not None:                 # can a further (empty) transform be built and applied?
        tt2 = None
        try:
            tt2 = WorkingTree.open(p).transform()
            tt2.apply()
        except Exception as e:
            obs["reusable"] = False
            if tt2 is not None:
                try:
                    tt2.finalize()
                except Exception:
                    pass
    info = {"raised": type(exc).__name__ if exc else None, "finalize_raised": type(fexc).__name__ if fexc else None,
            "leftover": left, "failing_call": list(inj.fault) if inj.fault else None, "rolled_back": inj.rolled_back,
            "calls": [list(x) for x in inj.log]}
    return obs, info


def replay_chunk(sub, chunk):
    dest = os.path.join(sub.workdir, "wt")
    rows = sub.cov.setdefault("_collect", [])
    for ci, fl in chunk:
        case = CASES[ci]
        k, total = 0, None
        while True:
            obs, info = run_once(case, fl, k, dest)
            if k == 0:
                total = obs["nops"]
                if info["raised"]:          # apply() failed although no fault was injected: judged like any failed apply
                    obs["phase"] = "spontaneous"
                    rows.append({"ci": ci, "fl": fl, "k": k, "obs": obs, "info": info})
                    sub.count(1)
                    break
            elif not info["raised"]:
                sub.drift("fault %d/%d did not make apply() raise" % (k, total), {"m": case["m"], "flavour": fl, "info": info})
            rows.append({"ci": ci, "fl": fl, "k": k, "obs": obs, "info": info})
            sub.count(1)
            if k > 0:
                sub.nontrivial((ci, fl, k))
            k += 1
            if k > total:
                break
        if total is not None and k > total:             # one more fault point: the metadata update itself raises
            obs, info = run_once(case, fl, META_K, dest)
            if not info["raised"]:
                sub.drift("a failing metadata update did not make apply() raise", {"m": case["m"], "flavour": fl, "info": info})
            rows.append({"ci": ci, "fl": fl, "k": META_K, "obs": obs, "info": info})
            sub.count(1)
            sub.nontrivial((ci, fl, META_K))
        if ci % 97 == 0 and fl == "bzr":
            sub.sample({"transform": {a: b for a, b in case["m"].items() if a != "exec"}, "calls_per_phase": case["w"]["n"],
                        "flavour": fl, "fault_indices": list(range(total + 1))})


CASES, TREE, BASES, ORDER, INTRY = [], {}, {}, {}, {}


def mkey(m):
    return tuple((f, tuple(sorted(m[f].items())) if isinstance(m[f], dict) else tuple(sorted(m[f]))) for f in sorted(m))


def detect_order(ctx):
    """Which variant does THIS tree implement, per flavour -> (InventoryFirst, MetaInTry)?  Probe: delete file a, fail the
    first delete_any of a pending deletion; the versioning a re-opened tree reports says whether the metadata update came
    before (True, Transform.tla with InventoryFirst = TRUE) or after (False) the deletions.  Then let the metadata update
    itself fail: is the file back (MetaInTry)?"""
    tids = sorted(TREE) + ["N1", "N2"]
    none = {t: "none" for t in tids}
    m = {"name": dict(none), "parent": dict(none), "contents": dict(none), "exec": dict(none),
         "removed": ["A"], "remid": ["A"], "newid": []}
    dest = os.path.join(ctx.workdir, "probe")
    out = {}
    for fl in tc.FLAVOURS:
        obs, info = run_once({"m": m}, fl, 0, dest)
        counted = [c for c in info["calls"] if c[0] != "metadata-update"]
        ks = [i + 1 for i, c in enumerate(counted) if c[0] == "pending-delete"]
        if info["raised"] or not ks or len(counted) == len(info["calls"]):
            ctx.machinery("order probe: deleting a file makes no delete_any / no %s call during apply() on the %s tree (%s)" % (
                META_METHOD[fl], fl, info))
        obs, info = run_once({"m": m}, fl, ks[0], dest)
        first = ["a"] not in [e["path"] for e in obs["ver"]]
        # ... and is a failing metadata update rolled back (the file a is back in place)?
        obs, info = run_once({"m": m}, fl, META_K, dest)
        out[fl] = (first, ["a"] in [e["path"] for e in obs["disk"]])
    return out


def signature(row, verdict):
    o, fl = row["obs"], row["fl"]
    sh = verdict["shape"]
    if o["phase"] == "metadata" and sh["disk"] == "post" and not INTRY.get(fl, True):
        return (SIG_META if ORDER.get(fl) else SIG_KNOWN) % fl
    stale = fl == "git" and sh["disk"] == "post" and "stale-children" in sh["ver"]
    if o["phase"] == "deletion" and sh["disk"] == "post" and "pre" in sh["ver"] and "post" not in sh["ver"] \
            and not (stale and ORDER.get(fl)):          # (on a metadata-first git tree old keys = the stale-children deviation)
        return SIG_KNOWN % fl
    if stale and o["phase"] in ("cleanup", "deletion"):
        return SIG_GIT_STALE
    return "%s:%s:disk=%s,ver=%s:%s" % ("+".join(sorted(verdict["failed"])), o["phase"], sh["disk"], "|".join(sh["ver"]) or "other", fl)


def run(ctx):
    global CASES, TREE
    env.init()
    mc = 2 if ctx.quick else 3
    small = 1
    # E1 + export.  Rollback exactness, no clobbering renames, phase bookkeeping hold for either order ...
    data, res = tlc.json_cases(ctx, "TransformGen", cfg_text=gen_cfg(mc, False, SAFE), label="MC deletions-first + export", timeout=840)
    TREE = {t: {"path": list(e["path"]), "kind": e["kind"]} for t, e in data["tree"].items()}
    CASES = sorted(data["cases"], key=lambda c: repr(sorted(c["m"].items())))
    if not CASES:
        ctx.machinery("TransformGen exported no transforms")
    for fl in tc.FLAVOURS:
        BASES[fl] = tc.make_base(ctx.workdir, fl, TREE)
    variant = detect_order(ctx)
    order = {fl: v[0] for fl, v in variant.items()}
    ORDER.update(order)
    INTRY.update({fl: v[1] for fl, v in variant.items()})
    ctx.cov["implementation_order"] = {fl: "metadata-update-then-deletions" if v else "deletions-then-metadata-update"
                                       for fl, v in order.items()}
    ctx.cov["metadata_update_failure_rolled_back"] = dict(INTRY)
    # ... and the deletion clause does not for the order deletions-then-metadata (InventoryFirst = FALSE): TLC's
    # counter-example must reproduce, at the same fault index, on every flavour that implements that order
    cex_case = st = None
    cex = tlc.run(ctx, "TransformGen", cfg_text=gen_cfg(small, False, ("DeletionFailureNewMeta",)), allow_violation=True)
    if cex["violated"] != "DeletionFailureNewMeta":
        ctx.drift("the model of the code's order no longer violates DeletionFailureNewMeta")
    else:
        ctx.add_tlc(cex, "counter-example deletions-first")
        st = to_py(cex["trace"][0][1])
        cex_case = next((i for i, c in enumerate(CASES) if mkey(c["m"]) == mkey(st["m"])), None)
        ctx.cov["counterexample_as_coded"] = {"actions": [a for a, _ in cex["trace"]], "k": st["k"], "case": cex_case}
        if cex_case is None:
            ctx.machinery("TLC's counter-example transform is not among the exported cases")
    # the order metadata-update-then-deletions (InventoryFirst = TRUE) satisfies every clause
    tlc.check(ctx, "TransformGen", cfg_text=gen_cfg(small if ctx.quick else mc, True, ALL, intry=True),
              label="MC metadata-first, inside try", timeout=840)
    # ... but not when the metadata update sits outside the try block: its own failure is then not rolled back
    tlc.check(ctx, "TransformGen", cfg_text=gen_cfg(1, True, ("MetaFailureRollsBack",), ("A",), intry=False),
              expect_violation="MetaFailureRollsBack", label="counter-example metadata update outside try")
    for w, focus in (("WitnessRollbackNested", ("A", "B")), ("WitnessDeletionFailure", ("A",)), ("WitnessRider", ("A", "N1"))):
        tlc.check(ctx, "TransformGen", cfg_text=gen_cfg(2, False, (w,), focus), expect_violation=w, label="witness " + w)
    idx = list(range(len(CASES)))
    if ctx.quick and len(idx) > 120:
        idx = sorted(set(ctx.rng.sample(idx, 120)) | ({cex_case} if cex_case is not None else set()))
    else:
        ctx.cov["exhaustive"] = True
    core.fork_map(ctx, replay_chunk, [(i, fl) for i in idx for fl in tc.FLAVOURS], chunks_per_proc=8)
    rows = ctx.collected
    if not rows:
        ctx.machinery("no real executions recorded")
    ctx.cov["transforms"] = len(idx)
    ctx.cov["transforms_enumerated"] = len(CASES)
    ctx.cov["runs_by_phase"] = {}
    for r in rows:
        ctx.cov["runs_by_phase"][r["obs"]["phase"]] = ctx.cov["runs_by_phase"].get(r["obs"]["phase"], 0) + 1
    for need in ("removal", "insertion", "deletion", "cleanup", "metadata", "none"):
        if not ctx.cov["runs_by_phase"].get(need):
            ctx.machinery("no real execution with a fault in phase %r" % need)
    slim = [{"i": i, "w": CASES[r["ci"]]["w"], "fl": r["fl"], "k": r["k"], "obs": r["obs"]} for i, r in enumerate(rows)]
    for row, v in tc.judge(ctx, "TransformTrace", slim, TRACE_CFG):
        full = rows[row["i"]]
        row = dict(row, m=CASES[full["ci"]]["m"])
        if v["failed"]:
            ctx.violation(signature(row, v),
                          "%s tree, fault at call %d (%s): disk=%s, versioning=%s, laws failed: %s%s" % (
                              row["fl"], row["k"], row["obs"]["phase"], v["shape"]["disk"], "|".join(v["shape"]["ver"]) or "other",
                              ", ".join(v["failed"]), "; finalize raised %s, left %s" % (
                                  full["info"]["finalize_raised"], full["info"]["leftover"]) if full["info"]["leftover"] else ""),
                          {"transform": row["m"], "flavour": row["fl"], "k": row["k"], "observed": row["obs"], "info": full["info"]})
        for d in v["drift"]:
            ctx.drift("model/implementation mismatch (%s) %s k=%d phase=%s nops=%d" % (
                d, row["fl"], row["k"], row["obs"]["phase"], row["obs"]["nops"]), {"m": row["m"], "info": full["info"]})
    if cex_case is not None:        # the counter-example, step for step the same fault index, must reproduce on the real code
        want = {SIG_KNOWN % fl for fl in tc.FLAVOURS if not order[fl]}
        got = {sig for sig, _, rep in ctx.violations if rep["k"] == st["k"] and mkey(rep["transform"]) == mkey(CASES[cex_case]["m"])}
        if not want <= got:
            ctx.drift("TLC's counter-example for DeletionFailureNewMeta (deletions before the metadata update) did not "
                      "reproduce on a flavour that implements that order: %s" % sorted(want - got),
                      ctx.cov["counterexample_as_coded"])
        metas = {sig for sig, _, rep in ctx.violations if rep["k"] == META_K}
        for fl in tc.FLAVOURS:
            if order[fl] and not INTRY[fl] and SIG_META % fl not in metas:
                ctx.drift("the %s flavour was probed as not rolling back a failing metadata update, but no run shows it" % fl)
        both = {SIG_KNOWN % fl for fl in tc.FLAVOURS if order[fl]} & got
        if both:
            ctx.drift("a flavour probed as metadata-update-first shows the counter-example of the other order: %s" % sorted(both),
                      ctx.cov["counterexample_as_coded"])
    ctx.rule("transforms = every conflict-free combination of <= %d changed entries (delete / move / replace by file / "
             "replace by directory / new file / new directory) over the tree {a, b, d/, d/a} enumerated by TLC "
             "(TransformGen.tla); each runs with no fault and with a fault at every file-system call of apply(), on a "
             "bzr 2a and a git working tree, plus once with the metadata update (apply_inventory_delta / "
             "_apply_index_changes) itself raising; non-trivial = runs with an injected fault" % mc)
    ctx.assume("fault = OSError(EIO) raised instead of the k-th os.rename / delete_any call made during apply(); one fault per run")


def replay(ctx, rep):
    """./check C13 --replay FILE: re-run one recorded (transform, flavour, k) on the real code and print what is observed."""
    global TREE
    import json
    env.init()
    r = rep["replay"]
    TREE = {"A": {"path": ["a"], "kind": "file"}, "B": {"path": ["b"], "kind": "file"}, "D": {"path": ["d"], "kind": "directory"},
            "DA": {"path": ["d", "a"], "kind": "file"}}
    fl = r["flavour"]
    BASES[fl] = tc.make_base(ctx.workdir, fl, TREE)
    obs, info = run_once({"m": r["transform"]}, fl, r["k"], os.path.join(ctx.workdir, "wt"))
    print(json.dumps({"signature": rep["signature"], "observed_now": obs, "info": info}, indent=1))
    ctx.count(1, traces=1)
    ctx.sample({"replayed": rep["signature"]})
