"""C09 — working trees behave like an abstract versioned file system."""
import os
import re
import shutil
import stat

from vf import env, tlc, core
from vf.tlaval import parse_state, to_py

META = dict(
    property_id="C09", level="model_checking", design_ref="DESIGN.md §4 C09",
    technique="TLA+ model of a versioned file system (disk / versioned identities / basis; bzr and git flavours) "
              "model-checked by TLC over all call sequences up to a bound; transition-covering paths of TLC's state "
              "graph (thorough) or a seeded sample of them (quick), plus long TLC-simulated behaviours, replayed "
              "through the public WorkingTree API on real on-disk trees with the observable projection compared "
              "with the spec state after every call, on the live object and on a freshly opened one",
    level_text="TLC enumerates every sequence of add / mkdir / remove(keep|force) / rename_one / move / edit / chmod / "
               "commit / revert / reopen over the namespace {a, b, d/, d/a} (+ {e/, e/a} for directory renames) from "
               "an empty and from a committed tree, proves the model well-formed (ValidTree, Diff(basis, basis) = {}, "
               "rejected = no-op, clean after commit / revert) and every edge of that graph is executed on a real "
               "DirStateWorkingTree (2a), WorkingTree3 (knit) and GitWorkingTree; versioned paths, kinds, contents, "
               "exec bits and normalised iter_changes(basis) must equal the model's after each call, before and "
               "after re-opening. The state space per step is small and the bugs of interest need few interacting "
               "calls, so small-scope exhaustion plus long random behaviours is the right level.",
    level_note="Outside the model: files deleted behind the tree's back (missing files, after=True renames), symlinks, "
               "case-insensitive file systems, unicode normalisation, views, content filters, remove() without "
               "keep/force (backup names). File-system state of unversioned paths is conformance (drift), not verdict. "
               "Trusted: TLC, the dot/state parser, the projection code in this harness.",
)

CONTENT = {"x": b"x\n", "y": b"yy\n"}          # different sizes: no racy-stat ambiguity
RCONTENT = {v: k for k, v in CONTENT.items()}
UNIVERSE = ["a", "b", "d", "d/a", "e", "e/a", "d2", "d2/a", "da"]
SMALL = ["a", "b", "d", "d/a"]
PASSIVE = ["d2", "d2/a", "da"]        # committed by-standers whose names start with "d": no call is aimed at them
FORMATS = {"2a": "bzr", "knit": "bzr", "git": "git"}       # tree format -> spec flavour
INVS = ("TypeOK", "ValidTree", "IdsFromBasis", "BasisSelfDiffEmpty", "ObsConsistent", "PassiveUntouched")
PROPS = ("RejectedIsNoop", "CommitIsClean")        # RevertIsClean is an Assert inside the RevertTo action


def cfg(flavour, paths, inits, depth, invariants=INVS, props=PROPS):
    t = "SPECIFICATION Spec\nCONSTANTS\n  Flavour = \"%s\"\n  Paths = {%s}\n  InitKinds = {%s}\n  MaxDepth = %d\n  Passive = {%s}\n" % (
        flavour, ", ".join('"%s"' % p for p in paths), ", ".join('"%s"' % k for k in inits), depth,
        ", ".join('"%s"' % p for p in paths if p in PASSIVE))
    return t + "".join("INVARIANT %s\n" % i for i in invariants) + "".join("PROPERTY %s\n" % p for p in props)


# ----------------------------------------------------------------------------- real trees
TEMPLATES = {}


def make_templates(ctx):
    """One pristine tree per (format, initial state, with / without the by-standers); replays work on copies."""
    from breezy import controldir
    for fmt in FORMATS:
        for init in ("empty", "pop", "pop+"):
            p = os.path.join(ctx.tmp("templates"), "%s-%s" % (fmt, init))
            wt = controldir.ControlDir.create_standalone_workingtree(
                p, format=controldir.format_registry.make_controldir(fmt))
            if init != "empty":
                write(p, "a", "x")
                os.mkdir(os.path.join(p, "d"))
                write(p, "d/a", "x")
                names = ["a", "d", "d/a"]
                if init == "pop+":
                    os.mkdir(os.path.join(p, "d2"))
                    write(p, "d2/a", "y")
                    write(p, "da", "y")
                    names += PASSIVE
                wt.add(names)
                wt.commit("base")
            TEMPLATES[(fmt, init)] = p


def template(fmt, init, paths):
    return TEMPLATES[(fmt, "pop+" if init == "pop" and "da" in paths else init)]


def write(root, rel, c):
    p = os.path.join(root, rel)
    mode = stat.S_IMODE(os.lstat(p).st_mode) if os.path.lexists(p) else 0o644
    with open(p, "wb") as f:
        f.write(CONTENT[c])
    os.chmod(p, mode)


KIND = {"file": "file", "directory": "dir", None: "none"}


def chg(o, n, cc, ko, kn, eo, en):
    return (o or "", n or "", bool(cc), KIND.get(ko, ko), KIND.get(kn, kn), bool(eo), bool(en))


def norm_changes(flavour, it):
    out = set()
    if flavour == "bzr":
        for c in it:
            if (c.path[0] or "") == "" and (c.path[1] or "") == "":
                continue                                    # the tree root
            out.add(chg(c.path[0], c.path[1], c.changed_content, c.kind[0], c.kind[1], c.executable[0], c.executable[1]))
        return out
    # git: files only, a reported rename is a removal plus an addition
    rem, add = {}, {}
    for c in it:
        po, pn = c.path
        old = po is not None and c.versioned[0] and c.kind[0] not in ("directory", None) and not getattr(c, "copied", False)
        new = pn is not None and c.versioned[1] and c.kind[1] != "directory"
        if old and new and po == pn:
            out.add(chg(po, pn, c.changed_content, c.kind[0], c.kind[1], c.executable[0], c.executable[1]))
            continue
        if old:
            rem[po] = chg(po, None, True, c.kind[0], None, c.executable[0], False)
        if new:
            add[pn] = chg(None, pn, True, None, c.kind[1], False, c.executable[1])
    for p in set(rem) & set(add):       # swapped names: the path is modified
        r, a = rem.pop(p), add.pop(p)
        out.add((p, p, True, r[3], a[4], r[5], a[6]))
    return out | set(rem.values()) | set(add.values())


def project(wt, flavour):
    """(view, changes): versioned path -> (kind, content, exec) as the tree reports it; normalised iter_changes(basis)."""
    from breezy.transport import NoSuchFile
    view = {}
    with wt.lock_read():
        for p in wt.all_versioned_paths():
            if p == "":
                continue
            try:
                k = wt.kind(p)
            except (NoSuchFile, FileNotFoundError):
                k = None
            if k == "file":
                data = wt.get_file_text(p)
                view[p] = ("file", RCONTENT.get(data, "?" + data[:8].decode("latin1")), bool(wt.is_executable(p)))
            else:
                view[p] = ("missing" if k is None else KIND.get(k, k), "", False)
        basis = wt.basis_tree()
        with basis.lock_read():
            changes = norm_changes(flavour, wt.iter_changes(basis))
    return view, changes


def disk_of(root, paths):
    out = {}
    for p in paths:
        try:
            st = os.lstat(os.path.join(root, p))
        except (FileNotFoundError, NotADirectoryError):
            continue
        if stat.S_ISDIR(st.st_mode):
            out[p] = ("dir", "", False)
        else:
            with open(os.path.join(root, p), "rb") as f:
                data = f.read()
            out[p] = ("file", RCONTENT.get(data, "?"), bool(st.st_mode & 0o100))
    return out


def want_of(state):
    s = to_py(parse_state(state))
    ent = lambda e: (e["k"], e["c"], bool(e["e"]))
    view = {p: ent(e) for p, e in s["obs"]["view"].items() if e["k"] != "none"}
    changes = {(r["o"], r["n"], bool(r["cc"]), r["ko"], r["kn"], bool(r["eo"]), bool(r["en"])) for r in s["obs"]["changes"]}
    disk = {p: ent(e) for p, e in s["disk"].items() if e["k"] != "none"}
    return {"view": view, "changes": changes, "disk": disk, "last": s["last"], "ver": dict(s["ver"]),
            "basis": {p: ent(e) for p, e in s["basis"].items() if e["k"] != "none"}}


_act = re.compile(r"^(\w+)(?:\((.*)\))?$")


def parse_action(label):
    m = _act.match(label)
    if m.group(1) == "RevertTo":            # the parameter is the model's non-deterministic choice, not an argument
        return "Revert", []
    return m.group(1), re.findall(r'"([^"]*)"', m.group(2) or "")


def perform(wt, root, name, args):
    """One spec action on the real tree. Edit / Chmod are the environment."""
    if name == "Add":
        wt.add([args[0]])
    elif name == "Mkdir":
        wt.mkdir(args[0])
    elif name == "Remove":
        if args[1] == "keep":
            wt.remove([args[0]], keep_files=True)
        else:
            wt.remove([args[0]], keep_files=False, force=True)
    elif name == "Rename":
        wt.rename_one(args[0], args[1])
    elif name == "Move":
        wt.move([args[0]], args[1])
    elif name == "Edit":
        write(root, args[0], args[1])
    elif name == "Chmod":
        p = os.path.join(root, args[0])
        os.chmod(p, stat.S_IMODE(os.lstat(p).st_mode) ^ 0o111)
    elif name == "Commit":
        wt.commit("c")
    elif name == "Revert":
        wt.revert(backups=False)
    elif name == "Reopen":
        pass
    else:
        raise AssertionError(name)


def pre_class(pre, flavour):
    """Abstract class of the spec pre-state for calls without path arguments (commit, revert): the structural features
    that the tree-wide operations are sensitive to.
      similar  (git) an added file has the content of a basis file at another path - what rename / copy detection pairs
      blocked  the path of a basis entry holds something of another kind on disk (file where a directory was, ...)
      kindchange  an entry whose recorded kind differs from what its path holds now (file id on a directory, ...)"""
    cl = set()
    basis, disk, ver = pre["basis"], pre["disk"], pre["ver"]
    bdirs = {p.rsplit("/", 1)[0] for p in basis if "/" in p} | {p for p, e in basis.items() if e[0] == "dir"}
    if flavour == "git":
        for p, i in ver.items():
            if i != "no" and p not in basis and disk.get(p, ("none",))[0] == "file" and any(
                    q != p and b[0] == "file" and b[1] == disk[p][1] for q, b in basis.items()):
                cl.add("similar")
    for p in set(basis) | bdirs:
        want_kind = "dir" if p in bdirs else basis[p][0]
        if p in disk and disk[p][0] != want_kind:
            cl.add("blocked")
    if any(ko != kn and "none" not in (ko, kn) for o, n, cc, ko, kn, eo, en in pre["changes"]):
        cl.add("kindchange")
    return "+".join(sorted(cl)) or "plain"


def signature(part, fmt, flavour, name, pre, want_last, exc):
    """part that differs : tree format : action[class of the pre-state] : the model's outcome (ok | rejected:<rule of
    WorkingTree.tla that forbids the call>) : what the tree did (ok | exception class)"""
    cls = "[%s]" % pre_class(pre, flavour) if name in ("Revert", "Commit") and exc is None else ""
    return "%s:%s:%s%s:model-%s:tree-%s" % (part, fmt, name, cls, want_last, "ok" if exc is None else type(exc).__name__)


def diff_text(got, want):
    if isinstance(got, dict):
        keys = sorted(set(got) | set(want))
        return "; ".join("%s: tree %s, model %s" % (k, got.get(k), want.get(k)) for k in keys if got.get(k) != want.get(k))
    return "tree-only %s, model-only %s" % (sorted(got - want), sorted(want - got))


GRAPHS = {}     # flavour key -> (nodes {id: state text}, out {id: {label: [ids]}}); set before forking
_want_cache = {}


def want(gkey, nid):
    k = (gkey, nid)
    if k not in _want_cache:
        _want_cache[k] = want_of(GRAPHS[gkey][0][nid])
    return _want_cache[k]


def open_tree(root):
    from breezy import controldir
    return controldir.ControlDir.open(root).open_workingtree(recommend_upgrade=False)


def replay_paths(sub, chunk):
    """chunk items: (format, graph key, namespace, init node, [labels])."""
    for fmt, gkey, paths, start, labels in chunk:
        flavour = FORMATS[fmt]
        nodes, out = GRAPHS[gkey]
        cur = start
        pre = want(gkey, cur)
        init = "pop" if "a" in pre["basis"] else "empty"
        root = os.path.join(sub.workdir, "t")
        shutil.copytree(template(fmt, init, paths), root, symlinks=True)
        try:
            wt = open_tree(root)
            calls = []
            ok = True
            for label in labels:
                name, args = parse_action(label)
                if name == "Revert":
                    succs = [n for l, ns in sorted(out[cur].items()) if l.startswith("RevertTo") for n in ns]
                else:
                    succs = out[cur].get(label)
                if not succs:
                    break                # not enabled here (an earlier non-deterministic step went another way)
                outcome, exc = "ok", None
                try:
                    perform(wt, root, name, args)
                except BaseException as e:   # noqa: every exception is an outcome here (a Rust panic arrives as
                    if isinstance(e, (KeyboardInterrupt, SystemExit)):      # pyo3 PanicException, a BaseException)
                        raise
                    outcome, exc = "rejected", e
                    if wt.is_locked():       # a failed call must not leave the tree locked
                        sub.drift("%s left the tree locked after %s" % (name, type(e).__name__), {"format": fmt, "calls": calls})
                        break
                calls.append([name] + args + [outcome if exc is None else "rejected:" + type(exc).__name__])
                rep = {"format": fmt, "init": init, "paths": list(paths), "calls": calls}
                live = project(wt, flavour)
                fresh_wt = open_tree(root)
                fresh = project(fresh_wt, flavour)
                if name == "Reopen":
                    wt = fresh_wt
                cands = [n for n in succs if (want(gkey, n)["view"], want(gkey, n)["changes"]) == live]
                if not cands:
                    w = want(gkey, sorted(succs, key=lambda n: want(gkey, n)["last"].split(":")[0] != outcome)[0])
                    part, got, exp = ("view", live[0], w["view"]) if live[0] != w["view"] else ("changes", live[1], w["changes"])
                    sub.violation(signature(part, fmt, flavour, name, pre, w["last"], exc),
                                  "%s tree after %s(%s) [%s]: %s differs from the model: %s" % (
                                      fmt, name, ", ".join(args), calls[-1][-1], part, diff_text(got, exp)), rep)
                    ok = False
                    break
                if fresh != live:
                    part = "view" if fresh[0] != live[0] else "changes"
                    sub.violation(signature("reopen-" + part, fmt, flavour, name, pre, want(gkey, cands[0])["last"], exc),
                                  "%s tree after %s(%s): a freshly opened tree reports a different %s: %s" % (
                                      fmt, name, ", ".join(args), part,
                                      diff_text(fresh[0], live[0]) if part == "view" else diff_text(fresh[1], live[1])), rep)
                    ok = False
                    break
                dk = disk_of(root, paths)
                nxt = [n for n in cands if want(gkey, n)["disk"] == dk]
                nxt.sort(key=lambda n: want(gkey, n)["last"].split(":")[0] != outcome)     # prefer the same outcome
                cands.sort(key=lambda n: want(gkey, n)["last"].split(":")[0] != outcome)
                w = want(gkey, (nxt or cands)[0])
                if outcome != w["last"].split(":")[0]:
                    sub.drift("%s %s(%s) %s, model says %s (projection as specified)" % (
                        fmt, name, ", ".join(args), calls[-1][-1], w["last"]), rep)
                if not nxt:
                    sub.drift("%s %s(%s): file system differs from the model: %s" % (
                        fmt, name, ", ".join(args), diff_text(dk, w["disk"])), rep)
                    break
                cur, pre = nxt[0], w
            sub.count(1, traces=1)
            if len(calls) > 1:
                sub.nontrivial((fmt, init, tuple(tuple(c) for c in calls)))
            if len(sub.cov["samples"]) < 1 and len(calls) >= 3 and ok:
                sub.sample({"format": fmt, "init": init, "calls": calls})
        finally:
            shutil.rmtree(root, ignore_errors=True)


def strip_calls(text):
    return "\n".join(l for l in text.split("\n") if not l.lstrip("/\\ ").startswith("calls ="))


def merged_graph(nodes, edges, inits):
    """Forget the call counter: one node per abstract state.  Node ids are made canonical (rank of the state text), so
    that everything derived from the graph depends on the spec and the seed only, not on TLC's fingerprints."""
    key = {nid: strip_calls(t) for nid, t in nodes.items()}
    rank = {t: "s%d" % i for i, t in enumerate(sorted(set(key.values())))}
    rep = {nid: rank[key[nid]] for nid in nodes}
    n2 = {rank[t]: t for t in rank}
    e2 = sorted({(rep[a], act, rep[b]) for a, act, b in edges if a in rep and b in rep})
    return n2, e2, sorted({rep[i] for i in inits})


_EDGES = {}
ACTIONS = {"Add", "Mkdir", "Remove", "Rename", "Move", "Edit", "Chmod", "Commit", "RevertTo", "Reopen"}


def load_graph(ctx, flavour, paths, inits, depth, label, workers=8, cfg_name=None):
    """Model-check WorkingTree and keep its merged state graph under its key."""
    gkey = "%s/%s/%d" % (flavour, len(paths), depth)
    if gkey in GRAPHS:
        return gkey
    if cfg_name:
        nodes, edges, ini, res = tlc.graph(ctx, "WorkingTree", cfg=cfg_name, workers=workers, label=label)
    else:
        nodes, edges, ini, res = tlc.graph(ctx, "WorkingTree", cfg_text=cfg(flavour, paths, inits, depth), workers=workers,
                                           label=label)
    if "Error:" in res["output"]:
        ctx.machinery("TLC reported an error on WorkingTree:\n" + res["output"][-2000:])
    nodes, edges, ini = merged_graph(nodes, edges, ini)
    if not edges:
        ctx.machinery("empty state graph")
    out = {nid: {} for nid in nodes}
    for a, act, b in edges:
        out[a].setdefault(act, []).append(b)
    seen = {act.split("(")[0] for _, act, _ in edges}
    if seen != ACTIONS:         # e.g. an action TLC cannot split into instances is labelled "Next"
        ctx.machinery("state graph of WorkingTree has edge labels %s, expected %s" % (sorted(seen), sorted(ACTIONS)))
    GRAPHS[gkey] = (nodes, out)
    _EDGES[gkey] = (edges, ini)
    return gkey


def prefetch(ctx, inits, specs):
    """Start the TLC runs of a tier side by side (own cfg names: vf.tlc derives them from a directory listing, which
    races); returns the function that waits for them."""
    import time
    from concurrent.futures import ThreadPoolExecutor
    d = tlc.stage(ctx.workdir)
    width = max(1, min(len(specs), core.max_workers() // 2))       # width x per <= the worker cap
    per = max(1, core.max_workers() // width)
    jobs = []
    for i, (fl, paths, depth) in enumerate(specs):
        name = "C09_%d.cfg" % i
        with open(os.path.join(d, name), "w") as f:
            f.write(cfg(fl, paths, inits, depth))
        jobs.append((fl, paths, depth, name, i))

    def one(j):
        fl, paths, depth, name, i = j
        time.sleep(0.2 * i)         # vf.tlc names its scratch files by the clock
        return load_graph(ctx, fl, paths, inits, depth, "MC + graph %s %d paths depth %d" % (fl, len(paths), depth), per, name)

    ex = ThreadPoolExecutor(width)
    futures = [ex.submit(one, j) for j in jobs]

    def join():
        for f in futures:
            f.result()
        ex.shutdown()
    return join


def graph_paths(ctx, flavour, paths, inits, depth, label, max_len=None):
    """(graph key, [(init node, [labels])]): a transition cover of the state graph.
    max_len: longest cover path in calls (default = depth; longer paths run through states that are reachable in fewer
    calls another way - the call counter is forgotten when the graph is merged)."""
    gkey = load_graph(ctx, flavour, paths, inits, depth, label)
    nodes, out = GRAPHS[gkey]
    edges, ini = _EDGES[gkey]
    cover = [(p[0][1], [act for act, _ in p[1:]]) for p in
             tlc.transition_cover(nodes, list(edges), ini, rng=ctx.rng, max_len=(max_len or depth) + 1)]
    ctx.cov.setdefault("graphs", []).append({"flavour": flavour, "paths": paths, "depth": depth, "states": len(nodes),
                                             "edges": len(edges), "cover_paths": len(cover), "max_calls": max_len or depth})
    return gkey, cover


# a second directory: renames / moves of directories with children - next to committed by-standers whose names have
# the directory's name as a string prefix (a directory with a child and a file)
WIDE = ["a", "d", "d/a", "e", "e/a"] + PASSIVE


def run(ctx):
    import logging
    env.init()
    logging.getLogger("brz").setLevel(logging.ERROR)        # revert's "Conflict adding file ..." notes
    inits = ["empty", "pop"]
    wait = prefetch(ctx, inits, [("bzr", SMALL, 4), ("git", SMALL, 4), ("bzr", WIDE, 3), ("git", WIDE, 3)])
    make_templates(ctx)                                      # while TLC runs
    wait()
    jobs = []

    def plan(fl, fmts, paths, depth, sample=None, max_len=None):
        gkey, cover = graph_paths(ctx, fl, paths, inits, depth, "MC + graph %s %d paths depth %d" % (fl, len(paths), depth),
                                  max_len)
        if max_len:
            cover = [p for p in cover if len(p[1]) > depth]
        for fmt in fmts:
            part = cover if sample is None or sample >= len(cover) else ctx.rng.sample(cover, sample)
            jobs.extend((fmt, gkey, paths, start, labels) for start, labels in part)

    def witnesses(gkey, flavour):
        """Anti-vacuity on the graph TLC produced: a rejected call, and (bzr) a reported rename and a kind change occur."""
        need = {"rejected"} | ({"rename", "kind-change"} if flavour == "bzr" else set())
        for nid, text in GRAPHS[gkey][0].items():
            if 'last = "rejected' in text:
                need.discard("rejected")
            if need - {"rejected"} and "o |->" in text:
                for o, n, cc, ko, kn, eo, en in want(gkey, nid)["changes"]:
                    if o and n and o != n:
                        need.discard("rename")
                    if ko == "file" and kn == "dir":
                        need.discard("kind-change")
            if not need:
                return
        ctx.machinery("vacuity guard: the %s state graph has no state with %s" % (flavour, sorted(need)))

    if ctx.quick:
        plan("bzr", ["2a"], SMALL, 4, 400)
        plan("git", ["git"], SMALL, 4, 250)
        plan("bzr", ["2a"], WIDE, 3, 150)
        plan("git", ["git"], WIDE, 3, 150)
    else:
        plan("bzr", ["2a"], SMALL, 4)                       # complete transition cover
        plan("bzr", ["knit"], SMALL, 4, 3000)               # WorkingTree3
        plan("git", ["git"], SMALL, 4)
        plan("bzr", ["2a"], WIDE, 3)
        plan("git", ["git"], WIDE, 3)
        plan("bzr", ["2a"], SMALL, 4, 3000, max_len=7)      # longer sequences (5-7 calls) through the same graph: sample
        plan("git", ["git"], SMALL, 4, 3000, max_len=7)
        for fl in ("bzr", "git"):                           # E1 at depth 5: model checking only
            tlc.check(ctx, "WorkingTree", cfg_text=cfg(fl, SMALL, inits, 5), label="MC %s depth 5" % fl, workers=8)
    witnesses("bzr/4/4", "bzr")
    witnesses("git/4/4", "git")
    core.fork_map(ctx, replay_paths, jobs)
    ctx.cov["exhaustive"] = not ctx.quick
    ctx.rule("paths = transition cover of TLC's state graph of WorkingTree.tla: every edge = one call in one abstract state "
             "reachable within 4 calls from the empty or the committed tree over {a, b, d/, d/a} (quick: seeded sample of "
             "400 bzr + 250 git cover paths, plus 150 + 150 of depth 3 over {a, d/, d/a, e/, e/a} with the committed by-standers d2/, d2/a, da; thorough: the whole cover on 2a and git, 3000 on WorkingTree3, the whole cover "
             "of depth 3 over {a, d/, d/a, e/, e/a} + by-standers, and 3000 sampled 5-7-call paths per flavour through the same graph); distinct non-trivial = "
             "(format, initial tree, call sequence with outcomes) with at least two calls")


def replay(ctx, rep):
    """./check C09 --replay FILE: re-run the recorded call sequence on a fresh tree and print what the tree reports."""
    env.init()
    make_templates(ctx)
    r = rep["replay"]
    fmt, flavour = r["format"], FORMATS[r["format"]]
    root = os.path.join(ctx.workdir, "t")
    shutil.copytree(template(fmt, r["init"], r.get("paths", SMALL)), root, symlinks=True)
    wt = open_tree(root)
    print("signature:", rep["signature"], "\n", rep["description"])
    for call in r["calls"]:
        name, args = call[0], call[1:-1]
        try:
            perform(wt, root, name, args)
            out = "ok"
        except BaseException as e:      # noqa
            out = "raised %s: %s" % (type(e).__name__, str(e)[:100])
        if name == "Reopen":
            wt = open_tree(root)
        view, changes = project(wt, flavour)
        print("%s(%s) -> %s\n   versioned: %s\n   changes: %s\n   disk: %s" % (
            name, ", ".join(args), out, sorted(view.items()), sorted(changes), sorted(disk_of(root, UNIVERSE).items())))
