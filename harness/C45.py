"""C45 — end-of-line filters round-trip canonical content."""
import io
import os
import shutil
import sys
import tempfile

from vf import env, table, core
from harness import table_common

META = dict(
    property_id="C45", level="model_checking", design_ref="DESIGN.md §4 C45",
    technique="TLA+ transcription of the two eol converters and the seven (reader, writer) settings, model-checked by "
              "TLC over all contents up to the tier's length; TLC case table replayed through the real filter stacks "
              "(and fresh checkouts under a rules file); recorded bytes judged by the same TLA+ laws",
    level_text="Exhaustive over {CR, LF, NUL, a}* up to length 5 (quick) / 7 (thorough) for all seven settings: TLC "
               "proves on the transcription that the round-trip law fails exactly on the loss class (CR directly "
               "before CRLF, CRLF repository form, LF working form) and holds everywhere else, every case is executed "
               "on the real filter stack, and TLC evaluates the laws on the recorded bytes. The converters are "
               "context-free rewrites with a one-byte look-behind, so short strings exhaust their behaviours.",
    level_note="Other bytes behave like 'a'. The tree-level clause is explored on all canonical / binary contents up "
               "to length 4 (quick) / 5 (thorough), in 2a branches with a WorkingTree6 checkout. Platform native "
               "output is read from sys.platform. Trusted: TLC, the JSON bridge.",
)

BYTE = {"CR": b"\r", "LF": b"\n", "NUL": b"\x00", "a": b"a"}
NAME = {13: "CR", 10: "LF", 0: "NUL", 97: "a"}
_NATIVE = None
SETTINGS = ["exact", "native", "lf", "crlf", "native-with-crlf-in-repo", "lf-with-crlf-in-repo",
            "crlf-with-crlf-in-repo"]


def _b(seq):
    return b"".join(BYTE[x] for x in seq)


def _q(data):
    return [NAME.get(x, "byte%d" % x) for x in data]


def _filter_level(c):
    """out / inp / back through the real filter stack the trees use for `eol = <setting>`."""
    from breezy import filters
    stack = filters._get_filter_stack_for((("eol", c["st"]),))
    s = _b(c["s"])
    k = len(s) // 2            # hand the content over in two chunks (a CR | LF boundary may fall on the cut)
    out = b"".join(filters.filtered_output_bytes([s[:k], s[k:]], stack, filters.ContentFilterContext("f")))
    inp = filters.filtered_input_file(io.BytesIO(s), stack)[0].read()
    back = filters.filtered_input_file(io.BytesIO(out), stack)[0].read()
    return {"out": _q(out), "inp": _q(inp), "back": _q(back), "co": "skip"}


def _checkout_states(workdir, cases):
    """One branch holding every case's content as a file named after its setting; fresh checkout; iter_changes."""
    from breezy import controldir
    d = tempfile.mkdtemp(prefix="co", dir=workdir)
    try:
        b = controldir.ControlDir.create_branch_convenience(
            d + "/src", force_new_tree=False, format=controldir.format_registry.make_controldir("2a"))
        mt = b.create_memorytree()
        names = {}
        with mt.lock_write():
            mt.add([""])
            for n, c in enumerate(cases):
                name = "f%d.s%d" % (n, SETTINGS.index(c["st"]))
                names[name] = n
                mt.add([name], kinds=["file"])
                mt.put_file_bytes_non_atomic(name, _b(c["s"]))
            mt.commit("contents")
        wt = b.create_checkout(d + "/co", lightweight=True)
        with wt.lock_read():
            basis = wt.basis_tree()
            with basis.lock_read():
                for name, n in names.items():
                    if basis.get_file_text(name) != _b(cases[n]["s"]):
                        raise core.MachineryError("fixture: repository text of %s differs from the case" % name)
                dirty = set()
                for ch in wt.iter_changes(basis):
                    dirty.add(ch.path[1] if ch.path[1] is not None else ch.path[0])
        if not wt.supports_content_filtering():
            raise core.MachineryError("checkout tree does not support content filtering")
        return ["dirty" if ("f%d.s%d" % (n, SETTINGS.index(c["st"]))) in dirty else "clean"
                for n, c in enumerate(cases)]
    finally:
        shutil.rmtree(d, ignore_errors=True)


def _replay(ctx, items):
    rows = []
    tree_cases = []
    for k, tree in items:
        c = k["c"]
        impl = _filter_level(c)
        rows.append({"c": c, "impl": impl})
        ctx.count(1)
        if k["binary"] or (k["canon"] and k["spec"]["out"] != c["s"]) or not k["canon"]:
            ctx.nontrivial((c["st"], tuple(c["s"])))
        if tree:
            tree_cases.append(len(rows) - 1)
    for off in range(0, len(tree_cases), 400):
        part = tree_cases[off:off + 400]
        for idx, co in zip(part, _checkout_states(ctx.workdir, [rows[i]["c"] for i in part])):
            rows[idx]["impl"]["co"] = co
            ctx.count(1)
    for row, failed, drift in table.judge(ctx, "EolTrace", rows, constants={"Native": _NATIVE}, workers=2):
        report(ctx, row, failed, drift)


def input_class(c):
    s = c["s"]
    if "NUL" in s:
        return "binary"
    if any(s[i:i + 3] == ["CR", "CR", "LF"] for i in range(len(s))):
        return "cr-before-crlf"
    return "other-text"


def pair(c):
    from breezy import filters
    from breezy.filters import eol
    stack = filters._get_filter_stack_for((("eol", c["st"]),))
    name = {eol._to_lf_converter: "lf", eol._to_crlf_converter: "crlf"}
    if not stack:
        return "reader=none,writer=none"
    return "reader=%s,writer=%s" % (name.get(stack[0].reader, "other"), name.get(stack[0].writer, "other"))


def report(ctx, row, failed, drift):
    c, o = row["c"], row["impl"]
    for law in failed:
        ctx.violation("%s:%s:%s" % (law, pair(c), input_class(c)),
                      "law %s fails for eol=%s on repository content %r: working tree %r, read back %r, checkout %s" % (
                          law, c["st"], _b(c["s"]), _b_safe(o["out"]), _b_safe(o["back"]), o["co"]), row)
    if drift and not failed:
        ctx.drift("eol=%s content %r: real filters give %r, differs from the transcription" % (
            c["st"], _b(c["s"]), o), row)


def _b_safe(seq):
    try:
        return _b(seq)
    except KeyError:
        return seq


def run(ctx):
    env.init()
    from breezy import rules, bedding
    table_common.narrow_jvm()
    native = '"crlf"' if sys.platform == "win32" else '"lf"'
    global _NATIVE
    _NATIVE = native          # inherited by the forked replay workers
    consts = {"MaxLen": 5 if ctx.quick else 7, "Native": native}
    small = {"MaxLen": 3, "Native": native}
    tree_len = 4 if ctx.quick else 5
    # the rules file every tree of this process (and of the forked workers) resolves `eol` from
    os.makedirs(bedding.config_dir(), exist_ok=True)
    with open(rules.rules_path(), "w") as f:
        for i, st in enumerate(SETTINGS):
            f.write("[name *.s%d]\neol = %s\n" % (i, st))
    rules.reset_rules()

    # anti-vacuity witnesses, and TLC's own counter-example to the plain round-trip law on the transcription
    # (LawsHoldOnSpec is expected to be violated on this tree), which is replayed on the real code
    names = ["WitnessCrlfRoundTrip", "WitnessBinaryKept", "WitnessNonCanonical"]
    if native == '"lf"':
        names.append("LawsHoldOnSpec")
    found = table_common.witnesses(ctx, "EolGen", small, names)
    if "LawsHoldOnSpec" in found:
        cx = found["LawsHoldOnSpec"]["c"]
        cxc = {"st": cx["st"], "s": list(cx["s"])}
        real = _filter_level(cxc)
        real["co"] = _checkout_states(ctx.workdir, [cxc])[0]
        ctx.sample({"tlc_counterexample_to_roundtrip_on_transcription": {"eol": cxc["st"], "content": cxc["s"]},
                    "real_code_on_it": real})

    cases = table.generate(ctx, "EolGen", consts, invariants=("SpecFailsExactlyOnLossClass",), workers=8)
    if not cases:
        ctx.machinery("EolGen exported no cases")
    items = []
    for k in cases:
        tree = len(k["c"]["s"]) <= tree_len and (k["canon"] or k["binary"])
        items.append((k, tree))
    core.fork_map(ctx, _replay, items, nproc=8 if ctx.quick else 16, chunks_per_proc=1)
    ctx.sample({"eol": "crlf", "content": ["a", "LF"], "real": _filter_level({"st": "crlf", "s": ["a", "LF"]})})
    ctx.rule("every eol setting x every content over {CR, LF, NUL, a} of length <= %d enumerated by TLC, pushed through "
             "the real filter stack in two chunks; every canonical or binary content of length <= %d additionally "
             "committed unfiltered and freshly checked out under a rules file (<= 400 files per checkout). Non-trivial = "
             "binary, non-canonical, or canonical content that the writer changes" % (consts["MaxLen"], tree_len))
    ctx.cov["exhaustive"] = True
    ctx.assume("bytes other than CR, LF and NUL are interchangeable for the converters")
    ctx.assume("platform native line ending = %s" % native)
