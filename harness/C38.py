"""C38 — all git SHA-map cache backends answer identically."""
import json
import os
import re
import shutil

from vf import env, tlc, core
from vf.tlaval import to_py

META = dict(
    property_id="C38", level="model_checking", design_ref="DESIGN.md §4 C38",
    technique="TLA+ spec of the abstract bzr<->git SHA map (write groups, abort, re-open; every look-up an event) "
              "model-checked by TLC; update sequences recorded from BazaarObjectStore._update_sha_map over generated "
              "histories, from the raw updater API and from TLC-sampled behaviours are executed on every backend and "
              "each backend's answers are validated by TLC against the spec (GitShaMapTrace: answer = Lookup(state, args))",
    level_text="TLC checks the abstract map's own laws (look-ups mutually consistent, committed entries durable, aborts "
               "isolated) on a small universe. The binding is trace validation: every backend (dict, sqlite file, "
               "index on a transport; tdb when importable) executes the same recorded update sequences - native "
               "conversions of generated bzr histories in several write groups, with an induced abort, re-opens and a "
               "repack, and random raw-API sequences with shared shas - and every answer of lookup_git_sha, "
               "lookup_blob_id, lookup_tree_id, lookup_commit, revids, sha1s and missing_revisions is an event that TLC "
               "accepts only if it equals the spec's Lookup on the state reached. Equal to the spec on the same "
               "sequence = equal to each other.",
    level_note="Ids are interned to small tokens before TLC sees them (bytes vs str kept distinct). Queries are "
               "type-correct (blob look-ups for file keys, tree look-ups for directory keys). What an aborted write "
               "group leaves behind is not fixed by the property: answers are accepted with or without those entries. "
               "Histories: <= 6 revisions, files/directories with repeated contents, renames, removals, merges, 2a "
               "format. Trusted: BranchBuilder, sqlite3, bzrformats btree index, TLC.",
)

QNAME = {"start": "start_write_group", "commit": "commit_write_group", "abort": "abort_write_group",
         "rev": "CacheUpdater.add_object/finish", "reopen": "open", "git_sha": "lookup_git_sha", "blob_id": "lookup_blob_id", "tree_id": "lookup_tree_id", "commit": "lookup_commit",
         "revids": "revids", "sha1s": "sha1s", "missing": "missing_revisions"}
KLASS = {"dict": "DictGitShaMap", "sqlite": "SqliteGitShaMap", "index": "IndexGitShaMap", "index-disk": "IndexGitShaMap",
         "tdb": "TdbGitShaMap"}


# ----------------------------------------------------------------------------- tokens
def tok(x):
    """bytes -> their text; anything else keeps a type tag, so that a backend answering str for bytes is seen."""
    if isinstance(x, bytes):
        try:
            s = x.decode("ascii")
            if s.isprintable() and '"' not in s and "\\" not in s:
                return s
        except UnicodeDecodeError:
            pass
        return "hex:" + x.hex()
    if x is None:
        return "py:None"
    return "py:%s:%s" % (type(x).__name__, re.sub(r'["\\]', "?", str(x))[:60])


def vertok(v):
    if not isinstance(v, dict):
        return tok(v)
    if not v:
        return "nover"
    if set(v) == {"testament3-sha1"}:
        return tok(v["testament3-sha1"])
    return "py:dict:" + ",".join(sorted(map(str, v)))


# ----------------------------------------------------------------------------- backends
class FakeCommit:
    type_name = b"commit"

    def __init__(self, id, tree):
        self.id, self.tree = id, tree


class FakeRev:
    def __init__(self, revision_id, parent_ids=()):
        self.revision_id, self.parent_ids = revision_id, list(parent_ids)


_n = [0]
_SCRATCH = [None]       # root for the file-backed backends: tmpfs when there is one (the disk is shared and slow)


def _scratch(ctx):
    return _SCRATCH[0] or ctx.workdir


class Backend:
    def __init__(self, kind, ctx, srv_url):
        from breezy import transport as T
        from breezy.git import cache
        self.kind, self.cache_mod = kind, cache
        _n[0] += 1
        self.dir = None
        if kind == "dict":
            self.cache = cache.DictBzrGitCache()
        elif kind == "sqlite":
            self.dir = os.path.join(_scratch(ctx), "sq%d_%d" % (os.getpid(), _n[0]))
            os.makedirs(self.dir)
            self.path = os.path.join(self.dir, "idmap.db")
            self._open_sqlite()
        elif kind in ("index", "index-disk"):
            if kind == "index":
                self.t = T.get_transport(srv_url + "ix%d" % _n[0])
            else:
                self.dir = os.path.join(_scratch(ctx), "ix%d_%d" % (os.getpid(), _n[0]))
                self.t = T.get_transport(self.dir)
            self.t.ensure_base()
            cache.IndexGitCacheFormat().initialize(self.t)
            self.cache = cache.IndexBzrGitCache(self.t)
        elif kind == "tdb":
            self.dir = os.path.join(_scratch(ctx), "td%d_%d" % (os.getpid(), _n[0]))
            os.makedirs(self.dir)
            self.path = os.path.join(self.dir, "idmap.tdb")
            self.cache = cache.TdbBzrGitCache(self.path)
        else:
            raise ValueError(kind)
        self.notes = []

    def _open_sqlite(self):
        self.cache = self.cache_mod.SqliteBzrGitCache(self.path)
        self.cache.idmap.db.execute("PRAGMA synchronous=OFF")      # speed only: no fsync per commit

    @property
    def idmap(self):
        return self.cache.idmap

    def reopen(self):
        """Close and open again; False if the backend has no persistence."""
        if self.kind == "dict":
            return False
        if self.kind == "sqlite":
            self.cache.idmap.db.close()
            self.cache_mod.mapdbs().pop(self.path, None)
            self._open_sqlite()
        elif self.kind == "tdb":
            self.cache.idmap.db.close()
            self.cache_mod.mapdbs().pop(self.path, None)
            self.cache = self.cache_mod.TdbBzrGitCache(self.path)
        else:
            self.cache = self.cache_mod.IndexBzrGitCache(self.t)
        return True

    def repack(self):
        if not self.kind.startswith("index"):
            return False
        try:
            self.idmap.repack()
        except Exception as e:  # noqa - repack is not one of the property's look-ups: note it, go on asking
            self.notes.append("repack raised %s: %s" % (type(e).__name__, str(e)[:80]))
            if getattr(self.idmap, "_builder", None) is not None:
                self.idmap.abort_write_group()
        return True

    def close(self):
        if self.kind == "sqlite":
            try:
                self.cache.idmap.db.close()
            except Exception:
                pass
            self.cache_mod.mapdbs().pop(self.path, None)
        if self.dir:
            shutil.rmtree(self.dir, ignore_errors=True)

    # ---- one update event
    def apply(self, e):
        k = e["k"]
        if k == "start":
            self.idmap.start_write_group()
        elif k == "commit":
            self.idmap.commit_write_group()
        elif k == "abort":
            self.idmap.abort_write_group()
        elif k == "rev":
            raw = e["raw"]
            u = self.cache.get_updater(FakeRev(raw["rev"], raw["parents"]))
            for t, sha, fid, rev in raw["objs"]:
                u.add_object((t, sha), (fid, rev), None)
            u.add_object(FakeCommit(raw["sha"], raw["tree"]), raw["ver"], None)
            u.finish()
        elif k == "reopen":
            return self.reopen()
        elif k == "repack":
            return self.repack()
        return True

    # ---- one look-up, normalised to [k, s, l]
    def ask(self, q, args):
        m = self.idmap
        try:
            if q == "git_sha":
                ents = []
                for t, data in m.lookup_git_sha(args[0]):
                    if t == "commit":
                        ents.append(["commit" if isinstance(t, str) else tok(t), tok(data[0]), tok(data[1]), vertok(data[2])])
                    else:
                        ents.append([t if isinstance(t, str) else tok(t)] + [tok(x) for x in data])
                return {"k": "set", "s": "", "l": ents}
            if q == "blob_id":
                return {"k": "one", "s": tok(m.lookup_blob_id(*args)), "l": []}
            if q == "tree_id":
                return {"k": "one", "s": tok(m.lookup_tree_id(*args)), "l": []}
            if q == "commit":
                return {"k": "one", "s": tok(m.lookup_commit(*args)), "l": []}
            if q == "revids":
                return {"k": "set", "s": "", "l": sorted({tok(x) for x in m.revids()})}
            if q == "sha1s":
                return {"k": "set", "s": "", "l": sorted({tok(x) for x in m.sha1s()})}
            if q == "missing":
                return {"k": "set", "s": "", "l": sorted({tok(x) for x in m.missing_revisions(list(args))})}
        except Exception as e:  # noqa - the answer IS the exception
            return {"k": "exc", "s": type(e).__name__, "l": []}
        raise ValueError(q)


def available_backends(ctx):
    kinds = ["dict", "sqlite", "index"] + ([] if ctx.quick else ["index-disk"])
    try:
        import tdb  # noqa
        kinds.append("tdb")
        ctx.cov["tdb"] = "included"
    except ImportError:
        ctx.cov["tdb"] = "skipped: python module tdb is not importable here (property: 'TDB where available')"
    return kinds


# ----------------------------------------------------------------------------- update sequences -> per-backend traces
def rev_event(rev, parents, sha, tree, ver, objs):
    """objs: [(t, sha, fid, rev)] raw bytes."""
    return {"k": "rev", "c": {"rev": tok(rev), "sha": tok(sha), "tree": tok(tree), "ver": vertok(ver)},
            "objs": [{"t": t, "sha": tok(s), "fid": tok(f), "rev": tok(r)} for t, s, f, r in objs],
            "raw": {"rev": rev, "parents": list(parents), "sha": sha, "tree": tree, "ver": ver, "objs": list(objs)}}


class Keys:
    """What has been added so far (python's only job: choosing type-correct questions; TLC knows the answers)."""

    def __init__(self):
        self.shas, self.revs, self.blobs, self.trees = [], [], [], []

    def add(self, e):
        raw = e["raw"]
        for lst, v in ((self.shas, raw["sha"]), (self.revs, raw["rev"])):
            if v not in lst:
                lst.append(v)
        for t, sha, fid, rev in raw["objs"]:
            if sha not in self.shas:
                self.shas.append(sha)
            key = (fid, rev)
            lst = self.blobs if t == "blob" else self.trees
            if key not in lst:
                lst.append(key)

    def questions(self, rng, cap):
        qs = [("revids", ()), ("sha1s", ())]
        revs = list(self.revs)
        qs.append(("missing", tuple(revs[:8] + [b"rev-unknown"])))
        if revs:
            qs.append(("missing", tuple(rng.sample(revs, max(1, len(revs) // 2)))))
        per = [("git_sha", (s,)) for s in self.shas] + [("git_sha", (b"f" * 40,))]
        per += [("commit", (r,)) for r in revs] + [("commit", (b"rev-unknown",))]
        tk = set(self.trees)
        bk = set(self.blobs)
        per += [("blob_id", k) for k in self.blobs] + [("tree_id", k) for k in self.trees]
        unknown = [(b"file-unknown", revs[0] if revs else b"r"), (self.blobs[0][0], b"rev-unknown") if self.blobs else None]
        per += [("blob_id", k) for k in unknown if k and k not in tk and k not in bk]
        unknown = [(b"dir-unknown", revs[0] if revs else b"r"), (self.trees[0][0], b"rev-unknown") if self.trees else None]
        per += [("tree_id", k) for k in unknown if k and k not in tk and k not in bk]
        if cap and len(per) > cap:
            per = rng.sample(per, cap)
        return qs + per


def q_event(be, q, args):
    return {"k": "q", "q": q, "a": [tok(a) for a in args], "r": be.ask(q, args)}


def run_sequence(ctx, kinds, seq, srv_url, meta):
    """Execute one update sequence (update events + ('ask', questions) markers) on every backend -> traces."""
    traces = []
    for kind in kinds:
        be = Backend(kind, ctx, srv_url)
        evs = []
        try:
            for e in seq:
                if e["k"] == "ask":
                    evs.extend(q_event(be, q, a) for q, a in e["qs"])
                    continue
                try:
                    done = be.apply(e)
                except Exception as ex:  # noqa - an update call that raises is an observation for TLC to judge
                    evs.append({"k": "raised", "call": e["k"], "exc": type(ex).__name__})
                    evs[-1]["msg"] = str(ex)[:80].replace('"', "'").replace("\\", "/")
                    break
                if done:
                    evs.append({k: v for k, v in e.items() if k != "raw"})
        finally:
            be.close()
        traces.append({"backend": kind, "events": evs, "meta": meta, "notes": be.notes})
    return traces


# ---- (a) native: BazaarObjectStore._update_sha_map over a generated history, recorded through the dict backend
CONTENTS = [b"A\n", b"B\n", b"C\n", b""]


def gen_history(rng, t):
    """A small 2a history with repeated texts, twin directories, renames, removals and merges."""
    from breezy.branchbuilder import BranchBuilder
    bb = BranchBuilder(t, format="2a")
    bb.start_series()
    tree = {"a": b"a-id", "b": b"b-id", "d": b"d-id", "d/x": b"dx-id", "e": b"e-id", "e/x": b"ex-id"}
    kinds = {"d": "directory", "e": "directory"}
    c0 = rng.choice(CONTENTS)
    acts = [("add", ("", b"root-id", "directory", None)), ("add", ("a", b"a-id", "file", c0)),
            ("add", ("b", b"b-id", "file", rng.choice([c0, b"B\n"]))), ("add", ("d", b"d-id", "directory", None)),
            ("add", ("d/x", b"dx-id", "file", b"X\n")), ("add", ("e", b"e-id", "directory", None)),
            ("add", ("e/x", b"ex-id", "file", rng.choice([b"X\n", b"Y\n"])))]
    bb.build_snapshot(None, acts, revision_id=b"r0", message="r0")
    trees = {b"r0": dict(tree)}
    revs = [b"r0"]
    heads = [b"r0"]
    for i in range(1, rng.randint(2, 6)):
        rid = b"r%d" % i
        base = rng.choice(heads) if rng.random() < 0.8 else rng.choice(revs)
        parents = [base]
        if len(heads) > 1 and rng.random() < 0.4:
            other = rng.choice([h for h in heads if h != base])
            parents.append(other)
        cur = dict(trees[base])
        acts = []
        for _ in range(rng.randint(0 if len(parents) > 1 else 1, 3)):
            files = [p for p in cur if kinds.get(p) != "directory"]
            r = rng.random()
            if r < 0.45 and files:
                p = rng.choice(files)
                if not any(a[0] == "modify" and a[1][0] == p for a in acts) and not any(
                        a[0] in ("rename", "unversion") and p in (a[1] if isinstance(a[1], tuple) else (a[1],)) for a in acts):
                    acts.append(("modify", (p, rng.choice(CONTENTS + [b"X\n", b"Y\n"]))))
            elif r < 0.65:
                name = rng.choice(["", "d/", "e/"]) + "n%d_%d" % (i, len(acts))
                if name.split("/")[0] in cur or "/" not in name:
                    fid = name.replace("/", "_").encode() + b"-id"
                    acts.append(("add", (name, fid, "file", rng.choice(CONTENTS))))
                    cur[name] = fid
            elif r < 0.8 and files:
                p = rng.choice(files)
                if not any(p in repr(a) for a in acts):
                    new = p + "_r%d" % i
                    acts.append(("rename", (p, new)))
                    cur[new] = cur.pop(p)
            elif r < 0.9 and len(files) > 2:
                p = rng.choice(files)
                if not any(p in repr(a) for a in acts):
                    acts.append(("unversion", p))
                    cur.pop(p)
        try:
            bb.build_snapshot(parents, acts, revision_id=rid, message=rid.decode())     # distinct commits
        except Exception:
            bb.build_snapshot(parents, [], revision_id=rid, message=rid.decode())
            cur = dict(trees[base])
        trees[rid] = cur
        revs.append(rid)
        heads = [h for h in heads if h not in parents] + [rid]
    bb.finish_series()
    return bb.get_branch().repository, revs


class _Induced(Exception):
    pass


def record_native(repo, revs, rng):
    """Drive the real converter with the dict backend and record what it feeds the cache, in write groups:
    update to a middle revision, (sometimes) an update that is aborted by an error after one revision, full update."""
    from breezy.git import cache
    from breezy.git.object_store import BazaarObjectStore
    seq, keys = [], Keys()
    c = cache.DictBzrGitCache()
    fail_at = [None]

    class RecUpdater:
        def __init__(self, inner, rev):
            self.inner, self.rev, self.objs, self.commit = inner, rev, [], None

        def add_object(self, obj, bzr_key_data, path):
            if isinstance(obj, tuple):
                type_name, hexsha = obj
                tree = None
            else:
                type_name, hexsha = obj.type_name.decode("ascii"), obj.id
                tree = getattr(obj, "tree", None)
            if type_name == "commit":
                self.commit = (hexsha, tree, dict(bzr_key_data))
            elif bzr_key_data is not None:
                self.objs.append((type_name, hexsha, bzr_key_data[0], bzr_key_data[1]))
            return self.inner.add_object(obj, bzr_key_data, path)

        def finish(self):
            r = self.inner.finish()
            e = rev_event(self.rev.revision_id, self.rev.parent_ids, self.commit[0], self.commit[1], self.commit[2], self.objs)
            seq.append(e)
            keys.add(e)
            if fail_at[0] is not None:
                fail_at[0] -= 1
                if fail_at[0] < 0:
                    fail_at[0] = None
                    raise _Induced()
            return r

    class RecCache:
        idmap = c.idmap

        def get_updater(self, rev):
            return RecUpdater(c.get_updater(rev), rev)

    def store():
        st = BazaarObjectStore(repo)
        st._cache = RecCache()
        st.start_write_group = lambda: (seq.append({"k": "start"}), c.idmap.start_write_group())[1]
        st.commit_write_group = lambda: (seq.append({"k": "commit"}), c.idmap.commit_write_group())[1]
        st.abort_write_group = lambda: (seq.append({"k": "abort"}), c.idmap.abort_write_group())[1]
        st._map_updated = False
        return st

    def ask(cap=None):
        seq.append({"k": "ask", "qs": keys.questions(rng, cap)})

    with repo.lock_read():
        mid = revs[len(revs) // 2]
        st = store()
        with st.lock_read():
            st._update_sha_map(mid)
        ask(20)
        seq.append({"k": "reopen"})
        ask()
        if rng.random() < 0.5 and len(revs) - len(keys.revs) >= 2:
            st = store()
            fail_at[0] = 0
            try:
                with st.lock_read():
                    st._update_sha_map()
            except _Induced:
                pass
            fail_at[0] = None
            ask(20)
            if rng.random() < 0.5:
                seq.append({"k": "reopen"})
                ask(20)
        st = store()
        with st.lock_read():
            st._update_sha_map()
        ask(20)
        seq.append({"k": "repack"})
        ask(20)
        seq.append({"k": "reopen"})
        ask()
    return seq


# ---- (b) raw updater API: random sequences over a small pool of ids with deliberately shared shas
def gen_raw(rng):
    def sha(i):
        return b"%040x" % i
    nrev = rng.randint(2, 6)
    revs = [b"rv%d" % i for i in range(nrev)]
    fids = [b"f%d" % i for i in range(3)]
    dids = [b"d%d" % i for i in range(3)]
    blob_pool = [sha(0x100 + i) for i in range(3)]
    tree_pool = [sha(0x200 + i) for i in range(3)]
    seq, keys = [], Keys()
    todo = list(revs)
    added = []
    fixed = {}                   # the converter is deterministic: a revision always yields the same entries
    for i, r in enumerate(revs):
        objs = [("blob", rng.choice(blob_pool), f, r) for f in fids if rng.random() < 0.6]
        objs += [("tree", rng.choice(tree_pool), d, r) for d in dids if rng.random() < 0.6]
        fixed[r] = rev_event(r, [revs[i - 1]] if i else [], sha(0x300 + i), rng.choice(tree_pool),
                             {"testament3-sha1": b"t%d" % i} if rng.random() < 0.8 else {}, objs)
    while todo or rng.random() < 0.2:
        seq.append({"k": "start"})
        fresh = []
        for _ in range(rng.randint(1, 3)):
            if not todo:
                break
            e = fixed[todo.pop(0)]
            fresh.append(e)
            seq.append(e)
            keys.add(e)
            if e not in added:
                added.append(e)
            if rng.random() < 0.3:
                seq.append({"k": "ask", "qs": keys.questions(rng, 12)})      # look-ups inside the open write group
        if rng.random() < 0.2:
            seq.append({"k": "abort"})
            if rng.random() < 0.7:                         # usually the aborted revisions are converted again later
                todo = [e["raw"]["rev"] for e in fresh] + todo
                for e in fresh:
                    added.remove(e)
        else:
            seq.append({"k": "commit"})
        seq.append({"k": "ask", "qs": keys.questions(rng, 15)})
        r = rng.random()
        if r < 0.35:
            seq.append({"k": "reopen"})
            seq.append({"k": "ask", "qs": keys.questions(rng, 15)})
        elif r < 0.45:
            seq.append({"k": "repack"})
            seq.append({"k": "ask", "qs": keys.questions(rng, 10)})
        if len(seq) > 400:
            break
    seq.append({"k": "ask", "qs": keys.questions(rng, None)})
    return seq


# ---- (c) spec -> code: behaviours sampled by TLC from GitShaMap, update events recovered from state differences
def from_behaviour(beh, rng):
    seq, keys = [], Keys()
    prev = to_py(beh[0][1])
    for act, st in beh[1:]:
        cur = to_py(st)
        name = {"StartWG": "start", "CommitWG": "commit", "AbortWG": "abort", "Reopen": "reopen", "Repack": "repack"}.get(act)
        if name:
            seq.append({"k": name})
        else:
            newc = [c for c in cur["pcommits"] if c not in prev["pcommits"]]
            newo = [o for o in cur["pobjs"] if o not in prev["pobjs"]]
            if len(newc) != 1:
                # the same commit entry again: recover it from the objects' revision, else skip the step
                cands = [c for c in cur["pcommits"] if not newo or c["rev"] == newo[0]["rev"]]
                if not cands:
                    prev = cur
                    continue
                newc = [cands[0]]
            c = newc[0]
            e = rev_event(c["rev"].encode(), [], _shab(c["sha"]), _shab(c["tree"]),
                          {"testament3-sha1": c["ver"].encode()} if c["ver"] != "nover" else {},
                          [(o["t"], _shab(o["sha"]), o["fid"].encode(), o["rev"].encode()) for o in newo])
            seq.append(e)
            keys.add(e)
        seq.append({"k": "ask", "qs": keys.questions(rng, None)})
        prev = cur
    return seq


def _shab(s):
    return (s * 40)[:40].encode()


# ----------------------------------------------------------------------------- TLC judges
_accept = re.compile(r'<<"ACCEPT", (\d+)>>')
_bad = re.compile(r'<<"BAD", (\d+), (\d+), "(\w+)", "([\w-]+)", "([\w:.?-]*)">>')
MC = {"Revs": '{"r1", "r2"}', "Fids": '{"f1", "f2"}', "Shas": '{"s1", "s2", "s3"}', "MaxObjs": 2, "MaxEntries": 3}


def mc_cfg(consts, invariants=(), properties=(), constraint=True, spec="Spec"):
    t = "SPECIFICATION %s\n" % spec + ("CONSTRAINT Bounded\n" if constraint else "")
    t += "CONSTANTS\n" + "".join("  %s = %s\n" % kv for kv in consts.items())
    return t + "".join("INVARIANT %s\n" % i for i in invariants) + "".join("PROPERTY %s\n" % p for p in properties)


_ctr = [0]
_KINDS = []


def judge(ctx, traces, label, workers=4):
    """-> {tid: [(event index, q, class, detail)]}; every trace must be consumed."""
    out = {}
    for off in range(0, len(traces), 1500):
        part = traces[off:off + 1500]
        _ctr[0] += 1
        fin = os.path.join(ctx.workdir, "shatraces_%d_%d.json" % (os.getpid(), _ctr[0]))
        with open(fin, "w") as f:
            json.dump([{"events": t["events"]} for t in part], f)
        res = tlc.run(ctx, "GitShaMapTrace", cfg_text=mc_cfg(MC, constraint=False, spec="TraceSpec"), env={"VF_IN": fin},
                      workers=workers, timeout=1500)
        ctx.add_tlc(res, label)
        os.unlink(fin)
        acc = {int(t) for t in _accept.findall(res["output"])}
        if len(acc) != len(part):
            miss = [i for i in range(1, len(part) + 1) if i not in acc][:3]
            ctx.machinery("GitShaMapTrace consumed %d of %d recorded executions (e.g. #%s, backend %s):\n%s" % (
                len(acc), len(part), miss, [part[i - 1]["backend"] for i in miss], res["output"][-1500:]))
        for t in acc:
            out[off + t] = []
        for t, l, q, cls, det in _bad.findall(res["output"]):
            out[off + int(t)].append((int(l), q, cls, det))
    return out


def signature(backend, q, cls, det):
    what = {"raises": "raises-" + det, "keeps-some-of-shared-sha": "keeps-some-of-the-%s-entries-sharing-a-sha" % det,
            "raises-on-shared-sha": "raises-%s-for-key-whose-sha-is-shared" % det,
            "ignores-open-write-group": "ignores-revisions-of-the-open-write-group",
            "answers-unknown-key": "answers-unknown-key", "other": "wrong-" + det}.get(cls, cls)
    return "%s:%s:%s" % (QNAME.get(q, q), KLASS.get(backend, backend), what)


def report(ctx, traces, verdicts):
    for tid, bad in sorted(verdicts.items()):
        tr = traces[tid - 1]
        for l, q, cls, det in bad:
            e = tr["events"][l - 1]
            if e["k"] == "raised":
                ctx.violation(signature(tr["backend"], q, cls, det),
                              "%s backend: %s raised %s (%s) where the abstract map accepts the call; rest of the sequence "
                              "skipped (%s)" % (tr["backend"], QNAME.get(q, q), e["exc"], e.get("msg"), tr["meta"]),
                              {"backend": tr["backend"], "event": l, "meta": tr["meta"], "events": tr["events"][:l]})
                continue
            ctx.violation(signature(tr["backend"], q, cls, det),
                          "%s backend: %s(%s) answered %s, which is not Lookup(state) after the recorded updates (%s; %s)" % (
                              tr["backend"], QNAME.get(q, q), ", ".join(e["a"]), e["r"], cls, tr["meta"]),
                          {"backend": tr["backend"], "event": l, "meta": tr["meta"], "events": tr["events"][:l]})


def _chunk(sub, chunk):
    """(source, seed) jobs -> sequences -> traces on every backend -> TLC."""
    import random
    from breezy import transport as T
    from dromedary import memory
    srv = memory.MemoryServer()
    srv.start_server()
    kinds = _KINDS
    traces = []
    try:
        for source, seed in chunk:
            rng = random.Random(seed)
            if source == "history":
                t = T.get_transport(srv.get_url() + "h%d" % seed)
                t.ensure_base()
                repo, revs = gen_history(rng, t)
                seq = record_native(repo, revs, rng)
                meta = "history seed %d, %d revisions" % (seed, len(revs))
            elif source == "raw":
                seq = gen_raw(rng)
                meta = "raw updater API seed %d" % seed
            else:
                seq = from_behaviour(source, rng)
                meta = "TLC behaviour"
            trs = run_sequence(sub, kinds, seq, srv.get_url(), meta)
            traces.extend(trs)
            sub.count(len(trs), traces=len(trs))
            shape = tuple((e["k"], e.get("c", {}).get("rev"), len(e.get("objs", ()))) for e in seq if e["k"] != "ask")
            if sum(1 for e in seq if e["k"] == "rev") >= 2:
                sub.nontrivial(repr(shape))
            for tr in trs:
                for n in tr["notes"]:
                    sub.assume("observed (not a look-up, not judged): %s backend: %s" % (tr["backend"], n))
    finally:
        srv.stop_server()
    if traces:
        report(sub, traces, judge(sub, traces, "validate backend answers", workers=2))
        if not sub.cov["samples"]:
            tr = next((t for t in traces if t["backend"] == "index"), traces[0])
            sub.sample({"backend": tr["backend"], "meta": tr["meta"],
                        "events": [(e["k"], e.get("q") or (e.get("c") or {}).get("rev"), e.get("a"), (e.get("r") or {}).get("k"))
                                   for e in tr["events"][:14]]})
    return traces


def run(ctx):
    import tempfile
    env.init()
    if os.path.isdir("/dev/shm") and os.access("/dev/shm", os.W_OK):
        _SCRATCH[0] = tempfile.mkdtemp(prefix="vf-C38-", dir="/dev/shm")
    try:
        _run(ctx)
    finally:
        if _SCRATCH[0]:
            shutil.rmtree(_SCRATCH[0], ignore_errors=True)
            _SCRATCH[0] = None


def _run(ctx):
    kinds = available_backends(ctx)
    ctx.cov["backends"] = kinds
    # ---- E1: the abstract map's own laws on a small universe
    small = dict(MC, Fids='{"f1"}', MaxObjs=1)
    tlc.check(ctx, "GitShaMap", cfg_text=mc_cfg(small if ctx.quick else MC,
                                                ("TypeOK", "LawCommit", "LawObject", "LawSha1s", "LawRevids"),
                                                ("Durable", "AbortIsolated")), label="MC abstract map", timeout=1500, workers=4 if ctx.quick else 16)
    for w in ("WitnessSharedBlob", "WitnessLimbo"):
        tlc.check(ctx, "GitShaMap", cfg_text=mc_cfg(dict(small, MaxEntries=4), (w,)), expect_violation=w,
                  label="witness " + w, timeout=1500, workers=4)
    # ---- E2: behaviours sampled by TLC
    behs, _ = tlc.simulate(ctx, "GitShaMap", cfg_text=mc_cfg(dict(MC, Revs='{"r1", "r2", "r3"}', Shas='{"a", "b", "c"}',
                                                                   MaxEntries=12)),
                           num=40 if ctx.quick else 400, depth=14, seed=ctx.seed + 1, label="simulate abstract map")
    jobs = [(b, 0) for b in behs]
    # ---- E3 (primary): native histories and raw API sequences
    nh, nr = (100, 60) if ctx.quick else (1200, 600)
    jobs += [("history", ctx.seed * 100000 + i) for i in range(nh)]
    jobs += [("raw", ctx.seed * 100000 + 50000 + i) for i in range(nr)]
    _KINDS[:] = kinds               # read by the (forked) workers
    if ctx.quick:
        core.fork_map(ctx, _chunk, jobs, nproc=4, chunks_per_proc=1)
    else:
        core.fork_map(ctx, _chunk, jobs, chunks_per_proc=1)
    selftest(ctx, kinds)
    ctx.rule("update sequences = (a) what BazaarObjectStore._update_sha_map feeds the cache for generated 2a histories "
             "(2-6 revisions; repeated texts, twin directories, renames, removals, merges), in two or three write groups "
             "with an induced abort, re-opens and a repack; (b) random raw-updater sequences over 3 file ids / 3 directory "
             "ids / 3+3 shared shas with aborts, re-conversion of aborted revisions and look-ups inside open write groups; (c) behaviours "
             "sampled by TLC from GitShaMap.tla.  Each sequence runs on every backend; look-ups = every sha / revision / "
             "blob key / tree key added so far + unknown keys + revids + sha1s + missing_revisions.  non-trivial = at "
             "least two revisions added")
    ctx.assume("look-ups are type-correct (blob look-ups for file keys, tree look-ups for directory keys)")
    ctx.assume("entries of an aborted write group may or may not be visible afterwards")


def selftest(ctx, kinds):
    """Binding self-test: a doctored answer and a dropped update must be reported by TLC."""
    import copy
    import random
    from dromedary import memory
    srv = memory.MemoryServer()
    srv.start_server()
    try:
        seq = gen_raw(random.Random(7))
        good = run_sequence(ctx, ["dict"], seq, srv.get_url(), "self-test")[0]
    finally:
        srv.stop_server()
    bad = copy.deepcopy(good)
    k = next(i for i, e in enumerate(bad["events"]) if e["k"] == "q" and e["q"] == "commit" and e["r"]["k"] == "one")
    bad["events"][k]["r"]["s"] = "0" * 40
    bad2 = copy.deepcopy(good)
    k2 = next(i for i, e in enumerate(bad2["events"]) if e["k"] == "rev")
    del bad2["events"][k2]                        # a dropped update: later answers no longer match
    v = judge(ctx, [good, bad, bad2], "binding self-test", workers=1)
    # (the recorded trace itself is judged like any other: if the backend is wrong the main run reports it)
    if not any(l == k + 1 for l, q, c, d in v[2]) or len(v[3]) <= len(v[1]):
        ctx.machinery("binding self-test: doctored traces were not rejected: %s" % {k_: x[:3] for k_, x in v.items()})
