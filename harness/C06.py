"""C06 — aborted and suspended write groups have no visible effect until committed."""
import re

from vf import env, tlc, core, world
from vf.tlaval import parse_state, to_py

META = dict(
    property_id="C06", level="model_checking", design_ref="DESIGN.md §4 C06",
    technique="TLA+ state machine of write groups (start / insert component / abort / commit-or-refuse / suspend / "
              "resume) model-checked by TLC with the C06 clauses as invariants and action properties; a transition "
              "cover of TLC's state graph replayed through the public Repository write-group API on real 2a / "
              "pack-0.92 / remote repositories, a FRESH repository object projected after every call",
    level_text="TLC enumerates every sequence of write-group calls over the components of a new revision (revision "
               "text, inventory, CHK pages, file text, signature, dangling inventory delta) and proves: nothing is "
               "visible before commit, a refused commit is a no-op, a committed new revision is complete. Every edge "
               "of that graph is executed on a real repository; after each call a fresh Repository object must see "
               "exactly the spec's visible set, pack-names must list exactly the spec's number of packs, and "
               "upload/ must be empty whenever the spec says so.",
    level_note="Components are copied from a source repository as record streams (the way fetch inserts them). "
               "Stacked repositories' missing-parent-inventory rule is covered by C08. bzrformats stream "
               "(de)serialisers trusted as executed.",
)

COMPS_2A = ["rev", "inv", "chk", "txt", "sig"]
COMPS_KNIT = ["rev", "inv", "txt", "sig", "dangle"]
NEEDS = {True: ("inv", "chk", "txt"), False: ("inv", "txt")}


def cfg(comps, haschk, maxins, extra="", complete=True):
    """2a-like formats (haschk) check new revisions and refuse early; knit-pack formats do neither (named deviations
    CheckNeeds = FALSE, LateRefusal = TRUE in WriteGroup.tla), so CommittedComplete is NOT an invariant of their model."""
    return ("SPECIFICATION Spec\nCONSTANTS\n  Components = {%s}\n  HasChk = %s\n  CheckNeeds = %s\n  LateRefusal = %s\n"
            "  MaxIns = %d\n%sINVARIANT NoDangling\nPROPERTY NoEffectUntilCommit\nPROPERTY RefusalIsNoop\n"
            % (", ".join('"%s"' % c for c in comps), "TRUE" if haschk else "FALSE", "TRUE" if haschk else "FALSE",
               "FALSE" if haschk else "TRUE", maxins,
               "INVARIANT CommittedComplete\n" if (complete and haschk) else "")) + extra


class Fixture:
    """Source repository with r1 -> r2 -> r3 (+ signature on r2); targets hold r1."""

    def __init__(self, fmt):
        self.fmt = fmt
        dag = [("r1", []), ("r2", ["r1"]), ("r3", ["r2"])]
        self.src = world.build_dag(dag, fmt=fmt)
        repo = self.src.repository
        with repo.lock_write():
            repo.start_write_group()
            repo.add_signature_text(b"r2", b"-----BEGIN SIG-----\nr2\n")
            repo.commit_write_group()
        self.chk2 = None
        if fmt == "2a":
            # CHK pages that r2's inventory adds to a repository holding r1
            s2 = world.build_dag(dag[:2], fmt=fmt).repository
            s1 = world.build_dag(dag[:1], fmt=fmt).repository
            with s2.lock_read(), s1.lock_read():
                self.chk2 = set(s2.chk_bytes.keys()) - set(s1.chk_bytes.keys())

    def new_target(self, remote=False):
        from breezy import controldir
        from dromedary import memory
        srv = memory.MemoryServer()
        srv.start_server()
        f = controldir.format_registry.make_controldir(self.fmt)
        b = controldir.ControlDir.create_branch_convenience(srv.get_url() + "t", format=f, force_new_tree=False)
        b.repository.fetch(self.src.repository, revision_id=b"r1")
        self.url = srv.get_url() + "t"
        self.srv = srv
        if remote:
            from breezy import transport as T, repository as R
            rt, m = world.inproc_remote_transport(T.get_transport(srv.get_url()))
            return R.Repository.open_from_transport(rt.clone("t")) if hasattr(R.Repository, "open_from_transport") \
                else controldir.ControlDir.open_from_transport(rt.clone("t")).open_repository()
        from breezy import repository as R
        return R.Repository.open(self.url)

    def reopen_remote(self):
        """A new RemoteRepository (new client medium, new server-side objects) on the current target."""
        from breezy import transport as T, controldir
        rt, m = world.inproc_remote_transport(T.get_transport(self.srv.get_url()))
        return controldir.ControlDir.open_from_transport(rt.clone("t")).open_repository()

    def insert(self, repo, comp):
        s = self.src.repository
        with s.lock_read():
            if comp == "rev":
                repo.revisions.insert_record_stream(s.revisions.get_record_stream([(b"r2",)], "unordered", True))
            elif comp == "inv":
                repo.inventories.insert_record_stream(s.inventories.get_record_stream([(b"r2",)], "unordered", True))
            elif comp == "chk":
                repo.chk_bytes.insert_record_stream(s.chk_bytes.get_record_stream(sorted(self.chk2), "unordered", True))
            elif comp == "txt":
                keys = [k for k in s.texts.keys() if k[1] == b"r2"]
                repo.texts.insert_record_stream(s.texts.get_record_stream(keys, "unordered", True))
            elif comp == "sig":
                repo.signatures.insert_record_stream(s.signatures.get_record_stream([(b"r2",)], "unordered", True))
            elif comp == "dangle":
                repo.inventories.insert_record_stream(s.inventories.get_record_stream([(b"r3",)], "unordered", False))

    def project(self):
        """What a fresh repository object sees."""
        from breezy import repository as R, transport as T
        repo = R.Repository.open(self.url)
        with repo.lock_read():
            vis = set()
            if (b"r2",) in repo.revisions.keys():
                vis.add("rev")
            ik = repo.inventories.keys()
            if (b"r2",) in ik:
                vis.add("inv")
            if (b"r3",) in ik:
                vis.add("dangle")
            if any(k[1] == b"r2" for k in repo.texts.keys()):
                vis.add("txt")
            if (b"r2",) in repo.signatures.keys():
                vis.add("sig")
            if self.chk2:
                have = set(repo.chk_bytes.keys())
                if have >= self.chk2:
                    vis.add("chk")
                elif have & self.chk2:
                    vis.add("chk-partial")
            listed = len(repo._pack_collection.names()) - 1
        t = T.get_transport(self.url + "/.bzr/repository/")
        return {"visible": sorted(vis), "listed": listed, "upload": bool(t.list_dir("upload"))}

    def close(self):
        self.srv.stop_server()


_act = re.compile(r"^(\w+)(?:\((.*)\))?$")


def replay_paths(sub, chunk):
    from bzrformats.errors import BzrCheckError
    for pidx, (fmt, remote, comps, nodes, path) in enumerate(chunk):
        fx = FIX[fmt]
        haschk = "chk" in comps
        repo = fx.new_target(remote)
        try:
            repo.lock_write()
            tokens = None
            calls = []
            stale = []
            prev_got = prev_want = None
            try:
                for act, nid in path[1:]:
                    m = _act.match(act)
                    name, arg = m.group(1), (m.group(2) or "").strip('"')
                    want = to_py(parse_state(nodes[nid]))
                    outcome = "ok"
                    try:
                        if name == "Start":
                            repo.start_write_group()
                        elif name == "Ins":
                            fx.insert(repo, arg)
                        elif name in ("Abort", "AbortWrecked"):
                            repo.abort_write_group()
                        elif name == "Commit":
                            try:
                                repo.commit_write_group()
                            except BzrCheckError:
                                outcome = "refused"
                        elif name == "Suspend":
                            tokens = repo.suspend_write_group()
                        elif name == "Resume":
                            # "later resuming": a fresh repository object, as another process / the smart server would;
                            # every other path resumes its FIRST suspension on the same object (what local callers do)
                            first = not any(c[0] == "Resume" for c in calls)
                            if not (first and pidx % 2 == 0):
                                if remote:      # the lock is the server's: release it before another client resumes
                                    repo.unlock()
                                    repo = fx.reopen_remote()
                                else:
                                    stale.append(repo)
                                    repo = R_open(fx.url)
                                repo.lock_write()
                            repo.resume_write_group(tokens)
                    except Exception as e:
                        outcome = "error:" + type(e).__name__
                    calls.append([name, arg, outcome])
                    got = fx.project()
                    rep = {"format": fmt, "remote": remote, "calls": calls}
                    if name in ("Abort", "AbortWrecked") and prev_want is not None and prev_want["wg"] == "refused" \
                            and not haschk and prev_want["ntok"] > 0 and (name == "AbortWrecked" or outcome.startswith("error")):
                        # named deviation AbortWrecked: abort after a late refusal may raise and the object is unusable;
                        # only the repository content is judged, then the path ends
                        sub.cov["abort_after_late_refusal"] = sub.cov.get("abort_after_late_refusal", 0) + 1
                        if outcome.startswith("error"):
                            sub.cov["abort_after_late_refusal_raised"] = sub.cov.get("abort_after_late_refusal_raised", 0) + 1
                        if got["visible"] != sorted(want["visible"]) or got["listed"] != prev_got["listed"]:
                            sub.violation("visible-mismatch:Abort:after-late-refusal",
                                          "after the abort a fresh open sees %s / %d packs, specified %s" % (
                                              got["visible"], got["listed"], sorted(want["visible"])), rep)
                        break
                    if outcome != want["last"]:
                        if outcome.startswith("error"):
                            sub.violation("wg-call-raises:%s:%s" % (name, outcome), "%s raised %s" % (name, outcome), rep)
                        elif outcome == "ok" and want["last"] == "refused":
                            sub.violation("incomplete-write-group-committed:%s" % "+".join(sorted(want["ins"])),
                                          "commit of %s was not refused" % sorted(want["ins"]), rep)
                        else:
                            sub.violation("commit-refused-unexpectedly:%s" % "+".join(sorted(want["ins"])),
                                          "commit of %s refused" % sorted(want["ins"]), rep)
                        break
                    if name == "Commit" and outcome == "ok" and "rev" in got["visible"]:
                        missing = sorted(set(NEEDS[haschk]) - set(got["visible"]))
                        if missing:     # C06: "a write group whose new revisions reference missing inventories or texts is refused"
                            sub.violation("incomplete-revision-committed:%s:missing-%s" % (fmt, "+".join(missing)),
                                          "commit_write_group accepted revision r2 without its %s" % ", ".join(missing), rep)
                    if got["visible"] != sorted(want["visible"]):
                        phase = "uncommitted" if want["wg"] != "none" or name in ("Abort",) else "committed"
                        sub.violation("visible-mismatch:%s:%s" % (name, phase),
                                      "after %s a fresh open sees %s, specified %s" % (name, got["visible"], sorted(want["visible"])), rep)
                        break
                    # pack-names may only change at a successful commit of inserted data (how many packs a commit
                    # adds is not specified: a resumed group commits its resumed pack(s) plus the new one)
                    ch_got = prev_got is not None and got["listed"] != prev_got["listed"] or (prev_got is None and got["listed"] != 0)
                    ch_want = prev_want is not None and want["listed"] != prev_want["listed"] or (prev_want is None and want["listed"] != 0)
                    if ch_got != ch_want:
                        sub.violation("pack-names-change-mismatch:%s" % name, "pack-names %s at %s, specified %s" % (
                            "changed" if ch_got else "unchanged", name, "a change" if ch_want else "no change"), rep)
                        break
                    prev_got, prev_want = got, want
                    if got["upload"] and not want["upload"]:
                        sub.violation("leftover-upload:%s" % name, "upload/ not empty after %s" % name, rep)
                        break
                    if want["upload"] and not got["upload"] and name in ("Suspend",):
                        sub.drift("spec expects suspended data in upload/ after %s" % name, rep)
                sub.count(1, traces=1)
                sub.nontrivial((fmt, remote, tuple(tuple(c) for c in calls)))
                if len(sub.cov["samples"]) < 1 and len(calls) > 4:
                    sub.sample({"format": fmt, "calls": calls})
            finally:
                try:
                    if repo.is_in_write_group():
                        repo.abort_write_group()
                except Exception:
                    pass
                repo.unlock()
                for r in stale:
                    try:
                        r.abort_write_group()
                    except Exception:
                        pass
                    try:
                        r.unlock()
                    except Exception:
                        pass
        finally:
            fx.close()


def double_suspend_same_object(ctx, fmt):
    """The one call sequence the known finding is about: suspend . resume . suspend . resume on ONE object."""
    fx = FIX[fmt]
    repo = fx.new_target()
    calls = [["Start", "", "ok"], ["Ins", "sig", "ok"], ["Suspend", "", "ok"], ["Resume", "", "ok"], ["Ins", "txt", "ok"],
             ["Suspend", "", "ok"]]
    try:
        repo.lock_write()
        repo.start_write_group()
        fx.insert(repo, "sig")
        t = repo.suspend_write_group()
        repo.resume_write_group(t)
        fx.insert(repo, "txt")
        t2 = repo.suspend_write_group()
        try:
            repo.resume_write_group(t2)
            repo.commit_write_group()
            got = fx.project()
            if got["visible"] != ["sig", "txt"]:
                ctx.violation("visible-mismatch:Commit:double-suspend-same-object", "fresh open sees %s" % got["visible"],
                              {"format": fmt, "calls": calls + [["Resume", "", "ok"], ["Commit", "", "ok"]]})
        except AssertionError as e:
            ctx.violation("resume-after-second-suspend-same-object:AssertionError",
                          "resume_write_group(%d tokens) on the object that suspended twice: %s" % (len(t2), str(e)[:80]),
                          {"format": fmt, "calls": calls + [["Resume", "", "AssertionError"]]})
        ctx.count(1, traces=1)
    finally:
        try:
            repo.unlock()
        except Exception:
            pass
        fx.close()


def R_open(url):
    from breezy import repository as R
    return R.Repository.open(url)


FIX = {}


def run(ctx):
    env.init()
    jobs = []
    plans = [("2a", False, COMPS_2A, True, 3 if ctx.quick else 5)]
    if not ctx.quick:
        plans += [("pack-0.92", False, COMPS_KNIT, False, 4), ("2a", True, COMPS_2A, True, 3)]
    for fmt, remote, comps, haschk, maxins in plans:
        if fmt not in FIX:
            FIX[fmt] = Fixture(fmt)
        for w in ("WitnessRefused", "WitnessResumedCommit", "WitnessTwoTokensCommitted"):
            tlc.check(ctx, "WriteGroup", cfg_text=cfg(comps, haschk, maxins, "INVARIANT %s\n" % w).replace(
                "PROPERTY NoEffectUntilCommit\nPROPERTY RefusalIsNoop\n", ""), expect_violation=w, label="witness " + w, workers=4)
        if not haschk:
            # design-level counter-example of the named deviation CheckNeeds = FALSE: TLC must find a committed revision
            # without its inventory / text (the finding incomplete-revision-committed:<fmt>:* reproduces it on real code)
            tlc.check(ctx, "WriteGroup", cfg_text=cfg(comps, haschk, maxins, "INVARIANT CommittedComplete\n").replace(
                "PROPERTY NoEffectUntilCommit\nPROPERTY RefusalIsNoop\n", ""), expect_violation="CommittedComplete",
                label="deviation CheckNeeds=FALSE " + fmt, workers=4)
        nodes, edges, inits, res = tlc.graph(ctx, "WriteGroup", cfg_text=cfg(comps, haschk, maxins), workers=4,
                                             label="MC + graph %s%s" % (fmt, " remote" if remote else ""))
        paths = list(tlc.transition_cover(nodes, edges, inits, rng=ctx.rng, max_len=14))
        ctx.cov.setdefault("graphs", []).append({"format": fmt, "remote": remote, "nodes": len(nodes), "edges": len(edges),
                                                 "paths": len(paths)})
        for p in paths:
            jobs.append((fmt, remote, comps, {nid: nodes[nid] for _, nid in p}, p))
    core.fork_map(ctx, replay_paths, jobs)
    for fmt in sorted({p[0] for p in plans}):
        double_suspend_same_object(ctx, fmt)
    ctx.cov["exhaustive"] = True
    ctx.rule("paths = transition cover of TLC's state graph of WriteGroup.tla (every edge = one write-group API call in "
             "one abstract state); distinct = (format, call sequence with outcomes)")
