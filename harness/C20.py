"""C20 — conflict and merge-hash records persist and resolve faithfully."""
import json
import os
import shutil

from vf import core, env, table

META = dict(
    property_id="C20", level="model_checking", design_ref="DESIGN.md §4 C20",
    technique="TLA+ Conflicts!Select (the selection rule of select_conflicts) and persistence-as-identity, model-checked by "
              "TLC over enumerated conflict lists x path selections x recurse; every case is stored with set_conflicts / "
              "set_merge_modified on a real on-disk working tree, read back from a re-opened tree, selected with the real "
              "select_conflicts and resolved with the real resolve(); TLC judges the recorded outcomes with the C20 laws",
    level_text="Exhaustive over the ten registered conflict types x paths x optional conflict path x file ids (in the tree / "
               "not in the tree / none) as single-conflict lists, all selections of <= 2 paths (incl. the root) with and "
               "without recursion, plus all lists of 2 (thorough 3) conflicts from a mixed universe. Selection treats each "
               "conflict independently, so single conflicts x selections is the decisive space. Abstract names are "
               "concretised to hostile unicode paths, file ids and action texts (rotating schemes) on real trees.",
    level_note="The stanza byte format is not modelled (identity through the real round trip is the law). Paths contain no "
               "newline. merge_modified is specified as: recorded hashes of the files that are still versioned at the re-open and "
               "whose text still has that hash (files are un-versioned / modified between set and re-open, in every record "
               "position). "
               "Trusted: TLC, the JSON bridge, the projection of Conflict objects to records.",
)

NONE = "-"
ROOT_ID = "froot"

# segment / file-id / action concretisations
SCHEMES = [
    dict(seg={"a": "a", "d": "d", "e": "e"},
         ids={"fa": b"fa-id", "fd": b"fd-id", "fda": b"fda-id", "fdd": b"fdd-id", "fdda": b"fdda-id", "fx": b"fx-id"},
         act={"act1": "Moved existing file to", "act2": "Created directory"}),
    dict(seg={"a": "\u00e9", "d": "d\u00efr \u65e5\u672c", "e": "sp ace"},
         ids={"fa": "\u00efd-a-\u65e5".encode(), "fd": "\u00efd-d".encode(), "fda": "\u0434\u0430".encode(),
              "fdd": b"dd", "fdda": "\U0001F600".encode(), "fx": "\u00e9x".encode()},
         act={"act1": "D\u00e9plac\u00e9 vers", "act2": "\u4f5c\u6210"}),
    dict(seg={"a": "\U0001F600", "d": "a b  c", "e": "e\u0301"},                   # astral, inner spaces, NFD (unversioned)
         ids={"fa": b"x:y;z=1", "fd": b"type", "fda": b"path", "fdd": b"a.b-c_d", "fdda": b"#id", "fx": b"[x]"},
         act={"act1": "path: x", "act2": "type: text conflict"}),                  # stanza look-alikes
    dict(seg={"a": "path: x", "d": "#d", "e": "file_id"},
         ids={"fa": b"a" * 200, "fd": b"-", "fda": b"\xc2\xa0nbsp", "fdd": b"=", "fdda": b"%2F", "fx": b"'q\"q"},
         act={"act1": "a\tb", "act2": "x " * 50 + "y"}),
    dict(seg={"a": " lead", "d": "trail ", "e": "a.THIS"},
         ids={"fa": b"tree-root", "fd": b"TREE_ROOT", "fda": b"null:", "fdd": b"0", "fdda": b"None", "fx": b"conflicts"},
         act={"act1": " ", "act2": "Versioned directory"}),
]
TREE_PATHS = [(("a",), "fa", "file"), (("d",), "fd", "directory"), (("d", "a"), "fda", "file"),
              (("d", "d"), "fdd", "directory"), (("d", "d", "a"), "fdda", "file")]
MM_FILES = {"a": ("a",), "da": ("d", "a"), "dda": ("d", "d", "a"), "e": ("e",)}
MM_IDS = {"a": "fa", "da": "fda", "dda": "fdda"}


class Tree:
    """One real on-disk working tree per scheme."""

    def __init__(self, root, scheme):
        from breezy import controldir, osutils
        self.dir, self.s = root, scheme
        self.wt = controldir.ControlDir.create_standalone_workingtree(
            root, format=controldir.format_registry.make_controldir("2a"))
        self.content = {}
        for segs, fid, kind in TREE_PATHS:
            p = os.path.join(root, *[scheme["seg"][x] for x in segs])
            if kind == "directory":
                os.mkdir(p)
            else:
                data = ("text of %s\n" % fid).encode()
                with open(p, "wb") as f:
                    f.write(data)
                self.content[segs] = data
        with open(os.path.join(root, scheme["seg"]["e"]), "wb") as f:
            f.write(b"unversioned\n")
        self.content[("e",)] = b"unversioned\n"
        self.wt.add([self.cpath(s) for s, _f, _k in TREE_PATHS], ids=[scheme["ids"][f] for _s, f, _k in TREE_PATHS])
        self.inv_seg = {v: k for k, v in scheme["seg"].items()}
        self.inv_id = {v: k for k, v in scheme["ids"].items()}
        self.inv_id[self.wt.path2id("")] = ROOT_ID
        self.inv_act = {v: k for k, v in scheme["act"].items()}
        self.sha = osutils.sha_string

    def open(self):
        from breezy.workingtree import WorkingTree
        return WorkingTree.open(self.dir)

    # ---- abstract -> concrete
    def cpath(self, segs):
        return "/".join(self.s["seg"][x] for x in segs)

    def conflict(self, k):
        from breezy.bzr import conflicts as C
        cls = C.ctype[k["type"]]
        kw = {"path": self.cpath(k["path"])}
        if k["fid"] != NONE:
            kw["file_id"] = self.s["ids"][k["fid"]]
        if k["cpath"]:
            kw["conflict_path"] = self.cpath(k["cpath"][0])
        if k["cfid"] != NONE:
            kw["conflict_file_id"] = self.s["ids"][k["cfid"]]
        if k["action"] != NONE:
            kw["action"] = self.s["act"][k["action"]]
        return cls(**kw)

    # ---- concrete -> abstract
    def apath(self, p):
        return [] if p == "" else [self.inv_seg.get(x, "?") for x in p.split("/")]

    def record(self, obj):
        cp = getattr(obj, "conflict_path", None)
        fid = getattr(obj, "file_id", None)
        cfid = getattr(obj, "conflict_file_id", None)
        act = getattr(obj, "action", None)
        return {"type": obj.typestring if isinstance(obj.typestring, str) else "?",
                "path": self.apath(obj.path) if isinstance(obj.path, str) else ["?"],
                "cpath": [] if cp is None else [self.apath(cp)],
                "fid": NONE if fid is None else self.inv_id.get(fid, "?"),
                "cfid": NONE if cfid is None else self.inv_id.get(cfid, "?"),
                "action": NONE if act is None else self.inv_act.get(act, "?")}

    def records(self, lst):
        return [self.record(x) for x in lst]


def _sel_rows(sub, tree, lst, cases):
    """One conflict list, several selections. Persist once per selection (resolve rewrites the file)."""
    from breezy.bzr.conflicts import ConflictList
    from breezy.conflicts import resolve
    rows = []
    objs = [tree.conflict(k) for k in lst]
    for c in cases:
        tree.wt.set_conflicts(ConflictList(objs))
        wt2 = tree.open()
        back = wt2.conflicts()
        paths = [tree.cpath(p) for p in c["paths"]]
        with wt2.lock_read():
            kept, selected = back.select_conflicts(wt2, paths, ignore_misses=True, recurse=c["recurse"])
        resolve(tree.open(), paths, ignore_misses=True, recursive=c["recurse"], action="done")
        remaining = tree.open().conflicts()
        rows.append({"c": c, "impl": {"back": tree.records(back), "kept": tree.records(kept),
                                       "selected": tree.records(selected), "remaining": tree.records(remaining)}})
        sub.count(1)
        if lst:
            sub.nontrivial(json.dumps([c["list"], c["paths"], c["recurse"]], sort_keys=True))
    return rows


def _mm_row(sub, tree, c, serial):
    """set_merge_modified(records in order) -> the listed files are un-versioned / modified -> re-open -> merge_modified()."""
    # fresh fixture state: every file versioned under its id, with a text of its own for this row
    wt = tree.open()
    texts = {}
    for n, segs in MM_FILES.items():
        texts[n] = ("text of %s, row %d\n" % (n, serial)).encode()
        with open(os.path.join(tree.dir, *[tree.s["seg"][x] for x in segs]), "wb") as f:
            f.write(texts[n])
        if n in MM_IDS and wt.path2id(tree.cpath(segs)) is None:
            wt.add([tree.cpath(segs)], ids=[tree.s["ids"][MM_IDS[n]]])
    cur = {n: tree.sha(t) for n, t in texts.items()}
    stale = tree.sha(b"stale text\n")
    given = {}                                   # insertion order = order of the records in the file
    for r in c["recs"]:
        given[tree.cpath(MM_FILES[r["name"]])] = cur[r["name"]] if r["hash"] == "cur" else stale
    tree.open().set_merge_modified(given)
    # what happens before the tree is opened again
    wt = tree.open()
    for i, r in enumerate(c["recs"]):
        p = tree.cpath(MM_FILES[r["name"]])
        if r["after"] == "unv":
            with wt.lock_tree_write():
                if (serial + i) % 2:
                    wt.remove([p], keep_files=True, verbose=False)
                else:
                    wt.unversion([p])
        elif r["after"] == "mod":
            with open(os.path.join(tree.dir, *[tree.s["seg"][x] for x in MM_FILES[r["name"]]]), "wb") as f:
                f.write(b"changed by the user: " + texts[r["name"]])
    back = tree.open().merge_modified()
    inv = {tree.cpath(segs): n for n, segs in MM_FILES.items()}
    out = {n: NONE for n in c["names"]}
    unknown = False
    for p, h in back.items():
        n = inv.get(p)
        if n is None:
            unknown = True
            continue
        out[n] = "cur" if h == cur[n] else "old" if h == stale else "?"
    if unknown:
        out = {n: "?" for n in out}
    sub.count(1)
    if c["recs"]:
        sub.nontrivial(json.dumps(c["recs"], sort_keys=True))
    return {"c": c, "impl": {"back": out}}


def _replay(sub, chunk):
    """chunk: (scheme index, list-or-None, cases)."""
    trees = {}
    rows = []
    try:
        for si, lst, cases in chunk:
            if si not in trees:
                trees[si] = Tree(os.path.join(sub.workdir, "t%d" % si), SCHEMES[si])
            tree = trees[si]
            if lst is None:
                for serial, c in cases:
                    r = _mm_row(sub, tree, c, serial)
                    r["scheme"] = si
                    rows.append(r)
            else:
                for r in _sel_rows(sub, tree, lst, cases):
                    r["scheme"] = si
                    rows.append(r)
    finally:
        for t in trees.values():
            shutil.rmtree(t.dir, ignore_errors=True)
    path = os.path.join(os.path.dirname(sub.workdir), "rows_%s.json" % os.path.basename(sub.workdir))
    with open(path, "w") as f:
        json.dump(rows, f)


def _shape(c):
    if c["kind"] == "mm":
        return "merge_modified"
    types = sorted({k["type"] for k in c["list"]})
    return "%s:%s" % ("+".join(types).replace(" ", "_") if len(types) <= 1 else "mixed-list",
                      "recurse" if c["recurse"] else "exact")


def run(ctx):
    import glob
    env.init()
    consts = {"MaxList": 2, "Full": "FALSE"} if ctx.quick else {"MaxList": 3, "Full": "TRUE"}
    cases = table.generate(ctx, "ConflictsGen", consts, workers=4,
                           witnesses=("WitnessPartial",))      # further witnesses are ASSUMEs inside ConflictsGen
    if not cases:
        ctx.machinery("ConflictsGen produced no cases")
    groups, mm = {}, []
    for k in cases:
        c = k["c"]
        if c["kind"] == "mm":
            mm.append(c)
        else:
            groups.setdefault(json.dumps(c["list"], sort_keys=True), []).append(c)
    items, n = [], 0
    for gi, key in enumerate(sorted(groups)):
        lst = json.loads(key)
        # every list on one scheme (rotating); every 7th list additionally on a seeded second scheme
        schemes = [gi % len(SCHEMES)]
        if gi % 7 == 0:
            schemes.append(ctx.rng.randrange(len(SCHEMES)))
        for si in sorted(set(schemes)):
            items.append((si, lst, groups[key]))
            n += len(groups[key])
    # merge-modified cases: rotating naming scheme, in batches so that they spread over the workers
    mm.sort(key=lambda c: json.dumps(c, sort_keys=True))
    for si in range(len(SCHEMES)):
        mine = [(i, c) for i, c in enumerate(mm) if i % len(SCHEMES) == si]
        for off in range(0, len(mine), 25):
            items.append((si, None, mine[off:off + 25]))
        n += len(mine)
    ctx.rule("TLC enumerates: every well-formed single conflict (10 types x paths x optional conflict path x file ids) x "
             "every selection of <= 2 of {root, a, d, d/a, e} x recurse; every list of 2..%(MaxList)s conflicts from a mixed "
             "universe of 12 x 4 selections x recurse; merge-modified: every ordered selection of 3 versioned files "
             "(thorough: + 1 unversioned), each recorded with the current hash and then kept / un-versioned / modified "
             "before the re-open, or recorded with a stale hash. Each list is stored on a real tree under a rotating hostile-unicode naming scheme (5 schemes), "
             "re-opened, selected, resolved, re-opened. Non-trivial = non-empty list / non-empty hash map" % consts)
    ctx.cov["exhaustive"] = True
    core.fork_map(ctx, _replay, items)
    rows = []
    for f in sorted(glob.glob(os.path.join(ctx.workdir, "rows_*.json"))):
        with open(f) as fp:
            rows.extend(json.load(fp))
        os.unlink(f)
    if len(rows) != n:
        ctx.machinery("replayed %d rows of %d" % (len(rows), n))
    rows.sort(key=lambda r: (r["scheme"], json.dumps(r["c"], sort_keys=True)))
    for r in (rows[len(rows) // 7], rows[len(rows) // 2], rows[-1]):
        ctx.sample(r)
    for row, failed, drift in table.judge(ctx, "ConflictsTrace", rows, workers=2):
        c = row["c"]
        for law in failed:
            ctx.violation("law:%s:%s" % (law, _shape(c)),
                          "law %s fails (naming scheme %d) on %s -> %s" % (law, row["scheme"], c, row["impl"]), row)
        if drift and not failed:
            ctx.drift("outcome differs from the Conflicts specification (scheme %d) on %s: %s"
                      % (row["scheme"], c, row["impl"]), row)
