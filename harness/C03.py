"""C03 — fetch, push and pull copy history completely and faithfully."""
import json
import os
import shutil
import tempfile

from vf import env, tlc, table, core, world
from harness import fetch_common as fc

META = dict(
    property_id="C03", level="model_checking", design_ref="DESIGN.md §4 C03",
    technique="TLA+ specification of fetch over repository contents per kind (revisions, inventories, text keys "
              "(file, version) from the per-file commit rule, signatures) model-checked by TLC over every revision graph "
              "with a ghost and every ancestry-closed target content; TLC-exported cases (history, target content, "
              "revision, expected content) replayed through fetch / push / pull / sprout on real 2a, pack-0.92, "
              "1.9-rich-root, knit and bzr:// repositories; the observations (key sets, testaments, tree digests, per-file "
              "graph, check(), pack-names and a second identical fetch) judged by TLC with the C03 laws",
    level_text="TLC exhausts all graphs up to 4 (thorough: 5) revisions with up to 2 parents and a ghost, four edit patterns "
               "(modify / rename / delete+re-add / take-other merges / empty revisions), every closed target content and "
               "every revision to fetch, and proves closure, per-kind completeness, arrival of the whole non-ghost "
               "ancestry and that the re-fetch is a no-op. A seeded sample of those histories with all their (target "
               "content, revision) cases is executed on real repositories in every configuration, and every recorded "
               "execution is judged by the same TLA+ laws. Small-scope exhaustion of the model plus sampled conformance "
               "of the code: fetch is graph/set-shaped, so small graphs exhibit all overlap classes.",
    level_note="Histories are built with BranchBuilder (real commits) in the source format; partially overlapping targets "
               "are prepared by fetching the heads of the chosen closed subset first. push / pull / sprout are used for revisions "
               "whose left-hand history does not end in a ghost (a branch tip needs a revno), plain fetch for all. Stacked "
               "targets are C08's. Trusted: "
               "bzrformats stream (de)serialisers and index code as executed, TLC, the JSON bridge. Signatures are opaque "
               "texts (no gpg).",
)

# (label, source format, target format, which side is reached through bzr:// (None / "src" / "tgt"), on disk?)
# Repositories live on MemoryTransports, where every cross-format fetch is a STREAMING fetch (StreamSource / StreamSink,
# Inter1and2Helper for the root texts); two LOCAL DISK repositories with different serialisers are copied by
# InterDifferingSerializer instead (its is_compatible wants file:/// on both sides) - the "disk" configurations.
CONFIGS_QUICK = [
    ("2a->2a", "2a", "2a", None, False),
    ("pack-0.92->2a", "pack-0.92", "2a", None, False),
    ("1.9-rich-root->2a", "1.9-rich-root", "2a", None, False),
    ("pack-0.92->pack-0.92", "pack-0.92", "pack-0.92", None, False),
    ("bzr://2a->2a", "2a", "2a", "src", False),
    ("2a->bzr://2a", "2a", "2a", "tgt", False),
    ("disk 1.9->2a", "1.9", "2a", None, True),
]
CONFIGS_THOROUGH = CONFIGS_QUICK + [
    ("knit->pack-0.92", "knit", "pack-0.92", None, False),
    ("bzr://pack-0.92->2a", "pack-0.92", "2a", "src", False),
    ("pack-0.92->bzr://pack-0.92", "pack-0.92", "pack-0.92", "tgt", False),
    ("disk 1.9->1.9-rich-root", "1.9", "1.9-rich-root", None, True),
    ("disk pack-0.92->2a", "pack-0.92", "2a", None, True),
]
# the 100+ revision linear history (thorough): streaming non-rich-root -> rich-root, and InterDifferingSerializer batches
CONFIGS_LONG = [CONFIGS_QUICK[1], CONFIGS_THOROUGH[-1]]
OPS = ("fetch", "push", "pull")
WITNESSES = ("WitnessPartialOverlap", "WitnessGhostAncestor", "WitnessCarriedText")


def gen_cfg(maxrev, nghosts, maxpar=2, inv=("LawsHoldOnSpec",)):
    return table.cfg({"MaxRev": maxrev, "NGhosts": nghosts, "MaxPar": maxpar}, inv)


def mc_cfg(maxrev, nghosts, allpats, maxpar=2, inv=("TargetClosed", "KindsComplete", "Arrived", "LawsHoldOnSpec"),
           props=("RefetchIsNoop",)):
    return ("SPECIFICATION Spec\nCONSTANTS\n  MaxRev = %d\n  NGhosts = %d\n  MaxPar = %d\n  Pats = {1, 2, 3, 4}\n"
            "  AllPatsUpTo = %d\n" % (maxrev, nghosts, maxpar, allpats)
            + "".join("INVARIANT %s\n" % i for i in inv) + "".join("PROPERTY %s\n" % p for p in props))


class Job:
    """One history in one configuration: the source is built once, every case gets a fresh target."""

    def __init__(self, hist, config, workdir):
        from breezy import transport as T, urlutils
        from dromedary import memory
        self.h, self.config = hist, config
        self.label, self.sfmt, self.tfmt, self.remote, self.disk = config
        self.P, self.n = [list(ps) for ps in hist["P"]], len(hist["P"])
        self.srv = self.dir = None
        if self.disk:
            self.dir = tempfile.mkdtemp(prefix="c03-", dir=workdir)
            self.url = urlutils.local_path_to_url(self.dir) + "/"
        else:
            self.srv = memory.MemoryServer()
            self.srv.start_server()
            self.url = self.srv.get_url()
        self.root = T.get_transport(self.url)
        self.count = 0
        self.rt = None
        t = self.root.clone("src")
        t.ensure_base()
        fc.build_history(self.P, hist["T"], self.sfmt, transport=t, signed=hist["signed"])
        if self.remote:
            self.rt, self.medium = world.inproc_remote_transport(self.root)

    def close(self):
        if self.srv is not None:
            self.srv.stop_server()
        if self.dir is not None:
            shutil.rmtree(self.dir, ignore_errors=True)

    def open_branch(self, name, side):
        from breezy import branch as B
        if self.remote == side:
            return B.Branch.open_from_transport(self.rt.clone(name))
        return B.Branch.open(self.url + name)

    def new_target(self):
        from breezy import controldir
        self.count += 1
        name = "t%d" % self.count
        f = controldir.format_registry.make_controldir(self.tfmt)
        controldir.ControlDir.create_branch_convenience(self.url + name, format=f, force_new_tree=False)
        return name

    def observe_source(self):
        from breezy import branch as B
        repo = B.Branch.open(self.url + "src").repository
        P = fc.read_graph(repo, self.n)
        with repo.lock_read():
            revs = {fc.num(r) for r in repo.all_revision_ids()}
            plain, root, fp = fc.text_keys(repo.texts)
            sigs = sorted(fc.num(k[0]) for k in repo.signatures.keys())
            test, tree = fc.per_revision(repo, self.n, revs)
            # what check() already says about the SOURCE is not the copy's doing (e.g. a knit commit picks per-file
            # parents by revision-graph heads, which check() calls inconsistent after a delete / re-add)
            self.source_problems = set(fc.check_problems(repo))
        return P, {"ssigs": sigs, "stexts": plain, "sroot": root, "sfp": fp, "stest": test, "stree": tree}

    def do_op(self, op, rev, name, objs=None):
        """Run the operation; returns (objects used, number of revisions it reported as copied)."""
        revid = fc.rid(rev)
        if op == "sprout":
            src = self.open_branch("src", "src")
            if self.remote == "tgt":
                to = self.rt.clone(name)
                src.controldir.sprout(to.base, revision_id=revid, possible_transports=[self.rt, to])
            else:
                src.controldir.sprout(self.url + name, revision_id=revid,
                                      possible_transports=[self.rt] if self.rt is not None else None)
            return None, 0
        src, tgt = objs or (self.open_branch("src", "src"), self.open_branch(name, "tgt"))
        if op == "fetch":
            res = tgt.repository.fetch(src.repository, revision_id=revid)
            return (src, tgt), (getattr(res, "total_fetched", None) or 0)
        if op == "push":
            res = src.push(tgt, overwrite=True, stop_revision=revid)
        else:
            res = tgt.pull(src, overwrite=True, stop_revision=revid)
        copied = 0 if res.old_revid == res.new_revid else max(1, abs((res.new_revno or 0) - (res.old_revno or 0)))
        return (src, tgt), copied

    def observe_target(self, name):
        from breezy import repository as R
        repo = R.Repository.open(self.url + name)
        with repo.lock_read():
            revs = sorted(fc.num(r) for r in repo.all_revision_ids())
            invs = sorted(fc.num(k[0]) for k in repo.inventories.keys())
            sigs = sorted(fc.num(k[0]) for k in repo.signatures.keys())
            plain, root, fp = fc.text_keys(repo.texts)
            test, tree = fc.per_revision(repo, self.n, set(revs))
            chk = "; ".join([p for p in fc.check_problems(repo) if p not in self.source_problems][:4]) or "ok"
        return {"trevs": revs, "tinvs": invs, "tsigs": sigs, "ttexts": plain, "troot": root, "tfp": fp, "ttest": test,
                "ttree": tree, "check": chk, "names1": fc.names_digest(repo._transport), "dir1": fc.dir_digest(repo._transport)}

    def run_case(self, S, rev, op):
        """-> (observation, calls) for: target prepared with the closed subset S, then `op` of revision rev, twice."""
        calls = []
        o = {"outcome": "ok"}
        if self.remote:      # a connection of its own per case: a request that failed half-way must not poison the next case
            self.rt, self.medium = world.inproc_remote_transport(self.root)
        try:
            if op == "sprout":
                self.count += 1
                name = "t%d" % self.count
            else:
                name = self.new_target()
                src, tgt = self.open_branch("src", "src"), self.open_branch(name, "tgt")
                for head in fc.heads_of(self.P, S):
                    calls.append(["prepare-fetch", head])      # a fetch like any other: it must complete too
                    tgt.repository.fetch(src.repository, revision_id=fc.rid(head))
            calls.append([op, rev])
            objs, _ = self.do_op(op, rev, name)
        except Exception as e:
            o["outcome"] = "error:%s" % type(e).__name__
            o["detail"] = "%s: %s" % (calls[-1] if calls else "open", str(e)[:200])
            return o, calls
        try:
            o.update(self.observe_target(name))
        except Exception as e:      # the target cannot even be listed after the operation
            o["outcome"] = "error:unreadable-target:%s" % type(e).__name__
            o["detail"] = str(e)[:200]
            return o, calls
        again = "fetch" if op == "sprout" else op
        try:
            # the re-fetch: same objects for fetch (stale caches included), fresh objects (a new process) otherwise
            _, copied = self.do_op(again, rev, name, objs if op == "fetch" else None)
            calls.append([again, rev])
            from breezy import repository as R
            repo = R.Repository.open(self.url + name)
            with repo.lock_read():
                o["revs2"] = sorted(fc.num(r) for r in repo.all_revision_ids())
            o["names2"], o["dir2"], o["copied2"] = fc.names_digest(repo._transport), fc.dir_digest(repo._transport), copied
        except Exception as e:
            o["revs2"], o["names2"], o["dir2"], o["copied2"] = [], "error:%s" % type(e).__name__, "", 0
            o["detail"] = str(e)[:200]
        return o, calls


def replay_jobs(sub, chunk):
    from breezy import ui
    ui.ui_factory.suppressed_warnings.add("cross_format_fetch")
    rows = sub.cov.setdefault("_collect", [])
    for hist, config, cases in chunk:
        job = Job(hist, config, sub.workdir)
        try:
            P, so = job.observe_source()
            if P != job.P:
                sub.machinery("built graph %s differs from the abstract graph %s (%s)" % (P, job.P, config[0]))
            for S, rev, op, exp in cases:
                o, calls = job.run_case(S, rev, op)
                o.update(so)
                spec = dict(exp, stexts=hist["texts"], sfp=hist["fpk"])
                if job.sfmt == "knit":
                    # the commit RULE (per-file heads) is not what a knit repository's commit builder applies (it takes
                    # revision-graph heads; C02 leaves knit out too): no model comparison of the SOURCE's keys here
                    spec.update(stexts=so["stexts"], sfp=so["sfp"])
                rows.append({"c": {"P": P, "rev": rev}, "impl": o, "spec": spec,
                             "meta": {"config": config[0], "hist": hist["idx"], "pat": hist["pat"], "S": S, "op": op,
                                      "calls": calls, "trees": hist["T"]}})
                sub.count(1)
                if rev not in S:
                    sub.nontrivial((config[0], hist["idx"], tuple(S), rev, op))
        finally:
            job.close()


def pick_cases(hist, rng, per_hist, k):
    """Cases of one history for one configuration: all of them when they fit, else a seeded sample that always keeps
    non-trivial ones (rev not yet in the target) in the majority; the operation rotates over fetch / push / pull, sprout
    for some empty targets; push / pull / sprout set a branch tip, which needs a left-hand history that does not end in a
    ghost (revno; full-history branch formats walk it) - such revisions are fetched instead."""
    P = hist["P"]
    cases = sorted(hist["cases"], key=lambda c: (c["S"], c["rev"]))
    nontriv = [c for c in cases if c["rev"] not in c["S"]]
    triv = [c for c in cases if c["rev"] in c["S"]]
    rng.shuffle(nontriv)
    rng.shuffle(triv)
    chosen = nontriv[:max(1, per_hist - 1)] + triv[:1]
    out = []
    for j, c in enumerate(chosen):
        op = OPS[(j + k) % 3]
        if not c["S"] and (j + k) % 2 == 0:
            op = "sprout"
        if op != "fetch" and fc.mainline_has_ghost(P, c["rev"]):
            op = "fetch"
        out.append((c["S"], c["rev"], op, c["exp"]))
    return out


def selftest_rows(slim):
    """Binding self-test rows: the observation the SPECIFICATION predicts for one recorded fetch of >= 2 revisions (must be
    accepted: law None) and corrupted copies of it (each must be rejected by the named law)."""
    import copy
    base = next((r for r in slim if len(fc.ancestry(r["c"]["P"], r["c"]["rev"])) >= 2 and r["spec"]["sigs"]
                 and "stest" in r["impl"]), None)
    if base is None:
        raise core.MachineryError("binding self-test: no fetch of two or more revisions was recorded")
    rev = base["c"]["rev"]
    anc = fc.ancestry(base["c"]["P"], rev)
    other = max(anc - {rev})
    o, sp = base["impl"], base["spec"]
    held = set(sp["revs"])
    good = {"c": base["c"], "spec": sp, "impl": {
        "outcome": "ok", "trevs": list(sp["revs"]), "tinvs": list(sp["invs"]), "tsigs": list(sp["sigs"]),
        "ttexts": [k for k in o["stexts"] if k[1] in held], "troot": [k for k in o["sroot"] if k[1] in held],
        "tfp": [k for k in o["sfp"] if k[1] in held],
        "ttest": [t if k + 1 in held else "" for k, t in enumerate(o["stest"])],
        "ttree": [t if k + 1 in held else "" for k, t in enumerate(o["stree"])],
        "check": "ok", "names1": "n", "names2": "n", "revs2": list(sp["revs"]), "copied2": 0,
        "ssigs": o["ssigs"], "stexts": o["stexts"], "sroot": o["sroot"], "sfp": o["sfp"], "stest": o["stest"], "stree": o["stree"]}}
    out = [(good, None)]

    def probe(law, fn):
        r = copy.deepcopy(good)
        fn(r["impl"])
        out.append((r, law))
    probe("tip", lambda o: o["trevs"].remove(rev))
    probe("ancestors", lambda o: o["trevs"].remove(other))
    probe("inventories", lambda o: o["tinvs"].remove(other))
    probe("texts", lambda o: o.__setitem__("ttexts", [k for k in o["ttexts"] if k[1] not in anc]))
    probe("file-graph", lambda o: o.__setitem__("tfp", [[k[0], k[1], k[2] + [rev]] for k in o["tfp"]]))
    probe("signatures", lambda o: o.__setitem__("tsigs", []))
    probe("testament", lambda o: o["ttest"].__setitem__(rev - 1, "0" * 32))
    probe("tree", lambda o: o["ttree"].__setitem__(other - 1, "0" * 16))
    probe("check", lambda o: o.__setitem__("check", "inconsistent_parents: x"))
    probe("refetch", lambda o: o.__setitem__("names2", "changed"))
    probe("refetch", lambda o: o.__setitem__("copied2", 1))
    probe("completes", lambda o: o.__setitem__("outcome", "error:KeyError"))
    return out


def run(ctx):
    env.init()
    import breezy.branchbuilder  # noqa: F401  (imported before forking)
    import breezy.bzr.testament  # noqa: F401
    configs = CONFIGS_QUICK if ctx.quick else CONFIGS_THOROUGH
    # ---- E1: the specification itself
    if ctx.quick:
        tlc.check(ctx, "FetchMC", cfg_text=mc_cfg(4, 1, 3), label="MC graphs<=4, 1 ghost", timeout=1500)
    else:
        tlc.check(ctx, "FetchMC", cfg_text=mc_cfg(4, 1, 4), label="MC graphs<=4, 1 ghost, all patterns", timeout=3000)
        tlc.check(ctx, "FetchMC", cfg_text=mc_cfg(5, 0, 3), label="MC graphs<=5, no ghost", timeout=3000)
    for w in WITNESSES:      # anti-vacuity: states TLC must reach
        tlc.check(ctx, "FetchMC", cfg_text=mc_cfg(3, 1, 3, inv=(w,), props=()), expect_violation=w, label="witness " + w, workers=4)
    # ---- E2: cases exported by TLC for a seeded sample of the universe
    maxrev, nhist, per_hist, long = (4, 34, 5, 0) if ctx.quick else (5, 250, 6, 105)
    total = fc.count_universe(maxrev, 2, 1)
    idx = sorted(ctx.rng.sample(range(1, total + 1), nhist))
    fidx = os.path.join(ctx.workdir, "idx.json")
    with open(fidx, "w") as f:
        json.dump({"idx": idx, "long": long}, f)
    data, _ = tlc.json_cases(ctx, "FetchGen", cfg_text=gen_cfg(maxrev, 1), env={"VF_IDX": fidx}, label="FetchGen export",
                             workers=4, timeout=3000)
    if data["n"] != total:
        ctx.machinery("universe has %s members, the harness counted %d" % (data["n"], total))
    hists = data["hist"]
    if len(hists) != nhist:
        ctx.machinery("asked for %d histories, TLC exported %d" % (nhist, len(hists)))
    jobs = []
    for hi, hist in enumerate(hists):
        for k, config in enumerate(configs):
            jobs.append((hist, config, pick_cases(hist, ctx.rng, per_hist, hi + k)))
    if long:
        # one linear history of more than 100 revisions (code that reads or writes revisions in batches of 100)
        if len(data["long"]) != 1 or len(data["long"][0]["P"]) != long:
            ctx.machinery("TLC did not export the %d-revision history" % long)
        for config in CONFIGS_LONG:
            jobs.append((data["long"][0], config, [(c["S"], c["rev"], "fetch" if j % 2 == 0 else "pull", c["exp"])
                                                   for j, c in enumerate(sorted(data["long"][0]["cases"], key=lambda c: (c["S"], c["rev"])))]))
    core.fork_map(ctx, replay_jobs, jobs)
    rows = ctx.collected
    if not rows:
        ctx.machinery("no execution was recorded")
    ctx.rule("histories = seeded sample of (graph <= %d revisions, <= 2 ordered parents, ghost allowed anywhere) x 4 edit "
             "patterns, enumerated by TLC; per history and configuration up to %d (closed target content, revision) cases "
             "with the operation rotating over fetch / push / pull / sprout; non-trivial = the fetched revision is not "
             "yet in the target%s" % (maxrev, per_hist, "; plus one linear history of %d revisions (5 cases x 2 configurations)" % long if long else ""))
    ctx.cov["configurations"] = [c[0] for c in configs]
    ctx.cov["histories"] = nhist
    judge(ctx, rows)


def judge(ctx, rows, selftest=True):
    """E3: TLC judges the recorded executions with the laws of Fetch.tla."""
    slim = [{"c": r["c"], "impl": {k: v for k, v in r["impl"].items() if k not in ("detail", "dir1", "dir2")},
             "spec": r["spec"]} for r in rows]
    by_id = {id(s): r for s, r in zip(slim, rows)}
    small = [r for r in rows if len(r["c"]["P"]) <= 8] or rows
    ctx.sample({k: small[len(small) // 2][k] for k in ("c", "meta")})
    # binding self-test: corrupted copies of a good observation must be rejected by the same TLC run, each by its law
    probes, skipped = [], None
    if selftest:
        try:
            probes = selftest_rows(slim)
        except core.MachineryError as e:
            skipped = str(e)
    expected = {id(p): law for p, law in probes}
    caught = {id(p) for p, law in probes if law is None}      # the control row is caught by NOT being reported
    for srow, failed, drift in table.judge(ctx, "FetchTrace", slim + [p for p, _ in probes], chunk=4000, workers=4, timeout=3000):
        if id(srow) in expected:
            if expected[id(srow)] is None:
                caught.discard(id(srow))
            elif expected[id(srow)] in failed:
                caught.add(id(srow))
            continue
        row = by_id[id(srow)]
        m, o = row["meta"], row["impl"]
        shape = "%s:%s:%s" % (m["config"], m["op"], "ghost" if any(p > len(row["c"]["P"]) for ps in row["c"]["P"] for p in ps) else "plain")
        for law in failed:
            ctx.violation("law:%s:%s" % (law, shape),
                          "law %s fails for %s of r%d into a target holding %s (%s, graph %s): %s" % (
                              law, m["op"], row["c"]["rev"], m["S"], m["config"], row["c"]["P"],
                              o.get("detail") or o.get("check") if law in ("completes", "check") else
                              {k: o.get(k) for k in ("trevs", "tinvs", "ttexts", "tsigs", "names1", "names2", "revs2", "copied2")}),
                          row)
        if drift and not failed:
            ctx.drift("target content after %s of r%d (%s) is not the specified one" % (m["op"], row["c"]["rev"], m["config"]),
                      {"meta": m, "c": row["c"], "spec": row["spec"],
                       "got": {k: o.get(k) for k in ("trevs", "tinvs", "ttexts", "tsigs", "stexts", "sfp")}})
    if len(caught) != len(probes):
        ctx.machinery("binding self-test: TLC misjudged %d of %d probe observations" % (len(probes) - len(caught), len(probes)))
    if skipped and not ctx.violations:
        ctx.machinery(skipped)
    ctx.cov["selftest_probe_rows_judged_as_expected"] = len(caught)
    ctx.cov["traces_validated_against_impl"] -= len(probes)
    for r in rows:
        o = r["impl"]
        if o.get("outcome") == "ok" and o.get("dir1") != o.get("dir2") and o.get("names1") == o.get("names2"):
            ctx.drift("second identical %s left pack-names alone but changed other repository files (%s)" % (
                r["meta"]["op"], r["meta"]["config"]), r["meta"])


def replay(ctx, rep):
    """./check C03 --replay FILE: run the recorded case again on the current tree and judge it."""
    env.init()
    row = rep["replay"]
    m, n = row["meta"], len(row["c"]["P"])
    config = next(c for c in CONFIGS_THOROUGH if c[0] == m["config"])      # (CONFIGS_LONG are among them)
    hist = {"P": row["c"]["P"], "T": m["trees"], "signed": [k for k in range(1, n + 1) if k % 2], "idx": m["hist"],
            "pat": m["pat"], "texts": row["spec"]["stexts"], "fpk": row["spec"]["sfp"]}
    exp = {k: row["spec"][k] for k in ("revs", "invs", "texts", "sigs")}
    replay_jobs(ctx, [(hist, config, [(m["S"], row["c"]["rev"], m["op"], exp)])])
    rows = ctx.cov.pop("_collect")
    print("observed:", json.dumps(rows[0]["impl"]))
    judge(ctx, rows, selftest=False)
