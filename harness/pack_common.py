"""Binding of specs/PackColl.tla to real pack repositories (shared by C04, C05).

World: one shared 2a (or pack-0.92) repository `r/` with InitPacks single-revision packs and one branch per writer
(`r/b_<w>`), on a vf.sched.World transport.  Writers commit through their own branch (each holds only its own branch
lock; repository writes are only serialised by the names lock), readers read everything through the repository.
Boundary operations (where processes can observe each other, see PackColl.tla) are gated; everything else runs
un-gated.  Each boundary operation becomes one recorded event with the abstract projection of the repository
directory after it; PackCollTrace.tla validates the event sequence and evaluates the invariants.
"""
import json
import os
import re
import shutil
import threading

from vf import sched

_ctr = [0]
REPO = "r/.bzr/repository/"
IDX = (".rix", ".iix", ".tix", ".six", ".cix")


def classify(op, path, to=None):
    """Map a transport operation to a boundary event kind (or None = local)."""
    if path is None or not path.startswith(REPO):
        if path is not None and path.endswith("/branch/last-revision") and op in ("put_bytes", "put_file", "put_bytes_non_atomic"):
            return "tip"
        return None
    rel = path[len(REPO):]
    if rel == "pack-names":
        if op in ("get_bytes", "get", "readv"):
            return "read_names"
        if op in ("put_file", "put_bytes", "put_file_non_atomic", "put_bytes_non_atomic"):
            return "put_names"
    if op == "rename":
        trel = (to or "")[len(REPO):] if (to or "").startswith(REPO) else (to or "")
        if trel == "lock/held":
            return "lock"
        if rel == "lock/held":
            return "unlock"
    if op == "move":
        trel = to or ""
        if rel.startswith("upload/") and "packs/" in trel and trel.endswith(".pack"):
            return "publish"
        if rel.startswith("packs/") and "obsolete_packs/" in trel:
            return "obs_pack"
        if rel.startswith("indices/") and "obsolete_packs/" in trel:
            return "obs_idx" if rel.endswith(".iix") else None     # first index move of the group is the boundary
    if op == "list_dir" and rel.rstrip("/.") == "obsolete_packs":
        return "clear"
    if op in ("readv", "get", "get_bytes") and (rel.startswith("packs/") or rel.startswith("indices/")):
        return "read_pack"
    return None


def pre(op, path):
    """Cheap pre-filter used as the scheduler's `significant` predicate (the destination is not known there)."""
    if path is None:
        return False
    if not path.startswith(REPO):
        return path.endswith("/branch/last-revision") and op.startswith("put")
    rel = path[len(REPO):]
    if op == "rename":
        return rel.startswith("lock/")
    if op == "move":
        return rel.startswith("upload/") or rel.startswith("packs/") or (rel.startswith("indices/") and rel.endswith(".iix"))
    return classify(op, path) is not None


def build_template(fmt, init_packs, writers):
    """Build the initial repository once (in memory, un-gated); returns {path: bytes|None(dir)}."""
    from breezy import controldir, transport as T
    from dromedary import memory
    srv = memory.MemoryServer()
    srv.start_server()
    try:
        url = srv.get_url()
        f = controldir.format_registry.make_controldir(fmt)
        cd = controldir.ControlDir.create(url + "r", format=f)
        cd.create_repository(shared=True)
        seed = controldir.ControlDir.create_branch_convenience(url + "r/seed", format=f, force_new_tree=False)
        for i in range(1, init_packs + 1):
            commit_one(seed, b"init-%d" % i, first=(i == 1))
        for w in writers:
            b = seed.controldir.sprout(url + "r/b_" + w).open_branch()
        t = T.get_transport(url)
        tree = {}
        for p in t.iter_files_recursive():
            tree[p] = t.get_bytes(p)
        dirs = set()

        def walk(d):
            for n in t.list_dir(d):
                p = (d + "/" + n).lstrip("/") if d else n
                try:
                    t.list_dir(p)
                    isdir = p not in tree
                except Exception:
                    isdir = False
                if isdir:
                    dirs.add(p)
                    walk(p)
        walk("")
        return {"files": tree, "dirs": sorted(dirs, key=len)}
    finally:
        srv.stop_server()


def commit_one(branch, revid, first=False, fname="f"):
    tree = branch.create_memorytree()
    with tree.lock_write():
        if first:
            tree.add([""], kinds=["directory"], ids=[b"root-id"])
        if not tree.is_versioned(fname):
            tree.add([fname], kinds=["file"], ids=[fname.encode() + b"-id"])
        tree.put_file_bytes_non_atomic(fname, revid + b"\n")
        tree.commit("m " + revid.decode(), rev_id=revid)


def materialise(template, t):
    for d in template["dirs"]:
        t.mkdir(d)
    for p, data in template["files"].items():
        t.put_bytes(p, data)


class PackWorld:
    """One scenario on the real code."""

    def __init__(self, ctx, template, writers, readers, max_commits, init_packs, disk=False, fine=False, packers=(),
                 held=False):
        from breezy import branch as _b, repository as _r, lockdir
        self.ctx = ctx
        self.writers, self.readers, self.packers = list(writers), list(readers), list(packers)
        self.tmpd = None
        url = "memory"
        if disk:
            _ctr[0] += 1
            self.tmpd = os.path.join(ctx.workdir, "pk%d_%d" % (os.getpid(), _ctr[0]))
            os.makedirs(self.tmpd)
            url = "file://" + self.tmpd + "/"
        self.fine = fine

        def significant(op, path):
            if fine:
                return path is not None and (op in sched.MUTATING) and path.startswith("r/")
            return pre(op, path)

        self.w = sched.World(url, significant=significant)
        w = self.w
        materialise(template, w.raw())
        # polling of a contended names lock yields to the scheduler instead of sleeping
        self._orig_sleep = lockdir.time.sleep

        def yield_sleep(s):
            if w.me() is None:
                return
            w.gate("sleep", None)
            w.record("sleep", None, "ok")
        self._sleep = yield_sleep
        self.ids = {}            # real pack name -> abstract id
        names = self.disk_names_real()
        for i, n in enumerate(sorted(names, key=lambda n: self._rev_keys(n)), 1):
            self.ids[n] = i
        self.nextid = len(self.ids) + 1
        self.content = {self.ids[n]: self._keys_abs(n) for n in names}
        self.holder = ""
        self.alive = {p: True for p in self.writers + self.readers + self.packers}
        self.committed = set(tuple(k) for ks in self.content.values() for k in ks)
        self.events = []
        self.results = {}
        self.chosen = {}         # proc -> abstract ids planned for the next autopack
        self.pending_commit = {}
        self.tip_count = {p: 0 for p in self.writers}
        self.max_commits = max_commits
        self._patch()

        def writer(p):
            def prog():
                b = _b.Branch.open(w.url("r/b_" + p))
                if held:
                    # one long lock scope: the collection is NOT reset between commits, the process re-reads
                    # pack-names explicitly (refresh_data -> reload_pack_names on an already loaded collection)
                    with b.lock_write():
                        for n in range(1, max_commits + 1):
                            b.repository.refresh_data()
                            # look at what is there (gives other processes room between the reload and our save)
                            for r in sorted(b.repository.all_revision_ids()):
                                b.repository.get_revision(r)
                            commit_one(b, ("%s-%d" % (p, n)).encode(), fname="f_" + p)
                    return "done"
                for n in range(1, max_commits + 1):
                    rid = ("%s-%d" % (p, n)).encode()
                    self.pending_commit[p] = rid
                    commit_one(b, rid, fname="f_" + p)
                return "done"
            return prog

        def reader(p):
            def prog():
                for n in range(max_commits):
                    repo = _r.Repository.open(w.url("r"))
                    with repo.lock_read():
                        revs = sorted(repo.all_revision_ids())
                        for r in revs:
                            repo.get_revision(r)
                            t = repo.revision_tree(r)
                            for path, ie in t.iter_entries_by_dir():
                                if ie.kind == "file":
                                    t.get_file_text(path)
                    self.results.setdefault(p, []).append(len(revs))
                return "done"
            return prog

        def packer(p):
            def prog():
                for n in range(max_commits):
                    repo = _r.Repository.open(w.url("r"))
                    with repo.lock_write():
                        repo.pack()
                return "done"
            return prog

        lockdir.time.sleep = self._sleep
        try:
            for p in self.packers:
                w.spawn(p, packer(p))
            for p in self.writers:
                w.spawn(p, writer(p))
            for p in self.readers:
                w.spawn(p, reader(p))
        except BaseException:
            self.close()
            raise

    # ------------------------------------------------------------------ observation hooks (harness side only)
    def _patch(self):
        from breezy.bzr import pack_repo
        pw = self
        orig = pack_repo.RepositoryPackCollection._execute_pack_operations
        if getattr(orig, "_vf", False):
            orig = orig._orig

        def wrapped(self_, pack_operations, *a, **k):
            cur = getattr(PackWorld, "current", None)
            if cur is not None and cur.w.me() is not None:
                names = [p.name for _, packs in pack_operations for p in packs]
                cur.chosen[cur.w.me()] = names
            return orig(self_, pack_operations, *a, **k)
        wrapped._vf = True
        wrapped._orig = orig
        pack_repo.RepositoryPackCollection._execute_pack_operations = wrapped
        PackWorld.current = self

    # ------------------------------------------------------------------ projection
    def _raw(self):
        return self.w.raw(REPO)

    def disk_names_real(self):
        from bzrformats import btree_index, index as _i
        t = self._raw()
        try:
            data = t.get_bytes("pack-names")
        except Exception:
            return None
        try:
            idx = btree_index.BTreeGraphIndex(t, "pack-names", None) if data.startswith(b"B+Tree") \
                else _i.GraphIndex(t, "pack-names", None)
            return {k[0].decode() for _, k, v in idx.iter_all_entries()}
        except Exception:
            return None

    def _rev_keys(self, name):
        from bzrformats import btree_index, index as _i
        t = self.w.raw(REPO + "indices/")
        try:
            data = t.get_bytes(name + ".rix")
            idx = btree_index.BTreeGraphIndex(t, name + ".rix", len(data)) if data.startswith(b"B+Tree") \
                else _i.GraphIndex(t, name + ".rix", len(data))
            return sorted(k[0][0].decode() for k in ((e[1],) for e in idx.iter_all_entries()))
        except Exception:
            return ["?" + name]

    def _keys_abs(self, name):
        out = []
        for k in self._rev_keys(name):
            m = re.match(r"(\w+)-(\d+)$", k)
            out.append([m.group(1), int(m.group(2))] if m else [k, 0])
        return sorted(out)

    def _id(self, name):
        if name not in self.ids:
            self.ids[name] = self.nextid
            self.nextid += 1
        return self.ids[name]

    def project(self):
        t = self._raw()
        names = self.disk_names_real()
        known = self.ids
        st = {"namesFile": sorted(known.get(n, 0) for n in names) if names is not None else [-1]}

        def ls(d):
            try:
                return t.list_dir(d)
            except Exception:
                return []
        st["packsDir"] = sorted(known[f[:-5]] for f in ls("packs") if f.endswith(".pack") and f[:-5] in known)
        idx = {}
        for f in ls("indices"):
            n, ext = os.path.splitext(f)
            idx.setdefault(n, set()).add(ext)
        st["idxDir"] = sorted(known[n] for n, e in idx.items() if n in known and e >= set(IDX[:4]))
        st["idxPartial"] = sorted(known[n] for n, e in idx.items() if n in known and not (e >= set(IDX[:4])))
        obs = set()
        for f in ls("obsolete_packs"):
            n, ext = os.path.splitext(f)
            if n in known:
                obs.add((known[n], "pack" if ext == ".pack" else "idx"))
        st["obsDir"] = sorted([list(x) for x in obs])
        st["upload"] = len(ls("upload"))
        return st

    # ------------------------------------------------------------------ stepping
    def step(self, p):
        """Run p through its next boundary operation; record the event. Returns the event or None."""
        w = self.w
        if w.done(p) or not self.alive[p]:
            return None
        entries = w.step(p)
        ev = None
        for e in entries:
            kind = "sleep" if e["op"] == "sleep" else classify(e["op"], e["path"], e.get("to"))
            if kind is None:
                continue
            ev = {"p": p, "kind": kind, "ok": e["res"] == "ok", "res": e["res"]}
            path = e["path"] or ""
            if kind == "lock":
                if ev["ok"]:
                    self.holder = p
            elif kind == "unlock" and ev["ok"]:
                self.holder = ""
            elif kind == "read_names":
                ev["locked"] = self.holder == p
            elif kind == "publish" and ev["ok"]:
                name = os.path.basename(e["to"])[:-5]
                ev["id"] = self._id(name)
                ev["keys"] = self._keys_abs(name)
                self.content[ev["id"]] = ev["keys"]
                ch = self.chosen.pop(p, None) if e["path"].endswith(".autopack") or len(ev["keys"]) > 1 else None
                ev["auto"] = e["path"].endswith(".autopack")
                ev["chosen"] = sorted(self._id(n) for n in ch) if ch else []
            elif kind in ("obs_pack", "obs_idx"):
                ev["id"] = self._id(os.path.splitext(os.path.basename(path))[0])
            elif kind == "read_pack":
                ev["id"] = self._id(os.path.splitext(os.path.basename(path))[0])
            elif kind == "tip" and ev["ok"]:
                try:
                    rid = self.w.raw().get_bytes(e["path"]).split()[-1].decode()
                except Exception:
                    rid = "?"
                m = re.match(r"(\w+)-(\d+)$", rid)
                ev["key"] = [m.group(1), int(m.group(2))] if m else ["?", 0]
                self.committed.add(tuple(ev["key"]))
                self.tip_count[p] += 1
            break
        if ev is None:
            if w.done(p):
                ev = {"p": p, "kind": "finish", "ok": self.w.result(p)[0] == "ok", "res": str(self.w.result(p))[:200]}
            else:
                return None
        ev["st"] = self.project()
        self.events.append(ev)
        return ev

    def crash(self, p):
        self.alive[p] = False
        self.w.crash(p)
        ev = {"p": p, "kind": "crash", "ok": True, "res": "crash", "st": self.project()}
        self.events.append(ev)
        return ev

    def live(self):
        return [p for p in self.writers + self.readers + self.packers if self.alive[p] and not self.w.done(p)]

    # ------------------------------------------------------------------ real-level verdicts
    def fresh_check(self, deep=False):
        """Open the repository afresh (raw transport, no scheduling) and read everything committed.
        Returns a list of problem strings."""
        from breezy import repository as _r
        probs = []
        try:
            repo = _r.Repository.open(self.w.backing_url + "r")
            with repo.lock_read():
                revs = set(repo.all_revision_ids())
                want = {("%s-%d" % tuple(k)).encode() for k in self.committed}
                missing = want - revs
                if missing:
                    probs.append("committed revisions missing from a fresh open: %s" % sorted(missing))
                for r in sorted(revs):
                    try:
                        repo.get_revision(r)
                        t = repo.revision_tree(r)
                        for path, ie in t.iter_entries_by_dir():
                            if ie.kind == "file":
                                t.get_file_text(path)
                    except Exception as e:
                        probs.append("listed revision %r unreadable: %s" % (r, type(e).__name__))
                if deep and not probs:
                    try:
                        res = repo.check(sorted(revs))
                        n = len(getattr(res, "checked_rev_cnt", [])) if False else 0
                    except Exception as e:
                        probs.append("check() raised %s" % type(e).__name__)
        except Exception as e:
            probs.append("fresh open/read failed: %s: %s" % (type(e).__name__, str(e)[:100]))
        return probs

    def close(self):
        from breezy import lockdir
        lockdir.time.sleep = self._orig_sleep
        try:
            self.w.close()
        finally:
            if self.tmpd:
                shutil.rmtree(self.tmpd, ignore_errors=True)
            if getattr(PackWorld, "current", None) is self:
                PackWorld.current = None


def trace_of(pw):
    """Events in the shape PackCollTrace.tla consumes (successful pack reads are stuttering and dropped)."""
    out = []
    lastp = {}
    for e in pw.events:
        if e["kind"] == "read_pack" and e["ok"]:
            continue
        prev = lastp.get(e["p"])
        lastp[e["p"]] = e
        # _obsolete_packs retries a failed move once after (re)creating obsolete_packs/: one spec action
        if e["kind"] == "obs_pack" and not e["ok"] and prev is not None and prev["kind"] == "obs_pack" \
                and not prev["ok"] and prev.get("id") == e.get("id"):
            continue
        if e["kind"] in ("sleep",):
            continue
        st = e["st"]
        r = {"p": e["p"], "kind": e["kind"], "ok": e["ok"],
             "names": st["namesFile"], "packs": st["packsDir"], "idx": st["idxDir"], "obs": st["obsDir"]}
        for k in ("id", "keys", "chosen", "key", "locked", "auto"):
            if k in e:
                r[k] = e[k]
        out.append(r)
    return out


_accept = re.compile(r'<<"ACCEPT", (\d+), (\{[^}]*\})>>')
_at = re.compile(r'<<"AT", (\d+), (\d+)>>')


def cfg_text(params, spec="TraceSpec", invariants=()):
    def tla(v):
        if isinstance(v, (list, tuple, set)):
            return "{" + ", ".join('"%s"' % x for x in v) + "}"
        return str(v)
    params = dict({"Packers": []}, **params)
    t = "SPECIFICATION %s\nCONSTANTS\n" % spec + "".join("  %s = %s\n" % (k, tla(v)) for k, v in params.items())
    return t + "".join("INVARIANT %s\n" % i for i in invariants)


def validate_traces(ctx, params, traces, label="trace validation"):
    """TLC validates recorded executions against PackColl.  Returns (accepted {tid: violated clauses}, rejected {tid: event#})."""
    from vf import tlc
    _ctr[0] += 1
    fin = os.path.join(ctx.workdir, "pktraces_%d_%d.json" % (os.getpid(), _ctr[0]))
    with open(fin, "w") as f:
        json.dump([{"events": t} for t in traces], f)
    cfg = cfg_text(params)
    res = tlc.run(ctx, "PackCollTrace", cfg_text=cfg, env={"VF_IN": fin}, workers=4)
    ctx.add_tlc(res, label)
    acc = {int(t): sorted(re.findall(r'"(\w+)"', v)) for t, v in _accept.findall(res["output"])}
    rej = {}
    for tid in range(1, len(traces) + 1):
        if tid in acc:
            continue
        with open(fin, "w") as f:
            json.dump([{"events": traces[tid - 1]}], f)
        r2 = tlc.run(ctx, "PackCollTrace", cfg_text=cfg + "CONSTRAINT Progress\n", env={"VF_IN": fin}, workers=1)
        rej[tid] = max([int(b) for a, b in _at.findall(r2["output"])] or [0])
    os.unlink(fin)
    return acc, rej
