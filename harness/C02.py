"""C02 — per-file history and last-changed revisions are recorded correctly."""
import os
import shutil

from vf import env, tlc, table, core, world
from vf.tlaval import to_py

META = dict(
    property_id="C02", level="model_checking", design_ref="DESIGN.md §4 C02",
    technique="TLA+ rule for per-file versions (candidates = parents' file versions, per-file heads, carry-over iff single "
              "head and unchanged entry) in a two-branch history model checked by TLC; TLC-generated behaviours (modify / move "
              "/ chmod / directory rename / merge both ways / revert-after-merge / identical parallel change / pull) replayed "
              "on real 2a and pack-0.92 branches sharing a repository; get_file_revision, the text-key parent map and "
              "Repository.check() read back and judged by TLC against the rule",
    level_text="TLC exhausts the history model for one file + one directory up to 3 (thorough: 4) revisions and proves that "
               "the rule yields last-changed revisions inside the ancestry that hold exactly the entry, parents that are "
               "per-file heads of the parents' versions, and existing keys; witnesses show two-headed merges, take-other "
               "carry-over, revert-after-merge, identical parallel changes and criss-cross are reached. Hundreds (thorough: "
               "thousands) of simulated behaviours with two files up to 5 (6) revisions are replayed on real repositories and "
               "every recorded (revision, file) is compared with the rule by TLC.",
    level_note="Merges and pulls are replayed as set_parent_ids + explicit tree contents (the merge algorithm is C17's). File ids are "
               "fixed; contents are two values. Ghost parents and knit repositories are not covered. bzrformats index / "
               "groupcompress code trusted as executed.",
)

INV = ("VersionInAncestry", "ActuallyChanged", "ParentsAreHeads", "KeysMatch", "RuleAgrees")
DIR = "d"


ALL_EDITS = ("modify", "move", "chmod", "renamedir")


def cfg(files, maxrev, maxedits, withremove, inv=INV, nb=2, maxmerge=1, switch=False, edits=ALL_EDITS):
    def b(x):
        return "TRUE" if x else "FALSE"
    return ("SPECIFICATION Spec\nCONSTANTS\n  Files = {%s}\n  MaxRev = %d\n  MaxEdits = %d\n  WithRemove = %s\n  NB = %d\n  MaxMerge = %d\n"
            "  WithSwitch = %s\n  EditKinds = {%s}\n" % (", ".join('"%s"' % f for f in files), maxrev, maxedits, b(withremove), nb, maxmerge,
                                                       b(switch), ", ".join('"%s"' % e for e in edits))
            + "".join("INVARIANT %s\n" % i for i in inv))


def fid(i):
    return ("id-" + i).encode()


def rid(n):
    return ("r%d" % n).encode()


def rel_path(t, i):
    e = t[i]
    return (t[DIR]["name"] + "/" if e["parent"] == DIR else "") + e["name"]


class Fixture:
    """Two branches with working trees sharing one repository; revision r1 = the initial tree on both."""

    def __init__(self, workdir, fmt, tree0, nb=2):
        from breezy import controldir
        self.root = os.path.join(workdir, "c02")
        shutil.rmtree(self.root, ignore_errors=True)
        os.makedirs(self.root)
        f = controldir.format_registry.make_controldir(fmt)
        cd = controldir.ControlDir.create(self.root, format=f)
        cd.create_repository(shared=True)
        t1 = controldir.ControlDir.create_branch_convenience(os.path.join(self.root, "b1"), format=f, force_new_tree=True) \
            .controldir.open_workingtree()
        if fmt == "2a":
            t1.set_root_id(b"root-id")
        self.trees = {1: t1}
        self.set_wt(1, tree0, {})
        t1.commit("r1", rev_id=rid(1), timestamp=1000000000, timezone=0, committer="C <c@e.com>")
        for k in range(2, nb + 1):
            dk = t1.branch.controldir.sprout(os.path.join(self.root, "b%d" % k), revision_id=rid(1))
            self.trees[k] = dk.open_workingtree()
            if self.trees[k].branch.repository.user_url != t1.branch.repository.user_url:
                raise AssertionError("branches do not share the repository")
        self.repo_url = t1.branch.repository.user_url

    def real_wt(self, b):
        """What the working tree of branch b holds now (versioned entries as found on disk)."""
        tree = self.trees[b]
        out = {}
        with tree.lock_read():
            for path, ie in tree.iter_entries_by_dir():
                if path == "":
                    continue
                par = ie.parent_id.decode()
                ap = tree.abspath(path)
                if ie.kind == "file":
                    with open(ap) as f:
                        c = f.read().strip()
                    ex = bool(os.stat(ap).st_mode & 0o100)
                else:
                    c, ex = "-", False
                out[ie.file_id.decode()[3:]] = {"parent": par[3:] if par.startswith("id-") else "R", "name": ie.name, "kind": ie.kind,
                                                "exec": ex, "content": c}
        return out

    def set_wt(self, b, target, cur=None):
        """Make the working tree of branch b hold exactly `target` (abstract tree): explicit contents, whatever it holds now."""
        tree = self.trees[b]
        base = tree.basedir
        if cur is None:
            cur = self.real_wt(b)
        with tree.lock_write():
            if DIR not in cur:
                os.mkdir(os.path.join(base, target[DIR]["name"]))
                tree.add([target[DIR]["name"]], ids=[fid(DIR)])
            elif cur[DIR]["name"] != target[DIR]["name"]:
                tree.rename_one(cur[DIR]["name"], target[DIR]["name"])
        mid = dict(cur)
        mid[DIR] = target[DIR]
        with tree.lock_write():
            for i in sorted((set(cur) | set(target)) - {DIR}):
                if i in cur and i not in target:
                    tree.remove([rel_path(mid, i)], keep_files=False, force=True)
                    continue
                new = rel_path(target, i)
                ap = os.path.join(base, new)
                if i not in cur:
                    with open(ap, "w") as f:
                        f.write(target[i]["content"] + "\n")
                    tree.add([new], ids=[fid(i)])
                else:
                    old = rel_path(mid, i)
                    if old != new:
                        tree.rename_one(old, new)
                    if cur[i]["content"] != target[i]["content"]:
                        with open(ap, "w") as f:
                            f.write(target[i]["content"] + "\n")
                os.chmod(ap, 0o755 if target[i]["exec"] else 0o644)

    def rebuild(self, b, st):
        """Fresh working tree for branch b in abstract state st (tip, pending merge, contents): used when the working
        tree itself (dirstate) gave up on the accumulated renames - not C02's subject."""
        tree = self.trees[b]
        cd = tree.controldir
        base = tree.basedir
        cd.destroy_workingtree_metadata()
        for n in os.listdir(base):
            if n != ".bzr":
                p = os.path.join(base, n)
                shutil.rmtree(p) if os.path.isdir(p) and not os.path.islink(p) else os.unlink(p)
        self.trees[b] = tree = cd.create_workingtree(revision_id=rid(st["tip"][b]))
        if st["pm"][b]:
            with tree.lock_write():
                tree.set_parent_ids([rid(st["tip"][b])] + [rid(x) for x in st["pm"][b]])
        self.set_wt(b, st["wt"][b])

    def close(self):
        shutil.rmtree(self.root, ignore_errors=True)


def proj_tree(tree):
    out = {}
    with tree.lock_read():
        for path, ie in tree.iter_entries_by_dir():
            if path == "":
                continue
            i = ie.file_id.decode()[3:]
            par = ie.parent_id.decode()
            if ie.kind == "file":
                c, ex = tree.get_file_text(path).decode().strip(), bool(tree.is_executable(path))
            else:
                c, ex = "-", False
            out[i] = {"parent": par[3:] if par.startswith("id-") else "R", "name": ie.name, "kind": ie.kind, "exec": ex, "content": c}
    return out


def read_back(repo, n):
    """(P, T, fv, fp) of revisions r1..rn as the repository has them; revision ids -> numbers."""
    def num(r):
        return int(r.decode()[1:])
    with repo.lock_read():
        pm = repo.get_parent_map([rid(k) for k in range(1, n + 1)])
        P = [[num(p) for p in pm[rid(k)] if p != b"null:"] for k in range(1, n + 1)]
        keys = repo.texts.keys()
        tpm = repo.texts.get_parent_map(keys)
        T, fv, fp = [], [], []
        for k in range(1, n + 1):
            rt = repo.revision_tree(rid(k))
            T.append(proj_tree(rt))
            v = {}
            for path, ie in rt.iter_entries_by_dir():
                if path:
                    v[ie.file_id.decode()[3:]] = num(rt.get_file_revision(path))
            fv.append(v)
            fp.append({key[0].decode()[3:]: sorted(num(p[1]) for p in tpm[key]) for key in keys
                       if key[1] == rid(k) and key[0].startswith(b"id-")})
    return P, T, fv, fp


def replay(sub, chunk):
    from breezy import repository as _r
    rows = sub.cov.setdefault("_collect", [])
    for fmt, beh in chunk:
        tree0 = beh[0][1]["wt"][1]
        fx = Fixture(sub.workdir, fmt, tree0, nb=len(beh[0][1]["wt"]))
        calls = []
        try:
            def do_step(st):
                s = st["step"]
                a, b = s["a"], s["b"]
                tree = fx.trees[b]
                if a == "commit":
                    tree.commit("m", rev_id=rid(s["r"]), timestamp=1000000000 + s["r"], timezone=0, committer="C <c@e.com>")
                elif a in ("pull", "switch"):
                    # like a merge: the branch tip is set (fast-forward, or any revision for switch), the tree gets the new
                    # basis and explicit contents (how WorkingTree.pull / update rewrite the files is not C02's subject)
                    with tree.lock_write():
                        tree.branch.generate_revision_history(rid(s["r"]))
                        tree.set_parent_ids([rid(s["r"])])
                    fx.set_wt(b, st["wt"][b])
                else:
                    if a == "merge":
                        with tree.lock_write():
                            ps = [rid(st["tip"][b])] + [rid(x) for x in st["pm"][b]]
                            tree.set_parent_ids(ps)
                            if tree.get_parent_ids() != ps:
                                raise AssertionError("set_parent_ids kept %s of %s" % (tree.get_parent_ids(), ps))
                    fx.set_wt(b, st["wt"][b])

            prev = beh[0][1]
            for act, st in beh[1:]:
                s = st["step"]
                calls.append([s["a"], s["b"], s["r"]])
                try:
                    do_step(st)
                except Exception as ex:  # noqa
                    if not type(ex).__name__ in ("DirstateCorrupt", "InconsistentDelta", "AssertionError", "BzrMoveFailedError", "NoSuchFile"):
                        raise
                    # the working tree (dirstate) broke down, not the commit builder: fresh tree in the pre-state, once more
                    sub.cov["wt_rebuilds"] = sub.cov.get("wt_rebuilds", 0) + 1
                    sub.cov.setdefault("_collect", []).append({"wt_rebuild": "%s: %s" % (type(ex).__name__, str(ex)[:160]), "calls": list(calls), "format": fmt})
                    try:
                        fx.rebuild(s["b"], prev)
                        do_step(st)
                    except Exception as ex2:  # noqa  not replayable at all: no history to judge
                        sub.drift("behaviour cannot be replayed (%s: %s)" % (type(ex2).__name__, str(ex2)[:100]), {"format": fmt, "calls": calls})
                        calls = None
                        break
                prev = st
            if calls is None:
                continue
            last = beh[-1][1]
            n = len(last["P"])
            repo = _r.Repository.open(fx.repo_url)
            P, T, fv, fp = read_back(repo, n)
            with repo.lock_read():
                res = repo.check(None)
            probs = []
            if res.inconsistent_parents:
                probs.append("inconsistent parents: %s" % [(str(x[0]), str(x[1])) for x in res.inconsistent_parents][:3])
            if res.unreferenced_versions:
                probs.append("unreferenced versions: %s" % sorted(res.unreferenced_versions)[:3])
            row = {"c": {"P": P, "T": T}, "impl": {"fv": fv, "fp": fp, "check": "; ".join(probs) or "ok"},
                   "meta": {"format": fmt, "calls": calls}}
            if P != [list(p) for p in last["P"]] or T != [dict(t) for t in last["T"]]:
                sub.drift("history read back from the repository differs from the generating behaviour",
                          {"format": fmt, "calls": calls, "P": P, "specP": last["P"], "T": T, "specT": last["T"]})
            rows.append(row)
            sub.count(n)
            merges = sum(1 for p in P if len(p) > 1)
            if merges:
                sub.nontrivial((fmt, str(calls)))
            if len(sub.cov["samples"]) < 1 and merges > 1:
                sub.sample({"format": fmt, "calls": calls, "parents": P, "last_changed": fv, "file_parents": fp})
        finally:
            fx.close()


def norm(v):
    """tlaval python value -> plain JSON-like (tuples -> lists, frozensets -> sorted lists)."""
    if isinstance(v, dict):
        return {k: norm(x) for k, x in v.items()}
    if isinstance(v, (tuple, list)):
        return [norm(x) for x in v]
    if isinstance(v, (set, frozenset)):
        return sorted(norm(x) for x in v)
    return v


def beh_to_py(beh):
    out = []
    for act, st in beh:
        s = norm(to_py(st))
        # wt / tip / pm are functions on 1..2 (printed as sequences)
        for k in ("wt", "tip", "pm"):
            if isinstance(s[k], list):
                s[k] = {i + 1: x for i, x in enumerate(s[k])}
        out.append((act, {k: s[k] for k in ("P", "T", "wt", "tip", "pm", "step")}))
    return out


def run(ctx):
    env.init()
    q = ctx.quick
    # ---- E1
    if not q:
        tlc.check(ctx, "PerFileGraphMC", cfg_text=cfg(["f"], 4, 1, False), label="MC 1 file + dir, 4 revisions", workers=16, timeout=3000)
        tlc.check(ctx, "PerFileGraphMC", cfg_text=cfg(["f", "g"], 3, 1, False), label="MC 2 files + dir, 3 revisions", workers=16, timeout=3000)
        tlc.check(ctx, "PerFileGraphMC", cfg_text=cfg(["f"], 4, 1, True), label="MC 1 file + dir, 4 revisions, remove / re-add", workers=16, timeout=3000)
        tlc.check(ctx, "PerFileGraphMC", cfg_text=cfg(["f"], 5, 1, False, nb=1, maxmerge=2, switch=True, edits=("modify", "renamedir")),
                  label="MC 1 file + dir, 5 revisions, one branch with switch, three-parent merges", workers=16, timeout=3000)
    # anti-vacuity witnesses; TLC's shortest counter-example of each is itself a behaviour that gets replayed on the real code
    octo = dict(nb=1, maxmerge=2, switch=True, edits=("modify", "renamedir"))
    wit = [("WitnessTwoHeads", 4, {}), ("WitnessTookOther", 4, {}), ("WitnessOctopusSameVersion", 5, octo)]
    if not q:
        wit += [("WitnessRevertAfterMerge", 4, {}), ("WitnessIdenticalParallel", 4, {}), ("WitnessCrissCross", 5, {}),
                ("WitnessOctopusThreeHeads", 5, octo)]
    witness_behs = []
    for w, mr, kw in wit:
        res = tlc.check(ctx, "PerFileGraphMC", cfg_text=cfg(["f"], mr, 1, False, (w,), **kw), expect_violation=w, label="witness " + w,
                        workers=4, timeout=3000)
        witness_behs.append(beh_to_py(res["trace"]))
    ctx.cov["witness_behaviours"] = len(witness_behs)
    # ---- E2: behaviours
    behs = []
    # (the graph run is also the exhaustive check of the invariants for this configuration)
    nodes, edges, inits, res = tlc.graph(ctx, "PerFileGraphMC", cfg_text=cfg(["f"], 3, 1, False), workers=8, label="MC + graph 1 file + dir, 3 revisions")
    from vf.tlaval import parse_state
    paths = list(tlc.transition_cover(nodes, edges, inits, rng=ctx.rng, max_len=16))
    ctx.cov["graph"] = {"nodes": len(nodes), "edges": len(edges), "cover_paths": len(paths)}
    paths = ctx.rng.sample(paths, min(len(paths), 50 if q else 1500))
    for p in paths:
        behs.append(beh_to_py([(act, parse_state(nodes[nid])) for act, nid in p]))
    ctx.cov["graph"]["replayed_paths"] = len(paths)
    ncover = len(paths)
    sims, res = tlc.simulate(ctx, "PerFileGraphMC", cfg_text=cfg(["f", "g"], 5 if q else 6, 2, False, maxmerge=2, switch=True), num=160 if q else 1200,
                             depth=16 if q else 20, seed=ctx.seed + 1, label="simulate 2 files", timeout=3000)
    if not sims:
        ctx.machinery("TLC -simulate produced no behaviour: %s" % res.get("output", "")[-800:])
    behs += [beh_to_py(b) for b in sims]
    sims, res = tlc.simulate(ctx, "PerFileGraphMC", cfg_text=cfg(["f"], 5 if q else 6, 2, True), num=40 if q else 300, depth=20, seed=ctx.seed + 2,
                             label="simulate 1 file with remove / re-add", timeout=3000)
    if not sims:
        ctx.machinery("TLC -simulate produced no behaviour: %s" % res.get("output", "")[-800:])
    behs += [beh_to_py(b) for b in sims]
    if not q:
        sims, res = tlc.simulate(ctx, "PerFileGraphMC", cfg_text=cfg(["f"], 6, 1, False), num=300, depth=18, seed=ctx.seed + 3,
                                 label="simulate 1 file, 6 revisions", timeout=3000)
        if not sims:
            ctx.machinery("TLC -simulate produced no behaviour: %s" % res.get("output", "")[-800:])
        behs += [beh_to_py(b) for b in sims]
    behs = [(k < ncover, b) for k, b in enumerate(behs) if len(b[-1][1]["P"]) > 1]
    if not behs:
        ctx.machinery("no behaviour with a commit was generated")
    ctx.cov["behaviours"] = len(behs)
    # simulated behaviours on both formats (quick: every second one); graph-cover paths alternate between the formats
    jobs = []
    for k, (cover, b) in enumerate(behs):
        if cover and not q:
            fmts = ("2a",) if k % 2 else ("pack-0.92",)
        else:
            fmts = ("2a", "pack-0.92") if (not q or k % 2 == 0) else ("2a",)
        jobs += [(fmt, b) for fmt in fmts]
    jobs = [(fmt, b) for b in witness_behs for fmt in ("2a", "pack-0.92")] + jobs
    core.fork_map(ctx, replay, jobs, chunks_per_proc=8)
    rows = [r for r in ctx.collected if "wt_rebuild" not in r]
    rebuilds = [r for r in ctx.collected if "wt_rebuild" in r]
    ctx.collected = []
    ctx.cov["working_tree_rebuilds"] = len(rebuilds)
    if rebuilds:
        ctx.cov["working_tree_rebuild_example"] = min(rebuilds, key=lambda r: len(r["calls"]))
        ctx.assume("in %d replays the working tree (dirstate) failed on the accumulated renames and was recreated at the same "
                   "abstract state; the commit under test then ran on the fresh tree" % len(rebuilds))
    for row, failed, drift in table.judge(ctx, "PerFileGraphTrace", rows, workers=8, chunk=2000):
        meta = row["meta"]
        merges = sum(1 for p in row["c"]["P"] if len(p) > 1)
        for law in failed:
            shape = "linear-history" if not merges else "merge-history" if all(len(p) < 3 for p in row["c"]["P"]) else "three-parent-merge-history"
            ctx.violation("law:%s:%s:%s" % (law, meta["format"], shape),
                          "law %s fails on %s history %s: last-changed %s, file parents %s, check: %s" % (
                              law, meta["format"], row["c"]["P"], row["impl"]["fv"], row["impl"]["fp"], row["impl"]["check"]), row)
    ctx.rule("behaviours = transition cover of TLC's state graph (1 file + directory, 3 revisions; quick 50, thorough 1500 of the paths) + TLC -simulate runs (2 files + "
             "directory, <= 5 revisions quick / 6 thorough, <= 2 edits per commit) over modify / move / chmod / directory rename / commit / "
             "merge any missing revision with a per-file THIS-or-OTHER choice (up to two pending merges: three-parent commits) / pull / switch to any revision "
             "on two branches (plus remove / re-add runs) + TLC's shortest witness behaviours (two heads, take-other, three parents carrying the same "
             "version, ...); each replayed on 2a and pack-0.92; "
             "evaluations = revisions read back; non-trivial = history with at least one merge revision")
    ctx.assume("merges and pulls are replayed as set_parent_ids + explicit tree contents")
