"""C18 — merge decision rules are symmetric and consistent with their LCA extension."""
from vf import env, table

META = dict(
    property_id="C18", level="model_checking", design_ref="DESIGN.md §4 C18",
    technique="TLA+ transcription of _three_way/_lca_multi_way model-checked by TLC over the whole bounded domain; "
              "TLC case table replayed into the real static methods; recorded results judged by the TLA+ laws",
    level_text="Exhaustive over values 0..3 and up to 3 (4 in thorough) LCAs with both allow_overriding_lca settings: "
               "TLC proves the laws on the transcription, every case is executed on the real functions, and TLC "
               "evaluates the same laws on the recorded results. Finite-domain functions, so small-scope exhaustion "
               "is the right level.",
    level_note="Values are small integers; the functions only use ==/in on values, so the value domain is "
               "representative (data independence). Trusted: TLC, the JSON bridge.",
)


def run(ctx):
    env.init()
    from breezy.merge import Merge3Merger
    consts = {"MaxVal": 3, "MaxLcas": 3 if ctx.quick else 4}
    cases = table.generate(ctx, "Merge3DecideGen", consts, witnesses=("WitnessConflict", "WitnessOverride"))
    rows = []
    for k in cases:
        c = k["c"]
        b, l, o, t, ov = c["base"], list(c["lcas"]), c["other"], c["this"], c["ov"]
        impl = {"tw": Merge3Merger._three_way(b, o, t), "twS": Merge3Merger._three_way(b, t, o),
                "lca": Merge3Merger._lca_multi_way((b, l), o, t, allow_overriding_lca=ov),
                "lcaS": Merge3Merger._lca_multi_way((b, l), t, o, allow_overriding_lca=ov)}
        rows.append({"c": c, "impl": impl})
        ctx.count(1)
        if len(set(l) | {b, o, t}) > 1:
            ctx.nontrivial((b, tuple(l), o, t, ov))
    ctx.sample(rows[len(rows) // 2])
    ctx.sample(rows[-1])
    ctx.rule("all (base, lcas, other, this, allow_overriding_lca) over values 0..%(MaxVal)s and <=%(MaxLcas)s LCAs, "
             "enumerated by TLC; non-trivial = not all values equal" % consts)
    ctx.cov["exhaustive"] = True
    for row, failed, drift in table.judge(ctx, "Merge3DecideTrace", rows):
        c = row["c"]
        for law in failed:
            shape = "lcas=%d" % len(set(c["lcas"]) - {c["base"]})
            ctx.violation("law:%s:%s" % (law, shape), "law %s fails on %s -> %s" % (law, c, row["impl"]), row)
        if drift and not failed:
            ctx.drift("implementation differs from transcription on %s: %s" % (c, row["impl"]), row)
