"""C05 — concurrent pack writers and packers never lose committed data."""
import json

from vf import env, tlc, core
from vf.tlaval import to_py
from harness import pack_common as pc

META = dict(
    property_id="C05", level="model_checking", design_ref="DESIGN.md §4 C05",
    technique="TLA+ spec of the pack collection protocol (pack-names three-way merge under the names lock, publish, "
              "obsolete, clear, reload-and-retry) model-checked by TLC over all interleavings; real Repository objects "
              "in 2-3 scheduled threads run under TLC-seeded and random schedules at boundary-operation granularity; "
              "every recorded execution validated by TLC against the spec (plan and written names logged, memory "
              "views and committed data inferred) and checked by a fresh re-open",
    level_text="TLC exhausts 2 writers (+reader) racing commit/autopack/obsolete/clear with the invariants NoLoss, "
               "ListedPresent, MergeCorrect, ObsoleteOnlyUnlisted. The same actions validate executions of the real "
               "code: shared 2a repository, one branch per writer, autopack really triggered (10th pack), schedules "
               "interleaved at every transport operation through which processes can observe each other. Verdict on "
               "the real run: every process completes, a fresh open reads every committed revision, TLC accepts the "
               "trace with no latched clause.",
    level_note="Interleaving points: reads/writes of pack-names, names-lock rename, publish move, obsolete moves "
               "(pack, then its index group), obsolete_packs listing, reads of pack/index files, tip write. Operations on "
               "files only the process knows are local. Memory transport (local disk in thorough). bzrformats' "
               "NewPack/indices and dromedary are trusted. Crash-free here (crashes: C04).",
)

MCQ = {"Writers": ["w1", "w2"], "Readers": ["r"], "InitPacks": 2, "MaxCommits": 1, "MaxPacks": 2, "MaxCrashes": 0}
MCT = {"Writers": ["w1", "w2"], "Readers": [], "InitPacks": 1, "MaxCommits": 2, "MaxPacks": 2, "MaxCrashes": 0}
MCP = {"Writers": ["w1"], "Readers": [], "Packers": ["k"], "InitPacks": 2, "MaxCommits": 2, "MaxPacks": 9, "MaxCrashes": 0}
INV = ("TypeOK", "ListedPresent", "NoLoss", "NoLatched", "VisibleWhole")
_TPL = {}


def template(fmt, ip, writers):
    k = (fmt, ip, tuple(writers))
    if k not in _TPL:
        _TPL[k] = pc.build_template(fmt, ip, writers)
    return _TPL[k]


def failure_signature(pw, p):
    st = pw.w.procs[p]
    res = st["result"]
    tb = st.get("tb") or []
    fns = [fn for f, fn in tb if f in ("groupcompress_repo.py", "pack_repo.py", "knitpack_repo.py")]
    role = "writer" if p in pw.writers else "reader"
    if res[1] in ("NoSuchFile",) and any(fn.startswith("_copy_") or fn == "_create_pack_from_packs" for fn in fns):
        return "vanished-pack-not-retried:packer-index-read:%s" % res[1]
    if res[1] == "RuntimeError" and "pack listing changed, retry needed" in str(res[2]):
        # bzrformats' compiled knit code gives up instead of reloading the pack list and retrying (RetryWithNewPacks is
        # turned into RuntimeError); the signature names the breezy call that was running
        vf = [fn for f, fn in tb if f == "vf_repository.py"]
        return "retry-lost-in-bzrformats:RuntimeError:%s" % (vf[-1] if vf else "?")
    return "process-failed:%s:%s:%s" % (role, res[1], fns[-1] if fns else "?")


def run_scenarios(sub, chunk):
    """chunk: list of (scenario dict).  Runs each on the real code, then TLC validates the recorded traces."""
    by = {}
    for sc in chunk:
        tpl = template(sc["fmt"], sc["init"], sc["writers"])
        pw = pc.PackWorld(sub, tpl, sc["writers"], sc["readers"], sc["commits"], sc["init"], disk=sc.get("disk", False),
                          packers=sc.get("packers", ()), held=sc.get("held", False))
        sched_ = []
        try:
            import random
            rng = random.Random(sc["seed"])
            seedp = list(sc.get("pids") or [])
            n = 0
            # half of the random schedules switch at every boundary operation, half let a process run a burst
            bursty = rng.random() < 0.5
            cur, left = None, 0
            while pw.live() and n < 5000:
                live = pw.live()
                p = None
                while seedp and p is None:
                    c = seedp.pop(0)
                    if c in live:
                        p = c
                if p is None and bursty and cur in live and left > 0:
                    p, left = cur, left - 1
                if p is None:
                    p = rng.choice(live)
                    cur, left = p, rng.choice((0, 1, 2, 4, 6, 10, 16, 30))
                sched_.append(p)
                pw.step(p)
                n += 1
            rep = {"scenario": {k: v for k, v in sc.items() if k != "pids"}, "schedule": "".join(
                {"w1": "a", "w2": "b", "w3": "c", "r": "r", "k": "k"}.get(x, "?") for x in sched_)}
            for p in pw.w.procs:
                res = pw.w.result(p)
                if res is None or res[0] != "ok":
                    sub.violation(failure_signature(pw, p), "process %s did not complete: %s" % (p, res), rep)
            for prob in pw.fresh_check(deep=sc.get("deep", False)):
                sub.violation("fresh-open:" + prob.split(":")[0], prob, rep)
            tr = pc.trace_of(pw)
            by.setdefault((tuple(sc["writers"]), tuple(sc["readers"]), sc["init"], sc["commits"], tuple(sc.get("packers", ()))),
                          []).append((tr, rep))
            sub.count(1)
            if any(e["kind"] == "publish" and e.get("auto") for e in tr) or len({e["p"] for e in tr}) > 1:
                sub.nontrivial(rep["schedule"] + str(sc["seed"]))
            if len(sub.cov["samples"]) < 1:
                sub.sample({"scenario": rep["scenario"], "events": [[e["p"], e["kind"], e.get("id", "")] for e in tr][:60]})
        finally:
            pw.close()
    sub.cov.setdefault("_collect", []).extend(
        [list(k), tr, rep] for k, items in by.items() for tr, rep in items)


def validate_collected(ctx):
    """One TLC run per configuration over all traces the workers recorded."""
    by = {}
    for k, tr, rep in ctx.collected:
        by.setdefault(json.dumps(k), []).append((tr, rep))
    ctx.collected = []
    for k, items in by.items():
        ws, rs, ip, mc, ks = json.loads(k)
        params = {"Writers": list(ws), "Readers": list(rs), "Packers": list(ks), "InitPacks": ip, "MaxCommits": mc,
                  "MaxPacks": 99, "MaxCrashes": 0}
        acc, rej = pc.validate_traces(ctx, params, [t for t, _ in items])
        ctx.count(0, traces=len(items))
        for tid, viol in acc.items():
            for v in viol:
                ctx.violation("trace-clause:" + v, "TLC: clause %s violated on a recorded execution" % v, items[tid - 1][1])
        for tid, at in rej.items():
            tr = items[tid - 1][0]
            ctx.drift("recorded execution is not a behaviour of PackColl.tla: first unmatched event #%d %s" % (
                at, {k2: v for k2, v in tr[at - 1].items() if k2 != "obs"} if 0 < at <= len(tr) else None), items[tid - 1][1])


def pid_sequences(behs, procs):
    """Schedules (process-id sequences) out of TLC behaviours: the process whose local state changed."""
    out = []
    for b in behs:
        seq = []
        for (a0, s0), (a1, s1) in zip(b, b[1:]):
            for p in procs:
                if any(to_py(s0[v]).get(p) != to_py(s1[v]).get(p) for v in ("pc", "mem", "atLoad", "obs", "done")) :
                    seq.append(p)
                    break
        out.append(seq)
    return out


def run(ctx):
    env.init()
    # ---- E1: the design
    tlc.check(ctx, "PackCollMC", cfg_text=pc.cfg_text(MCQ, "Spec", INV), label="MC 2 writers + reader, 1 commit each, autopack race")
    for w in ("WitnessAutopackRace", "WitnessBothCommitted"):
        tlc.check(ctx, "PackCollMC", cfg_text=pc.cfg_text(MCQ, "Spec", (w,)), expect_violation=w, label="witness " + w)
    tlc.check(ctx, "PackCollMC", cfg_text=pc.cfg_text(MCP, "Spec", INV), label="MC writer x 2 commits + packer x 2 pack()")
    if not ctx.quick:
        tlc.check(ctx, "PackCollMC", cfg_text=pc.cfg_text(MCT, "Spec", INV), label="MC 2 writers x 2 commits", timeout=1800)
    # ---- schedules: TLC-seeded + random, on the real code
    behs, _ = tlc.simulate(ctx, "PackCollMC", cfg_text=pc.cfg_text(MCQ, "Spec", INV), num=24 if ctx.quick else 300, depth=60,
                           seed=ctx.seed + 3, label="simulate (schedule seeds)")
    seeds = pid_sequences(behs, ["w1", "w2", "r"])
    jobs = []
    nrand = 40 if ctx.quick else 800
    for i in range(nrand):
        jobs.append({"fmt": "2a", "init": 9, "writers": ["w1", "w2"], "readers": ["r"], "commits": 1,
                     "seed": ctx.seed * 100003 + i})
    for i, s in enumerate(seeds):
        # stretch the seed: every spec step stands for a burst of boundary operations of that process
        jobs.append({"fmt": "2a", "init": 9, "writers": ["w1", "w2"], "readers": ["r"], "commits": 1,
                     "seed": ctx.seed * 7 + i, "pids": [p for p in s for _ in range(1 + (i % 4))]})
    for i in range(16 if ctx.quick else 300):
        jobs.append({"fmt": "2a", "init": 2, "writers": ["w1", "w2"], "readers": ["r"], "commits": 2,
                     "seed": ctx.seed * 31 + i})
    # a process running pack() against two committing writers (reload_pack_names / RetryPackOperations paths)
    for i in range(48 if ctx.quick else 600):
        jobs.append({"fmt": "2a", "init": 2, "writers": ["w1", "w2"], "readers": [], "packers": ["k"], "commits": 2,
                     "seed": ctx.seed * 37 + i, "held": i % 3 != 0})
    if not ctx.quick:
        for i in range(200):
            jobs.append({"fmt": "2a", "init": 8, "writers": ["w1", "w2", "w3"], "readers": [], "commits": 1,
                         "seed": ctx.seed * 17 + i})
        for i in range(100):
            jobs.append({"fmt": "pack-0.92", "init": 9, "writers": ["w1", "w2"], "readers": ["r"], "commits": 1,
                         "seed": ctx.seed * 13 + i})
        for i in range(60):
            jobs.append({"fmt": "2a", "init": 9, "writers": ["w1", "w2"], "readers": ["r"], "commits": 1,
                         "seed": ctx.seed * 19 + i, "disk": True, "deep": True})
    core.fork_map(ctx, run_scenarios, jobs, chunks_per_proc=1)
    validate_collected(ctx)
    ctx.rule("scenario = shared 2a repository with 9 (or 2/8) single-revision packs, 2-3 writers each committing through "
             "their own branch (the 10th pack triggers autopack in both) + a reader; schedule = process chosen at each "
             "boundary operation, random (seeded) or stretched from a TLC -simulate behaviour; non-trivial = an autopack "
             "happened or at least two processes interleaved")
    ctx.assume("threads model processes; a contended names lock yields to the scheduler instead of sleeping")
